#!/usr/bin/env python3
"""Regenerate the machine-derived tables of DESIGN.md (between the BEGIN/END GENERATED markers) from evidence/, known_findings.json and seeded/."""
import json
import re
import subprocess
from pathlib import Path

ROOT = Path(__file__).resolve().parent.parent


def table_status():
    man = json.loads((ROOT / "MANIFEST.json").read_text())
    rows = ["| id | contracts | functions under contract | paths | P obligations (all discharged) | back ends | bounded tiers (never counted as proved) | known findings hit | quick wall |",
            "|----|-----------|--------------------------|-------|-------------------------------|-----------|------------------------------------------|--------------------|------------|"]
    for c in man["checks"]:
        pid = c["property_id"]
        ev = json.loads((ROOT / "evidence" / f"{pid}.json").read_text())
        cov = ev["coverage"]
        names = sorted({x["name"] for x in cov["contracts"]})
        b = "; ".join(f"{x['check']} ({x.get('cases', '?')} cases)" for x in cov.get("bounded", [])) or "-"
        lem = len(cov.get("lemmas", []))
        rows.append(f"| {pid} | {len(names)}" + (f" + {lem} lemmas" if lem else "") + f" | {len(cov['functions_under_contract'])} | {cov['paths']} | {cov['obligations']} | "
                    f"{', '.join(s.split('(')[0] for s in cov['back_ends']) or '-'} | {b} | {', '.join(cov.get('known_findings_hit', [])) or '-'} | {ev['wall_s']:.0f} s |")
    na = man.get("not_applicable", [])
    for n in na:
        rows.append(f"| {n['property_id']} | not applicable | | | | | | | |")
    return "\n".join(rows)


def table_findings():
    d = json.loads((ROOT / "known_findings.json").read_text())
    fixed = [f for f in d["findings"] if f["status"] == "fixed"]
    known = [f for f in d["findings"] if f["status"] == "known"]
    out = ["**Repairs (`fix:` commits in /repo, unguarded, one defect each; the pinned suite passes with all of them):**", ""]
    for f in fixed:
        out.append(f"* `{f['id']}` — {f['fixed']}")
    out += ["", "**Known findings (genuine defects recorded rather than repaired; printed as `KNOWN-FINDING:` and never masking a different failure):**", ""]
    for f in known:
        out.append(f"* `{f['id']}` ({f['property']}) — {f['what']}")
    return "\n".join(out)


def table_seeds():
    rows = ["| seed | property | what the change does | detected by (first reported obligation) |", "|------|----------|----------------------|------------------------------------------|"]
    sweep = json.loads((ROOT / "seeded" / "SWEEP.json").read_text()) if (ROOT / "seeded" / "SWEEP.json").exists() else {}
    for d in sorted((ROOT / "seeded").iterdir()):
        if not (d / "meta.json").exists():
            continue
        meta = json.loads((d / "meta.json").read_text())
        title = ""
        if (d / "notes.md").exists():
            for line in (d / "notes.md").read_text().splitlines():
                if line.startswith("#"):
                    title = re.sub(r"^#+\s*", "", line)
                    title = re.sub(r"^C\d\d\s*[-/]?\s*(change\s*)?[A-D]\s*[—:-]*\s*", "", title, flags=re.I).strip()
                    break
        if not title or len(title) < 8:
            diff = (d / "patch.diff").read_text()
            files = re.findall(r"^\+\+\+ b/(\S+)", diff, flags=re.M)
            title = "edit of " + ", ".join(f.split("/")[-1] for f in files)
        det = meta.get("detected_by")
        if det and det.get("violations"):
            m = re.search(r"obligation=(\S+)", det["violations"][0])
            ob = m.group(1) if m else "?"
            ob = ob.split(".", 1)[1] if "." in ob else ob
            dets = f"`{ob[:110]}`" + (" (+%d more)" % (len(det["violations"]) - 1) if len(det["violations"]) > 1 else "")
        else:
            sw = sweep.get(d.name, {})
            dets = "**not detected**" if sw and not sw.get("skipped") else "not swept"
        rows.append(f"| {d.name} | {meta['property']} | {title[:120]} | {dets} |")
    return "\n".join(rows)


def main():
    p = ROOT / "DESIGN.md"
    s = p.read_text()
    for name, fn in (("STATUS", table_status), ("FINDINGS", table_findings), ("SEEDS", table_seeds)):
        begin, end = f"<!-- BEGIN GENERATED {name} -->", f"<!-- END GENERATED {name} -->"
        if begin in s and end in s:
            a, b = s.index(begin) + len(begin), s.index(end)
            s = s[:a] + "\n" + fn() + "\n" + s[b:]
    p.write_text(s)
    print("DESIGN.md tables regenerated")


if __name__ == "__main__":
    main()
