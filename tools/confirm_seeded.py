#!/usr/bin/env python3
"""Confirm a candidate seeded change in a scratch worktree and store it under /verif/seeded/<id>/.

usage: confirm_seeded.py <candidate_dir> <seed_id> <property>
The candidate dir holds patch.diff, demo.py, notes.md (written by an independent sub-agent).
"""
import json
import os
import shutil
import subprocess
import sys
import tempfile
from pathlib import Path

cand, sid, prop = Path(sys.argv[1]), sys.argv[2], sys.argv[3]
dest = Path("/verif/seeded") / sid
wt = Path(tempfile.mkdtemp(prefix="confirm_wt_", dir="/tmp")) / "wt"


def run(cmd, **kw):
    return subprocess.run(cmd, capture_output=True, text=True, **kw)


res = {"id": sid, "property": prop}
try:
    r = run(["git", "-C", "/repo", "worktree", "add", "--detach", str(wt), "HEAD"])
    assert r.returncode == 0, r.stderr
    env = dict(os.environ, PYTHONPATH=str(wt / "src"))
    r = run(["git", "-C", str(wt), "apply", str(cand / "patch.diff")])
    res["applies"] = r.returncode == 0
    if not res["applies"]:
        res["apply_error"] = r.stderr[-500:]
    else:
        r = run(["/venv/bin/python", "-m", "pytest", "-q", "-p", "no:cacheprovider", "-x", "-q"], cwd=str(wt), env=env)
        res["tests_pass_with_change"] = r.returncode == 0
        res["tests_tail"] = r.stdout.strip().splitlines()[-1:] if r.stdout else []
        r = run(["/venv/bin/python", str(cand / "demo.py")], cwd=str(wt), env=env, timeout=600)
        res["demo_with_change_exit"] = r.returncode
        res["demo_with_change_tail"] = (r.stdout + r.stderr).strip().splitlines()[-3:]
        run(["git", "-C", str(wt), "checkout", "--", "."])
        run(["git", "-C", str(wt), "clean", "-fdq"])
        r = run(["/venv/bin/python", str(cand / "demo.py")], cwd=str(wt), env=env, timeout=600)
        res["demo_clean_exit"] = r.returncode
        res["demo_clean_tail"] = (r.stdout + r.stderr).strip().splitlines()[-2:]
    res["confirmed"] = bool(res.get("applies") and res.get("tests_pass_with_change") and res.get("demo_with_change_exit") == 1 and res.get("demo_clean_exit") == 0)
finally:
    run(["git", "-C", "/repo", "worktree", "remove", "--force", str(wt)])
    shutil.rmtree(wt.parent, ignore_errors=True)
if res.get("confirmed"):
    dest.mkdir(parents=True, exist_ok=True)
    shutil.copy(cand / "patch.diff", dest / "patch.diff")
    shutil.copy(cand / "demo.py", dest / "demo.py")
    if (cand / "notes.md").exists():
        shutil.copy(cand / "notes.md", dest / "notes.md")
    meta = {"id": sid, "property": prop, "base_commit": run(["git", "-C", "/repo", "rev-parse", "HEAD"]).stdout.strip(),
            "needs_to_manifest": "see notes.md", "confirmed_by": "tools/confirm_seeded.py: patch applies, full suite (PYTHONPATH=<wt>/src pytest) passes with the change, demo exits 1 with the change and 0 without",
            "results": res, "detected_by": None}
    (dest / "meta.json").write_text(json.dumps(meta, indent=1))
print(json.dumps(res))
