#!/bin/sh
# run every claimed quick check on the clean tree (evidence files are rewritten by the checks themselves)
cd /verif || exit 3
if ! git -C /repo diff --quiet; then echo "repo dirty"; exit 3; fi
for p in $(python3 -c "import json;print(' '.join(c['property_id'] for c in json.load(open('MANIFEST.json'))['checks']))"); do
  ${VERIF_TIMEOUT:-timeout 1500} ./check $p ${1:-quick} 2>&1 | tail -1
done
python3-vt - <<'PY'
import json, jsonschema, glob
sch = json.load(open('/root/.vp/EVIDENCE.schema.json'))
m = json.load(open('/verif/MANIFEST.json'))
jsonschema.validate(m, json.load(open('/root/.vp/MANIFEST.schema.json')))
for c in m['checks']:
    e = json.load(open('/verif/' + c['evidence_file']))
    jsonschema.validate(e, sch)
    cov = e['coverage']
    assert cov['obligations'] == cov['discharged'] and cov['obligations'] > 0, (c['property_id'], cov['obligations'], cov['discharged'])
print("manifest + evidence valid")
PY
