#!/usr/bin/env python3
"""Regenerate MANIFEST.json from the table below (keeps it schema-valid)."""
import json
from pathlib import Path

ROOT = Path(__file__).resolve().parent.parent
props = [json.loads(l) for l in (ROOT / "properties.jsonl").read_text().splitlines() if l.strip()]

TECH = "contract-based deductive verification: VCs generated from the real source by pyvc (AST symbolic execution), discharged by z3/cvc5"

CLAIMED = {
    "C01": dict(
        text="Proof on the real bodies: the visibility decision tables (is_private/is_special/is_class_private/is_imported/is_exported/is_wildcard_exposed/is_public, "
             "loop-free hence complete, for all names, kinds, parents, __all__ and import maps); and the Visitor handlers over symbolic ast nodes: visit_if "
             "(TYPE_CHECKING flag restored on every exit, also before orelse), handle_attribute (one member per bound name, class/instance/module scope, "
             "annotation/value/docstring/span, __all__ handling), handle_function (property/setter/deleter/overload folding, labels from decorators, spans), "
             "visit_classdef, visit_module, decorators_to_labels and get_base_property (with the rsplit uniqueness lemma discharged by cvc5), get_docstring / "
             "Visitor._get_docstring (every leading string literal, the empty one included, with its own span) and the docstring of each name bound by an assignment. "
             "Whole-module agreement with the source (one member per bound name, docstrings and spans) is a bounded native catalogue of generated modules.",
        note="Restricted claim: only the clauses listed in evidence.coverage.contracts are decided; the whole-module statement is a paper induction over the "
             "per-handler contracts plus the bounded tier. ast node invariants assumed (lineno <= end_lineno, targets non-empty). Fixed: C01-D1..D7 (visit_if flag, docstring leak across targets, is_exported without parent, empty __all__, property span, mixed unsupported targets).",
        ref="DESIGN.md 3/C01"),
    "C02": dict(
        text="Proof for all lengths: the real get_parameters body (any rewrite of it in the supported subset) is proved equal to the CPython "
             "ast.arguments alignment rule at Skolem indices of lazy symbolic sequences; counterexamples are replayed against inspect.signature. "
             "Visitor.handle_function is proved to store exactly that list (annotations, defaults, kinds untouched; overload/property branches carry it), "
             "Parameter.required and the Parameters lookup by name/index are proved, and a syntactic lemma shows the parameters statement reads only the signature. "
             "The whole static pipeline against inspect.signature over every small parameter-list shape (function, method, async; overloads, accessors) is a bounded native tier.",
        note="Assumes ast.arguments validity (len(defaults) <= positional count, len(kw_defaults) == len(kwonlyargs)); expressions are opaque (C03).",
        ref="DESIGN.md 3/C02"),
    "C10": dict(
        text="Pointwise rule contracts of _function_incompatibilities proved for signatures of any length (moved/default/required/removed/kind "
             "clauses, identical => silent, reported => changed); the call-binding completeness clause is a bounded exhaustive stand-in "
             "(<=2 params per side, all call shapes, real calls as oracle) reported separately and never counted as proved.",
        note="Assumes legal signatures (unique names, kind order); defaults are str|None. Known findings C10-F2/F3 listed in known_findings.json.",
        ref="DESIGN.md 3/C10"),
}

CLAIMED.update({
    "C15": dict(
        text="Proof on the real sys_path / dynamic_import / GriffeLoader.load / _load_module_path / _inspect_module / _load_module / _load_submodule / resolve_module_aliases bodies: "
             "sys.path identity restored on every exit (any exception class, body rebinding sys.path), only ImportError escapes dynamic_import, every "
             "inspection / dynamic-import call site is dead when inspection is disallowed, compiled modules rejected, resolve_module_aliases (one arbitrary member, "
             "symbolic implicit / external flags, load by its contract) reaches no execution site; plus a syntactic lemma closing the "
             "execution frontier (functions containing import/exec/subprocess primitives and their callers). The code run by an import may rebind sys.path (and then "
             "succeed, raise or exit); sys.modules is an arbitrary table. Real loads with markers (side-effecting, compiled, source-less, missing modules; modules "
             "that raise / exit / tamper with sys.path under inspection) are a bounded native tier.",
        note="Foreign calls (import_module, getattr on foreign objects, find_spec, visit, inspect) are opaque summaries that may raise any BaseException; "
             "exceptions by handler-equivalence representatives; extensions are the user's code; dynamic_import is called with the finder's (non-empty) search paths.",
        ref="DESIGN.md 3/C15"),
    "C16": dict(
        text="Per-operation proof on the real mixins/collections/Alias code over symbolic object trees: _get_parts, get_member/__getitem__ (modular recursion, "
             "dotted == chained), del_member/__delitem__ (deleted member gone, frame), __setitem__/set_member (parent/collection link, alias retargeting, frame), "
             "Alias.target/parent setters (self-target guard, listing under current path), Object.path. Whole-history invariants are bounded native tiers in the "
             "statement's own shape: a scenario sweep, EVERY operation sequence up to a length bound (3 quick / 4 thorough) and random long sequences, each step "
             "compared with a reference dictionary and the full invariant.",
        note="Distinct fixtures have distinct identities (aliasing cases built explicitly); path() abstracted per heap version; merge_stubs and "
             "Alias.final_target taken by contract. Known findings C16-F1 (bottom-up construction) and C16-F2 (detached alias keeps its registration) listed; "
             "fixed: C16-P1 (replacement by a parentless alias raised).",
        ref="DESIGN.md 3/C16"),
})

CLAIMED.update({
    "C06": dict(
        text="Proof on the real Alias.resolve_target/_resolve_target (all-or-nothing: target untouched on failure, passed-through flag restored on every exit, "
             "only AliasResolutionError/CyclicAliasError escape, caller marked before recursing = variant), Alias.target, Alias.final_target (each iteration inserts "
             "a fresh key that is the visited alias's path => terminates on finite heaps), Alias.kind/has_docstring never raise, one generic member iteration of "
             "resolve_module_aliases. Whole-graph clauses (no escape from load/resolve_aliases, fixpoint of the resolve_aliases loop, which is not under a loop contract) are a "
             "bounded search over generated import graphs in one package and over sets of packages loaded in several orders with external resolution.",
        note="Modular recursion (callee contract assumed at the recursive call); finite heap; exception constructors by contract. Alias.aliases is the real forwarding property (can raise the alias errors). Fixed: C06-G2/G3/G4, C06-P1, C06-P2 (resolve_aliases stopped before a fixpoint after loading a package), C06-P3 (RuntimeError / KeyError for wildcard cycles through several packages); known: C06-G1, C06-G5, C06-G6.",
        ref="DESIGN.md 3/C06"),
})

CLAIMED.update({
    "C07": dict(
        text="Proof on the real Class.resolved_bases (one arbitrary base: found => appended in order, through an alias when it is one; not loaded / unresolvable => skipped and "
             "only skipped, no iteration ends the loop), Class._mro (cycle reported as ValueError before any recursion; `seen` extended by the own path before recursing = termination "
             "variant; result [self, *merge(base linearizations, bases)]) and ObjectAliasMixin.all_members (own members never shadowed), Class.parameters (the constructor presented is the __init__ all_members presents). "
             "Object.inherited_members (nearest definition in MRO order wins, inherited aliases under the subclass path, uncomputable MRO => {}) is verified "
             "symbolically for bounded sizes; c3linear_merge == C3 and whole-hierarchy agreement with CPython are a bounded exhaustive tier (type() as oracle).",
        note="At most 3 resolved bases (the property's bound); c3linear_merge taken by contract inside _mro; bounded parts are labelled and never counted as proved.",
        ref="DESIGN.md 3/C07"),
})

CLAIMED.update({
    "C20": dict(
        text="Ghost-trace proof on the real git.tmp_worktree (every git/temp-dir call is an event): add failure => RuntimeError and no further git call; after a "
             "successful add, worktree remove / prune / branch -D of exactly the created location and branch on every exit of the with body (any exception class), "
             "temp dir always released, body exceptions propagate; interruption of add; load_git runs the loader strictly inside the worktree context. "
             "A fault-enumeration tier replays the same on a real git repository (bounded, separate).",
        note="Under the listed git axioms; interruption only at call boundaries. Known finding C20-F1: interruption of a clean-up command skips the remaining ones.",
        ref="DESIGN.md 3/C20"),
})

CLAIMED.update({
    "C19": dict(
        text="Proof on the real merger.py: merge_stubs picks the .pyi side symmetrically (ValueError iff none); for an arbitrary stub member: stub-only => runtime=False and "
             "added, existing member never replaced, stub alias skipped, kind mismatch silent, same kind => recursive merge of exactly that pair, no member deleted, no "
             "exception (alias errors suppressed); for an arbitrary stub parameter: annotation overwritten for the same-named runtime parameter, returns from the stub; "
             "docstring kept unless missing; attribute annotation; overload lists moved when non-empty; no iteration can abort its loop. "
             "Order independence and the three placements are a bounded native tier.",
        note="One Skolem element per loop (generic-iteration mode) plus the proved fact that no iteration raises; set_member/get_member by contract (C16). The runtime member may be an alias (assigning its overloads resolves it). "
             "Fixed: C19-P1 (alias errors escaping the overload merge), C19-P2 (overloads of a stub function with implementation signature).",
        ref="DESIGN.md 3/C19"),
})

CLAIMED.update({
    "C18": dict(
        text="Proof on the real extensions/dataclasses.py: per-member decision table of _dataclass_parameters for one generic iteration from an arbitrary carried state "
             "(skip rules incl. subscripted and bare ClassVar, KW_ONLY sentinel, init=False, kind with field-level kw_only override, default / default_factory / required), decorator init=False, "
             "_set_dataclass_init (label iff a parent is a dataclass, base fields in reverse MRO then own, self first, cached lists never mutated, no __init__ for "
             "undecorated or init=False classes), _apply_recursively guards (hand-written __init__ kept). _reorder_parameters (first position, last definition, stable "
             "partition) is verified symbolically for bounded lengths; agreement with CPython's dataclasses is a bounded native tier.",
        note="Members of a dataclass body are non-alias objects; _field_arguments/_dataclass_arguments summarised by their key sets. Fixed: C18-F0/F1/F2, C18-P1 (bare ClassVar), C18-P2 (InitVar of an init=False base; decided by the native tier only: it is an ordering / caching effect across classes); known: C18-F3/F4.",
        ref="DESIGN.md 3/C18"),
})

CLAIMED.update({
    "C14": dict(
        text="Restricted claim. Proof on the real ModuleFinder.find_package over an abstract file system (membership/existence predicates): the decision for one arbitrary "
             "search path from any list of namespace directories collected so far (regular package > stubs-only package > module file; bare directory collected, "
             "search continues; a returned package is always justified by the file system; only ModuleNotFoundError escapes), and the single-search-path table "
             "(module file not hidden by a bare directory); ModuleFinder.iter_submodules for one generic module file from an arbitrary set of already-claimed "
             "sub-package directories (skip rule, own __init__ silent, sub-package __init__ claims its directory, name parts, the consulted skip set is a "
             "snapshot the pass does not change). _top_module_name (request by path: the parent of the returned directory becomes the FIRST search path unless a configured one lies above the "
             "request) for search-path lists of length 0-2, directory climb havocked: bounded-sizes tier. Listing-order independence and equality with the import "
             "system are a bounded native tier.",
        note="Listings are consumed through membership only (a change that depends on order becomes undecided); module names without dots. Known finding C14-F1 "
             "(namespace packages with clashing portions).",
        ref="DESIGN.md 3/C14"),
})

CLAIMED.update({
    "C11": dict(
        text="Proof on the real diff.py frontier functions: for an arbitrary old member, non-public => never reported, public and missing => exactly one "
             "ObjectRemovedBreakage against it, public and present => compared with the same-named new member; _type_based_yield dispatch (seen paths prevent "
             "re-entry, alias on either side => through targets, kinds differ => ObjectChangedKindBreakage, else the kind-specific comparison of exactly that pair); "
             "_alias_incompatibilities never aborts on unresolvable or cyclic re-exports; removed base class and changed attribute value always reported; no iteration raises; "
             "cli.check exits 1 iff at least one breakage was yielded and 0 otherwise, on every path of the real function. "
             "Silence on compatible edits and reporting against a public path are a bounded native tier (edit catalogue).",
        note="is_public abstracted here (its table is proved in C01); additions are silent by construction (only old members are iterated). Fixed: D9 cyclic re-export abort (219114d).",
        ref="DESIGN.md 3/C11"),
})

CLAIMED.update({
    "C04": dict(
        text="Proof on the real Object.resolve (own scope wins; import target for aliases; only NameResolutionError and only at the top scope; the enclosing class's own "
             "name short-cut only for non-module parents; otherwise the enclosing scope's answer for the same name -- up to the module, whose globals are the last scope), "
             "Visitor.visit_classdef (decorators and base classes get the scope the class statement stands in), Function.resolve (__init__ parameter form), "
             "ExprName.canonical_path (never raises, bare name when unbound, segment-by-segment attribute chains), Visitor.visit_import / visit_importfrom for an "
             "arbitrary imported name (bound name, target path, import map, self-import / submodule-import exceptions, runtime flag, span), "
             "_build_attribute (value.attr: the new name is linked to the name on its left so it resolves segment by segment, a dotted chain stays one flat chain in source order). "
             "relative_to_absolute == importlib's _resolve_name is verified symbolically for levels 0..3 and nesting <= 3; agreement with CPython binding is a bounded native tier.",
        note="Modular recursion on the parent scope; ast invariants (asname None or non-empty). A nested class body does not see the names of the enclosing class: stated as an obligation, fails on the pinned tree (known finding C04-F1; code that raises NameError in CPython is outside the domain, the failing input is a valid program with a module-level homonym). Fixed: C04-P1 (a module's globals are the last scope).",
        ref="DESIGN.md 3/C04"),
})

CLAIMED.update({
    "C05": dict(
        text="Clause-restricted. Proof on the real code: the `from m import *` exposure table (is_wildcard_exposed), _expand_wildcard = order-preserving filter by exposure carrying "
             "the statement span, the merge rule of expand_wildcards for one arbitrary wildcard statement and exposed name (never raises, self-alias never created, new names "
             "added as aliases to the exposed object under the importing module, statement removed iff expanded), expand_exports for one arbitrary __all__ entry "
             "(string kept; a reference to another module's __all__ replaced in place by that module's exports as they are after its own expansion, skipped when it is not "
             "loaded; seen gains the module's path), every forwarding property of Alias (list read from the "
             "real class body) presents the final target's value or raises only the alias errors, Alias.members rebased under the alias; two wildcard statements in one "
             "module leave temporary members that collide only if they target the same module (visit_importfrom; str.replace uninterpreted with three listed string facts). "
             "Equality of the composition with CPython's importer is a bounded native tier.",
        note="External package loading assumed done; set_member/del_member/get_member by contract (C16). Fixed: C05-F1 (expand_exports early return).",
        ref="DESIGN.md 3/C05"),
})

CLAIMED.update({
    "C08": dict(
        text="Shape-level inverse-pair proof on the real as_dict methods and the real json_decoder / _load_* functions: for Function (parameters, returns, decorators), "
             "Attribute, Alias (unresolved, and resolved to an object with a path of its own: the dump keeps the written target), Class (bases, decorators, members with restored parent links) and Module (path / built-in / namespace file paths), objects built by the real "
             "constructors with symbolic fields are dumped (minimal form), decoded bottom-up by the real json_decoder and shown to reload without error, with every listed "
             "field equal and an identical key set on re-serialisation; the loader gives every name of every expression it stores (decorators, bases, parameter "
             "annotations and defaults, returns, attribute values and annotations) its scope back. Whole trees, every expression class, both agents, the full form and "
             "the command-line dump are a bounded native tier.",
        note="JSON codec mirrored by the contract (nested as_dict, set->list, enum->value); inspect.cleandoc uninterpreted (no idempotence assumed); expressions as "
             "strings. Fixed: C08-D4/D13/D14/D15/D16/D17/D18; "
             "known: C08-F1 (full form not reloadable), F4 (overloads), F5 (instance-attribute value scope), F6/F7 (full dump of namespace / built-in modules raises).",
        ref="DESIGN.md 3/C08"),
    "C09": dict(
        text="docs/schema.json is re-read and interpreted on every run over the symbolic image of the real as_dict(full=True) of Function, Attribute, Alias, Class (with "
             "attribute and alias members) and Module objects built by the real constructors: every path of the encoders yields a document the published schema accepts "
             "(required keys, additionalProperties: false, types, enums, oneOf, if/then). Real dumps of generated modules are validated with jsonschema in the bounded tier.",
        note="Path-like fields of full dumps are strings by contract; decorators carry line numbers (they only come from source). Fixed: C09-D8a/b/c (schema); known: C09-F6/F7.",
        ref="DESIGN.md 3/C09"),
})

CLAIMED.update({
    "C12": dict(
        text="Modular proof on the real Google / Numpy / Sphinx parsers under the Docstring invariant (last line not blank unless the docstring is one empty line): "
             "leaf block readers (every lines[e] in bounds, skip / item / continuation loops with invariants and strictly decreasing variants, returned offset >= "
             "offset - 1, every item has a first line), all 12 + 13 + 7 section / field readers against the leaf contracts (one generic item iteration from an arbitrary "
             "accumulated state; no exception escapes for any option valuation and any parent), the three main loops against the reader contracts (offset strictly "
             "increases: termination; readers called within protocol), the two dispatch tables total, docstring_warning / parse_docstring_annotation never raise, "
             "Docstring.parse / parsers.parse reach a contracted parser for every Parser member; docstring and parent never written. "
             "The plain-text clause and section well-formedness are a bounded native corpus.",
        note="The parent is None or a model object of unknown class whose reads may raise per the listed policy; regex outcomes are abstract except group optionality "
             "(derived from the real patterns); compile() may raise SyntaxError / ValueError; RecursionError / MemoryError not modelled. "
             "Fixed: C12-F0..F6 (no known finding left); 'the safe expression getter never raises' is no longer assumed (C03 safe_get_expression.total).",
        ref="DESIGN.md 3/C12"),
})

CLAIMED.update({
    "C03": dict(
        text="One lemma per expression node class (29 classes; lambdas bounded-symbolic: <= 2+1+1+1+1 parameters) on the real _build_X / dataclass constructor / ExprX.iterate / _yield / _join / _precedence / "
             "Expr.__str__: for children of arbitrary class and operator, str(_build_X(node)) equals the grammar template of X -- separators, brackets, operator "
             "spelling, and parentheses exactly around the children that bind less tightly than their position requires; sub-expression flags (in_subscript, "
             "in_joined_str / in_formatted_str) reach only the children they are meant for; operator and binding-level tables equal the language reference; "
             "_node_map total. String annotations: get_expression's auto mode, the Literal rule of _build_subscript (by resolved path, not spelling), "
             "_build_constant's decision, and a call-site lemma (only annotation helpers use auto mode). That the templates parse back to the source tree "
             "is validated against ast.parse on a catalogue of expressions (bounded native tier).",
        note="Children are abstracted to (class, operator, uninterpreted rendering); arbitrary nesting follows by structural induction (paper). Quick tier: one child at a "
             "time is arbitrary, thorough: every pair at once; child sequences have 0..2 elements. Fixed: C03-P1..P11 (parenthesization and 10 rendering defects, incl. lambda markers and f-string fields starting with a brace); safe_get_expression is "
             "proved total (it is what every caller assumes); "
             "known: C03-F1 (f-string conversion / format spec not stored).",
        ref="DESIGN.md 3/C03"),
})

CLAIMED.update({
    "C13": dict(
        text="Structural proof on the real Google / Numpy readers and main loops of what makes the render-then-parse round trip work: line classification of the block "
             "readers for one generic line from an arbitrary reader state (blank and indented lines continue the item, an item-level line starts a new one, the "
             "section ends only where the layout says, every line read exactly once, finished items kept in order); for all 22 item readers one generic item "
             "from an arbitrary carried state yields an element that depends only on that item and the signature (no leakage between items: non-interference with "
             "the havocked loop state); an iteration of the main loops that starts a known section leaves no state of the previous one (text buffer flushed and "
             "emptied, admonition title cleared); documented section titles map to their kinds and kinds to their readers. "
             "Equality of the recovered fields with the written ones is a bounded native round trip (renderer in /verif).",
        note="Restricted claim: field-level recovery (regular expressions) is bounded only; Sphinx is covered by the native tier and C12's contracts. "
             "Fixed: C13-P1 (Google attribute type leak), C13-P2 (Numpy trailing newline); C13-P3 (single Numpy Yields / Receives item), C13-F1 (Sphinx :type: after :param:, first a known finding); no known finding left.",
        ref="DESIGN.md 3/C13"),
})

NA_REASON = {
    "C17": "relates two whole-program analyses through CPython's run-time object model; a contract for the inspector would have to assume the very "
           "object model the property compares against, so no obligation over /repo code alone implies agreement (DESIGN.md section 4)",
}

checks = []
na = []
for p in props:
    i = p["id"]
    if i in CLAIMED:
        c = CLAIMED[i]
        checks.append({
            "property_id": i,
            "quick_cmd": f"./check {i} quick",
            "thorough_cmd": f"./check {i} thorough",
            "evidence_file": f"evidence/{i}.json",
            "replay_cmd_template": f"./check {i} --replay {{path}}",
            "engine": "pyvc",
            "level_claimed": {"category": "proof", "text": c["text"], "design_ref": c["ref"]},
            "level_note": c["note"],
            "technique": TECH,
        })
    else:
        na.append({"property_id": i, "reason": NA_REASON.get(i, "check not built yet (framework under construction; see DESIGN.md for the plan)")})

m = {
    "version": 1,
    "setup_cmd": "mkdir -p evidence out && python3-vt -c 'import z3; print(z3.get_version_string())'",
    "hooks": {"guard": "GRIFFE_VERIF", "enable": "none needed: pyvc reads /repo/src with ast; replays use the public API with PYTHONPATH=/repo/src",
              "baseline_off_cmd": "cd /repo && /venv/bin/python -m pytest -ra -q -p no:cacheprovider --timeout=900 --continue-on-collection-errors",
              "source_commits": [], "add_only": True},
    "engines": [{"name": "pyvc", "path": "pyvc/", "serves_properties": sorted(CLAIMED),
                 "kind_free_text": "VC generator + symbolic executor over the real Python source (ast), sidecar contracts in contracts/, z3 5.1 API primary, cvc5/z3 CLI fall-backs, native replay under /venv/bin/python"}],
    "checks": checks,
    "notes": "Exit codes: 0 held, 1 VIOLATION (+replay file), 2 undecided, 3 checker defect. Fix commits in /repo: see known_findings.json (status=fixed).",
    "not_applicable": na,
}
(ROOT / "MANIFEST.json").write_text(json.dumps(m, indent=1) + "\n")
print("claimed:", sorted(CLAIMED), "n/a:", len(na))
