#!/bin/sh
# usage: tools/mutcheck.sh <prop> <patch.diff> [lines] : apply patch to /repo, run quick check, always revert;
# the committed evidence file is saved and restored (a run against a seeded change must never be committed as evidence)
prop=$1; patch=$2
cd /verif || exit 3
if ! git -C /repo diff --quiet; then echo "repo dirty"; exit 3; fi
cp "evidence/$prop.json" "/tmp/evidence_$prop.bak" 2>/dev/null
git -C /repo apply "$(realpath "$patch")" || { echo "patch does not apply"; exit 3; }
timeout 900 ./check "$prop" quick 2>&1 | cut -c1-400 | tail -${3:-6}
git -C /repo checkout -- .
[ -f "/tmp/evidence_$prop.bak" ] && mv "/tmp/evidence_$prop.bak" "evidence/$prop.json"
