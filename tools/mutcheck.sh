#!/bin/sh
# usage: tools/mutcheck.sh <prop> <patch.diff> : apply patch to /repo, run quick check, always revert
prop=$1; patch=$2
cd /verif || exit 3
if ! git -C /repo diff --quiet; then echo "repo dirty"; exit 3; fi
git -C /repo apply "$(realpath "$patch")" || { echo "patch does not apply"; exit 3; }
timeout 900 ./check "$prop" quick 2>&1 | cut -c1-400 | tail -${3:-6}
git -C /repo checkout -- .
