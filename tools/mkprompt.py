#!/usr/bin/env python3
"""Prepare a scratch worktree and the task text for an independent sub-agent that seeds a property-breaking change.
usage: mkprompt.py <seed id> <property id> "<steering hint>"   (writes /tmp/cand/<id>/PROMPT.txt, creates /tmp/wt/<id>)
The text contains the property as given and nothing from /verif."""
import json
import subprocess
import sys
from pathlib import Path

sid, prop, hint = sys.argv[1], sys.argv[2], sys.argv[3] if len(sys.argv) > 3 else ""
kind = sys.argv[4] if len(sys.argv) > 4 else "break"
p = next(json.loads(l) for l in Path("/verif/properties.jsonl").read_text().splitlines() if l.strip() and json.loads(l)["id"] == prop)
wt, cand = f"/tmp/wt/{sid}", f"/tmp/cand/{sid}"
Path(cand).mkdir(parents=True, exist_ok=True)
subprocess.run(["git", "-C", "/repo", "worktree", "add", "--detach", wt, "HEAD"], check=True, capture_output=True)
head = f"""You are helping test a verification effort for the open-source Python library mkdocstrings/griffe (extracts API models from Python source). You have your own scratch git worktree of the repository at {wt} (the library source is under {wt}/src/_griffe, the tests under {wt}/tests). Work ONLY inside {wt} and {cand}; never touch /repo or /verif, and do not read anything under /verif.

Here is a semantic property the library is supposed to satisfy:

  id: {p['id']}
  title: {p['title']}
  statement: {p['statement']}
  quantified over: {p['quantifier']['text']}
  anchored in: {', '.join(p['anchors']['files'])}
"""
if kind == "break":
    body = f"""
YOUR TASK: produce a *realistic* change to the library source (a small edit a developer could plausibly make: a refactor gone subtly wrong, a "simplification", a micro-optimisation, a narrowed/widened exception handler, an off-by-one, a reordered pair of statements, two cooperating edits that each look fine alone) that BREAKS this property while the code still imports and the existing test suite still passes. The change must need something specific to manifest (an unusual input, a particular combination of options, a multi-step sequence, a specific arrangement of lines/definitions, ...) — NOT something ordinary use or the existing tests would expose at once. {hint}

Deliverables, all in {cand}/ :
  1. patch.diff  — `git -C {wt} diff` of your change (source files under src/ only; do not edit tests).
  2. demo.py     — a self-contained program that exits 0 and prints PASS on the ORIGINAL code and exits 1 (printing what went wrong) WITH your change. It is run as:  cd {wt} && PYTHONPATH={wt}/src /venv/bin/python {cand}/demo.py   (it must import the library via `import griffe` / `import _griffe...`; PYTHONPATH makes that resolve to the worktree). It should check the property's statement itself (e.g. compare with what CPython does / with the source), not internals.
  3. notes.md    — which clause is broken, what was changed, exactly what is needed for it to manifest, commands you ran and their results.

You MUST verify all of the following yourself before finishing, and report the outputs in notes.md:
  a. with the change applied: `cd {wt} && PYTHONPATH={wt}/src /venv/bin/python -m pytest -q -p no:cacheprovider -x` passes (IMPORTANT: PYTHONPATH is required, otherwise an installed copy of the library is tested instead of the worktree);
  b. with the change applied: demo.py exits 1;
  c. with the change reverted (`git -C {wt} diff > {cand}/patch.diff` then `git apply -R`; do NOT use `git stash`, the stash is shared between worktrees): demo.py exits 0; then re-apply your change so the worktree ends with the change applied.
There is no network. Python is /venv/bin/python (3.12). Keep the change small (ideally < 15 changed lines). Do not commit. When done, reply with a 5-line summary (files changed, what manifests it).
"""
else:
    body = f"""
YOUR TASK: produce a *behaviour-preserving refactoring* of the code this property depends on — the kind of harmless edit a maintainer makes all the time: rename local variables, extract a helper function or inline one, reorder independent statements, replace a loop by an equivalent comprehension (or the reverse), flip an if/else with the condition negated, hoist an invariant computation, replace `x = x + [y]` by `x.append(y)` where nothing else aliases x, split a long function in two, change the order of `except` clauses that cannot overlap, add type annotations or comments. The observable behaviour of the library must be EXACTLY the same for every input (same results, same exceptions, same order of side effects and of extension events). Touch 2-4 different functions that the property depends on, moderately (10-60 changed lines in total). {hint}

Deliverables, all in {cand}/ :
  1. patch.diff  — `git -C {wt} diff` of your change (source files under src/ only; do not edit tests).
  2. notes.md    — per hunk: what was changed and why it cannot change behaviour.

You MUST verify yourself before finishing: with the change applied `cd {wt} && PYTHONPATH={wt}/src /venv/bin/python -m pytest -q -p no:cacheprovider -x` passes (PYTHONPATH is required, otherwise an installed copy of the library is tested instead of the worktree). Also write and run a differential script of your own (old behaviour vs new on a few hundred generated inputs, comparing results and exceptions) and say in notes.md what it covered. There is no network. Python is /venv/bin/python (3.12). Do not commit. When done, reply with a 5-line summary.
"""
tail = """
IMPORTANT: never use `git stash` (it is shared with other worktrees of the same repository); revert and re-apply your change with `git diff > patch.diff`, `git apply -R patch.diff`, `git apply patch.diff`.
"""
Path(cand, "PROMPT.txt").write_text(head + body + tail)
print(cand + "/PROMPT.txt")
