#!/usr/bin/env python3
"""Run the quick checks of the properties a behaviour-preserving refactoring touches against a scratch worktree carrying it: no check may raise an alarm.

usage: tools/benignsweep.py [-j N] [id ...]   (results: benign/SWEEP.json)"""
import json
import os
import shutil
import subprocess
import sys
import tempfile
from concurrent.futures import ThreadPoolExecutor
from pathlib import Path

VERIF = Path(__file__).resolve().parent.parent
B = VERIF / "benign"


def run(cmd, **kw):
    return subprocess.run(cmd, capture_output=True, text=True, **kw)


def one(job):
    bid, prop = job
    scratch = Path(tempfile.mkdtemp(prefix=f"benign_{bid}_{prop}_"))
    wt = scratch / "wt"
    res = {}
    try:
        r = run(["git", "-C", "/repo", "worktree", "add", "--detach", str(wt), "HEAD"])
        r = run(["git", "-C", str(wt), "apply", str(B / bid / "patch.diff")])
        if r.returncode:
            return bid, prop, {"error": "patch does not apply: " + r.stderr[-200:]}
        env = dict(os.environ, VERIF_REPO_SRC=str(wt / "src"), VERIF_OUT=str(scratch / "o"))
        try:
            r = run([str(VERIF / "check"), prop, "quick"], env=env, timeout=2400)
            out = r.stdout.strip().splitlines()
            res = {"exit": r.returncode, "violations": [l.replace(str(scratch / "o"), "<out>")[:260] for l in out if l.startswith("VIOLATION")][:5],
                   "undecided": [l[:220] for l in out if l.startswith("UNDECIDED")][:6], "summary": out[-1][:260] if out else ""}
            if r.returncode == 3:
                res["stderr"] = r.stderr[-500:]
        except subprocess.TimeoutExpired:
            res = {"exit": "timeout"}
    finally:
        run(["git", "-C", "/repo", "worktree", "remove", "--force", str(wt)])
        shutil.rmtree(scratch, ignore_errors=True)
    return bid, prop, res


def main(argv):
    j = 3
    if argv and argv[0] == "-j":
        j = int(argv[1])
        argv = argv[2:]
    ids = argv or sorted(p.name for p in B.iterdir() if (p / "meta.json").exists())
    jobs = [(b, p) for b in ids for p in json.loads((B / b / "meta.json").read_text())["properties"]]
    f = B / "SWEEP.json"
    results = json.loads(f.read_text()) if f.exists() else {}
    with ThreadPoolExecutor(j) as ex:
        for bid, prop, res in ex.map(one, jobs):
            results.setdefault(bid, {})[prop] = res
            print(bid, prop, res.get("exit"), (res.get("violations") or res.get("undecided") or [res.get("error", "")])[0][:200], flush=True)
    run(["git", "-C", "/repo", "worktree", "prune"])
    f.write_text(json.dumps(results, indent=1, sort_keys=True))
    alarms = [(b, p) for b, r in results.items() for p, x in r.items() if x.get("exit") == 1]
    print("false alarms:", alarms or "none")


if __name__ == "__main__":
    main(sys.argv[1:])
