"""debug: run one contract in-process: tools/dbg.py C12 google.parse_google [max_paths]"""
import sys, time, importlib, collections
sys.path.insert(0, "/verif")
from pyvc.source import SourceIndex
from pyvc.interp import Explorer
from pyvc import api
prop, name = sys.argv[1], sys.argv[2]
maxp = int(sys.argv[3]) if len(sys.argv) > 3 else 300
importlib.import_module(f"contracts.{prop}")
c = next(c for c in api.REGISTRY[prop] if c.name == name)
idx = SourceIndex(); idx.load_all()
ex = Explorer(idx, max_paths=maxp)
t0 = time.time()
res = ex.run(c.driver)
print("paths", len(res), "time", round(time.time() - t0, 1), "unsupported", collections.Counter(str(u)[:200] for u in ex.unsupported).most_common(8))
print("stats", dict(ex.stats))
cnt = collections.Counter()
for P, st in res:
    cnt[st] += 1
    for ob in P.obligations:
        cnt["ob:" + ob.name] += 1
print(cnt.most_common(40))
