"""debug: run one contract in-process: tools/dbg.py C12 google.parse_google [max_paths]"""
import sys, time, importlib, collections
sys.path.insert(0, "/verif")
from pyvc.source import SourceIndex
from pyvc.interp import Explorer
from pyvc import api
prop, name = sys.argv[1], sys.argv[2]
maxp = int(sys.argv[3]) if len(sys.argv) > 3 else 300
importlib.import_module(f"contracts.{prop}")
c = next(c for c in api.REGISTRY[prop] if c.name == name)
idx = SourceIndex(); idx.load_all()
ex = Explorer(idx, max_paths=maxp)
t0 = time.time()
res = ex.run(c.driver)
print("paths", len(res), "time", round(time.time() - t0, 1), "unsupported", collections.Counter(str(u)[:200] for u in ex.unsupported).most_common(8))
print("stats", dict(ex.stats))
cnt = collections.Counter()
for P, st in res:
    cnt[st] += 1
    for ob in P.obligations:
        cnt["ob:" + ob.name] += 1
print(cnt.most_common(40))
if len(sys.argv) > 4 and sys.argv[4] == "discharge":
    from pyvc.run import discharge
    for P, st in res:
        for ob in P.obligations:
            r = discharge(ob, int(sys.argv[5]) if len(sys.argv) > 5 else 4000, 0, fallbacks=False)
            if len(sys.argv) > 6 and r[0] != sys.argv[6]:
                continue
            if r[0] != "discharged":
                print("==", ob.name, r[0], ob.meta, "path", P.path_id)
                for a in ob.assumptions[-25:]:
                    print("    ", str(a)[:220].replace("\n", " "))
if len(sys.argv) > 4 and sys.argv[4] == "slow":
    from pyvc.run import discharge
    rows = []
    for P, st in res:
        for ob in P.obligations:
            t1 = time.time()
            r = discharge(ob, int(sys.argv[5]) if len(sys.argv) > 5 else 8000, 0, fallbacks=False)
            rows.append((round(time.time() - t1, 2), ob.name, r[0], r[1], P.path_id, ob))
    rows.sort(key=lambda x: -x[0])
    for r in rows[:8]:
        print(r[:5])
    top = rows[0][5]
    print("== slowest:", rows[0][1], "assumptions", len(top.assumptions))
    for a in top.assumptions[-40:]:
        print("    ", str(a)[:260].replace("\n", " "))
    print("  goal:", str(top.goal)[:400])
