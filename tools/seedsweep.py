#!/usr/bin/env python3
"""Run the registered quick check of each seeded change's property against a scratch worktree carrying the change.

usage: tools/seedsweep.py [-j N] [seed-id ...]
/repo itself is never touched: a detached worktree of /repo HEAD is created under $TMPDIR, the patch is applied there, the
check runs with VERIF_REPO_SRC=<worktree>/src and VERIF_OUT=<scratch> (so the committed evidence is not overwritten), and the
worktree is removed. Results go to seeded/SWEEP.json and into each seed's meta.json (detected_by).
"""
import json
import os
import shutil
import subprocess
import sys
import tempfile
from concurrent.futures import ThreadPoolExecutor
from pathlib import Path

VERIF = Path(__file__).resolve().parent.parent
SEEDS = VERIF / "seeded"


def run(cmd, **kw):
    return subprocess.run(cmd, capture_output=True, text=True, **kw)


def sweep_one(sid, tier="quick"):
    d = SEEDS / sid
    meta = json.loads((d / "meta.json").read_text())
    prop = meta["property"]
    claimed = {c["property_id"] for c in json.loads((VERIF / "MANIFEST.json").read_text())["checks"]}
    if prop not in claimed and not (VERIF / "contracts" / f"{prop}.py").exists():
        return sid, {"property": prop, "skipped": "property has no check"}
    scratch = Path(tempfile.mkdtemp(prefix=f"sweep_{sid}_"))
    wt = scratch / "wt"
    res = {"property": prop}
    try:
        r = run(["git", "-C", "/repo", "worktree", "add", "--detach", str(wt), "HEAD"])
        if r.returncode:
            return sid, {"property": prop, "error": r.stderr[-300:]}
        r = run(["git", "-C", str(wt), "apply", str(d / "patch.diff")])
        if r.returncode:
            return sid, {"property": prop, "error": "patch does not apply: " + r.stderr[-300:]}
        env = dict(os.environ, VERIF_REPO_SRC=str(wt / "src"), VERIF_OUT=str(scratch / "o"))
        try:
            r = run([str(VERIF / "check"), prop, tier], env=env, timeout=1800)
            out = r.stdout.strip().splitlines()
            res["exit"] = r.returncode
            res["violations"] = [l.replace(str(scratch / "o"), "<out>")[:300] for l in out if l.startswith("VIOLATION")][:6]
            res["undecided"] = [l[:200] for l in out if l.startswith("UNDECIDED")][:4]
            res["summary"] = out[-1][:300] if out else ""
            if r.returncode == 3:
                res["stderr"] = r.stderr[-600:]
        except subprocess.TimeoutExpired:
            res["exit"] = "timeout"
    finally:
        run(["git", "-C", "/repo", "worktree", "remove", "--force", str(wt)])
        shutil.rmtree(scratch, ignore_errors=True)
    res["detected"] = res.get("exit") == 1 and bool(res.get("violations"))
    return sid, res


def main(argv):
    j = 3
    if argv and argv[0] == "-j":
        j = int(argv[1])
        argv = argv[2:]
    ids = argv or sorted(p.name for p in SEEDS.iterdir() if (p / "meta.json").exists())
    results = {}
    sweep_file = SEEDS / "SWEEP.json"
    if sweep_file.exists():
        results = json.loads(sweep_file.read_text())
    with ThreadPoolExecutor(j) as ex:
        for sid, res in ex.map(sweep_one, ids):
            results[sid] = res
            print(sid, res.get("exit"), "DETECTED" if res.get("detected") else "missed", (res.get("violations") or res.get("undecided") or [res.get("skipped") or res.get("error") or ""])[0][:160], flush=True)
            mp = SEEDS / sid / "meta.json"
            meta = json.loads(mp.read_text())
            if "skipped" not in res and "error" not in res:
                meta["detected_by"] = ({"check": f"./check {res['property']} quick", "exit": res["exit"], "violations": res["violations"]}
                                       if res["detected"] else None)
                meta["last_sweep"] = {k: res.get(k) for k in ("exit", "summary", "undecided")}
                mp.write_text(json.dumps(meta, indent=1))
    run(["git", "-C", "/repo", "worktree", "prune"])
    sweep_file.write_text(json.dumps(dict(sorted(results.items())), indent=1))
    n = sum(1 for r in results.values() if r.get("detected"))
    print(f"{n}/{len(results)} seeded changes detected")


if __name__ == "__main__":
    main(sys.argv[1:])
