#!/bin/sh
cd /verif
for p in C04 C07 C10 C11 C14 C15 C16 C19 C20 C02 C01 C09 C08 C18 C05 C06 C13 C03 C12; do
  echo "== $p $(date -u +%H:%M:%S)"
  /usr/bin/time -f "%es" ./check $p thorough 2>&1 | grep -v "^KNOWN-FINDING" | tail -4 | cut -c1-400
done
