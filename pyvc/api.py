"""Helpers used by sidecar contracts (drivers)."""
from __future__ import annotations

import z3

from .values import *  # noqa: F403
from .interp import Path, PyExc, Unsupported, PathEnd, Closure
from . import loops


class Contract:
    """A contract = a driver run on every path of the real function(s) it names."""

    def __init__(self, prop, name, functions, driver, replay=None, tier="P", floor=1, note="",
                 known=None, timeout_s=None, max_paths=None, shard_bits=0, split=0):
        self.shard_bits = shard_bits
        self.split = split
        self.prop, self.name, self.functions, self.driver = prop, name, functions, driver
        self.replay, self.tier, self.floor, self.note = replay, tier, floor, note
        self.known = known or []
        self.timeout_s, self.max_paths = timeout_s, max_paths


REGISTRY: dict[str, list[Contract]] = {}


def contract(prop, name, functions, replay=None, tier="P", floor=1, note="", **kw):
    def deco(fn):
        REGISTRY.setdefault(prop, []).append(Contract(prop, name, functions, fn, replay, tier, floor, note, **kw))
        return fn
    return deco


def fn_closure(P: Path, spec: str) -> Closure:
    mi, node, cls = P.index.find_function(spec)
    clo = Closure(node, mi, None, (cls + "." if cls else "") + node.name, cls)
    return clo


def call(P: Path, spec: str, *args, **kwargs):
    """Symbolically execute the real function `spec` (never through an opaque hook)."""
    clo = fn_closure(P, spec)
    clo._nohook = True
    P.ghost.setdefault("called", []).append(spec)
    return P.call_closure(clo, list(args), kwargs)


def outcome(P: Path, thunk):
    """Run thunk -> ('ok', value) | ('raise', exception SObj)."""
    try:
        return ("ok", thunk())
    except PyExc as e:
        return ("raise", e.obj)


def opt(P: Path, name, mk):
    """Optional value: None or mk()."""
    g = z3.Bool(P._fresh_name(name + "_isnone"))
    return SUnion([(g, None), (z3.Not(g), mk())])


def sym_seq(P: Path, name, elem, length=None, kind="list", minlen=0):
    """Symbolic-length sequence; elem(i) builds the element at z3 index i."""
    if length is None:
        n = P.fresh_int(name + "_n")
        P.assume(n.z >= minlen)
    else:
        n = length
    cache = {}

    def at(i):
        key = i if isinstance(i, int) else zint(i).sexpr()
        if key not in cache:
            cache[key] = elem(zint(i))
        return cache[key]
    return SSeq(n, at, kind=kind, tag=name)


def as_seq(P: Path, v):
    if isinstance(v, loops.SCat):
        return loops.scat_to_seq(P, v)
    return P.to_seq(v)


def implies(a, b):
    return z3.Implies(zbool(a), zbool(b))


def And(*xs):
    return z3.And(*[zbool(x) for x in xs]) if xs else z3.BoolVal(True)


def Or(*xs):
    return z3.Or(*[zbool(x) for x in xs]) if xs else z3.BoolVal(False)


def Not(x):
    return z3.Not(zbool(x))


def py_bool(P, v):
    """Truthiness of a returned value as z3 Bool (no forking where possible)."""
    return zbool(P.truth(v))


BASE_EXC_REPS = ["ImportError", "ModuleNotFoundError", "ValueError", "AttributeError", "KeyError", "OSError", "SyntaxError",
                 "UnicodeDecodeError", "RuntimeError", "KeyboardInterrupt", "SystemExit", "GeneratorExit", "BaseException"]


def any_exception(P: Path, tag="exc", reps=None):
    """An exception object of an arbitrary class (one representative per handler-equivalence class)."""
    reps = reps or BASE_EXC_REPS
    z = z3.Int(P._fresh_name(tag + "_cls"))
    P.assume(z3.And(z >= 0, z < len(reps)))
    return SObj(SCls(reps, z), {"args": ()})


def raise_any(P: Path, tag="exc", reps=None):
    raise PyExc(any_exception(P, tag, reps))


def may_raise(P: Path, tag, reps=None):
    """Fork: either return normally or raise an arbitrary exception."""
    if P.branch(z3.Bool(P._fresh_name(tag + "_raises"))):
        raise_any(P, tag, reps)


def with_cm(P: Path, spec: str, args, body, star=None):
    """Run `with <spec>(*args): body()` on the real generator-based context manager."""
    from . import models
    from .interp import StarArgs
    clo = fn_closure(P, spec)
    clo._nohook = True
    a = list(args) + ([StarArgs(star)] if star is not None else [])
    models.run_context_manager(P, ("gen_cm", clo, a, {}), lambda v: body())
