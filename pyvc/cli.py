"""Command line: python -m pyvc.cli <prop> [tier] [--only a,b] [--replay file]"""
import json
import os
import sys
import traceback


def main(argv):
    if not argv:
        print("usage: check <Cxx> [quick|thorough] [--only names] | check <Cxx> --replay <file>")
        return 3
    prop = argv[0]
    if prop == "selftest":
        # every seeded property-breaking change must be reported by its property's check, no behaviour-preserving refactoring may be
        import subprocess
        from . import run as _run
        r1 = subprocess.run([sys.executable.replace("python3-vt", "python3"), str(_run.VERIF / "tools" / "seedsweep.py")] + argv[1:])
        r2 = subprocess.run([sys.executable.replace("python3-vt", "python3"), str(_run.VERIF / "tools" / "benignsweep.py")])
        seeds = json.load(open(_run.VERIF / "seeded" / "SWEEP.json"))
        benign = json.load(open(_run.VERIF / "benign" / "SWEEP.json"))
        missed = sorted(k for k, v in seeds.items() if not v.get("detected") and not v.get("skipped"))
        alarms = sorted(f"{b}/{p}" for b, r in benign.items() for p, x in r.items() if x.get("exit") == 1)
        print(f"selftest: {len(seeds) - len(missed)}/{len(seeds)} seeded changes detected; missed: {missed or 'none'}; false alarms on refactorings: {alarms or 'none'}")
        return 0 if not missed and not alarms else 1
    tier = os.environ.get("VERIF_TIER") or "quick"
    only = None
    rest = argv[1:]
    i = 0
    replay = None
    while i < len(rest):
        a = rest[i]
        if a in ("quick", "thorough"):
            if not os.environ.get("VERIF_TIER"):
                tier = a
        elif a == "--only":
            only = rest[i + 1].split(",")
            i += 1
        elif a == "--replay":
            replay = rest[i + 1]
            i += 1
        i += 1
    seed = int(os.environ.get("VERIF_SEED", "0") or 0)
    from . import run
    if replay:
        data = json.load(open(replay))
        import importlib
        sys.path.insert(0, str(run.VERIF))
        importlib.import_module(f"contracts.{prop}")
        from . import api
        c = next((c for c in api.REGISTRY.get(prop, []) if c.name == data.get("contract")), None)
        if c is None or not c.replay:
            print(json.dumps(data.get("replay")))
            return 0
        rep = run.run_replay(prop, c.replay, data.get("witness"), data.get("obligation"), data.get("expects"))
        print(json.dumps(rep, indent=1))
        return 1 if rep.get("reproduced") else 0
    try:
        return run.run_property(prop, tier, seed, only)
    except Exception:
        traceback.print_exc()
        return 3


if __name__ == "__main__":
    sys.exit(main(sys.argv[1:]))
