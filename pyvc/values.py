"""Value model of pyvc.

Concrete Python values (int, bool, str, None, tuple, list, dict, frozenset of
concrete values) are used natively.  Everything else is one of the wrapper
classes below.  z3 terms are never compared with `==` in engine code: use
`z3.eq`/`is_true`/isinstance checks.
"""
from __future__ import annotations

import z3

IntS = z3.IntSort()
BoolS = z3.BoolSort()
StrS = z3.StringSort()


class Sym:
    """Marker base class of symbolic wrappers."""
    __slots__ = ()


class SInt(Sym):
    __slots__ = ("z",)

    def __init__(self, z):
        self.z = z

    def __repr__(self):
        return f"SInt({self.z})"


class SBool(Sym):
    __slots__ = ("z",)

    def __init__(self, z):
        self.z = z

    def __repr__(self):
        return f"SBool({self.z})"


class SStr(Sym):
    __slots__ = ("z",)

    def __init__(self, z):
        self.z = z

    def __repr__(self):
        return f"SStr({self.z})"


class EnumVal:
    """A concrete enum member of an enum class defined in the analysed source."""
    __slots__ = ("cls", "name", "value", "index")

    def __init__(self, cls, name, value, index):
        self.cls, self.name, self.value, self.index = cls, name, value, index

    def __repr__(self):
        return f"{self.cls}.{self.name}"

    def __eq__(self, other):
        return isinstance(other, EnumVal) and other.cls == self.cls and other.name == self.name

    def __hash__(self):
        return hash((self.cls, self.name))


class SEnum(Sym):
    """Symbolic member of enum class `cls`; z is its index (0 <= z < n)."""
    __slots__ = ("cls", "z")

    def __init__(self, cls, z):
        self.cls, self.z = cls, z

    def __repr__(self):
        return f"SEnum({self.cls},{self.z})"


class SObj:
    """An object: class name (str) or symbolic class (SCls); fields dict.

    `ident` (z3 term or None) gives the identity for `is`; when None, Python
    identity of the SObj is the identity.  `lazy` maps field name -> thunk
    creating the field value on first read (symbolic input shapes).
    """

    def __init__(self, cls, fields=None, ident=None, lazy=None, frozen=False):
        self.cls = cls
        self.fields = dict(fields or {})
        self.ident = ident
        self.lazy = dict(lazy or {})
        self.frozen = frozen

    def __repr__(self):
        return f"<{self.cls} {list(self.fields)}>"


class SCls(Sym):
    """Symbolic class tag: one of `cands` (class names); z is an Int index."""
    __slots__ = ("cands", "z")

    def __init__(self, cands, z):
        self.cands, self.z = list(cands), z

    def __repr__(self):
        return f"SCls({self.cands})"


class SSeq(Sym):
    """Lazy sequence: length (int or z3 Int) and element function at(i).

    `i` passed to `at` is an int or a z3 Int term.  kind: 'list' | 'tuple'.
    """
    __slots__ = ("len", "at", "kind", "tag", "memfn")

    def __init__(self, length, at, kind="list", tag=None, memfn=None):
        self.len, self.at, self.kind, self.tag, self.memfn = length, at, kind, tag, memfn

    def __repr__(self):
        return f"SSeq(len={self.len},{self.tag})"


class SUnion(Sym):
    """Guarded union: exactly one guard holds; value is the matching alternative."""
    __slots__ = ("alts",)

    def __init__(self, alts):
        self.alts = list(alts)

    def __repr__(self):
        return "SUnion(" + ", ".join(f"{g}:{v!r}" for g, v in self.alts) + ")"


class SMap(Sym):
    """Symbolic mapping with string keys.

    has(k) -> bool|z3 Bool ; get(k) -> value.  k is a str or z3 String term.
    Functional updates are layered in `writes` (list of (key, value|DELETED)).
    `order` (optional): SSeq of keys in insertion order for iteration.
    """
    __slots__ = ("has0", "get0", "writes", "tag", "keys_seq")

    def __init__(self, has, get, tag=None, keys_seq=None):
        self.has0, self.get0, self.writes, self.tag, self.keys_seq = has, get, [], tag, keys_seq


DELETED = object()


class Opaque:
    """An opaque value about which nothing is known except identity/tag."""

    def __init__(self, tag, z=None):
        self.tag, self.z = tag, z

    def __repr__(self):
        return f"Opaque({self.tag})"


class MList(Sym):
    """A mutable list cell: holds an immutable sequence value (python list copy | SSeq) and is mutated in place,
    so aliases (a tuple component, an element of another list) observe `append` / `extend`."""

    def __init__(self, seq):
        self.seq = list(seq) if isinstance(seq, (list, tuple)) else seq


class SAny(Opaque):
    """A value of unknown type read from the environment (e.g. an attribute of a docstring's parent object).

    Every operation on it is total in the *engine* but may raise in *Python*: attribute reads fork into AttributeError / another
    SAny, subscripts into KeyError / IndexError / TypeError / another SAny, truthiness and isinstance into both outcomes.
    Code is safe on an SAny only if every such exception is handled where it can occur."""

    _n = [0]

    def __init__(self, origin="any", kind=None):
        SAny._n[0] += 1
        super().__init__("any")
        self.origin = origin
        self.kind = kind   # None | "Parameters" | "Parameter": the only typed refinements (griffe containers read from a parent)
        self.uid = SAny._n[0]
        self.memo = {}

    def __repr__(self):
        return f"SAny({self.origin})"


class BoundMethod:
    def __init__(self, self_obj, func):
        self.self_obj, self.func = self_obj, func


class Closure:
    """A function defined in the analysed source."""

    def __init__(self, node, module, env=None, qualname=None, cls=None):
        self.node, self.module, self.env, self.qualname, self.cls = node, module, env, qualname, cls

    def __repr__(self):
        return f"<fn {self.module}:{self.qualname}>"


class ClassRef:
    """Reference to a class (source-defined or modelled builtin)."""

    def __init__(self, name, module=None, node=None):
        self.name, self.module, self.node = name, module, node

    def __repr__(self):
        return f"<class {self.name}>"

    def __eq__(self, o):
        return isinstance(o, ClassRef) and o.name == self.name

    def __hash__(self):
        return hash(("ClassRef", self.name))


class ModuleRef:
    def __init__(self, name):
        self.name = name

    def __repr__(self):
        return f"<module {self.name}>"


class Builtin:
    """A modelled builtin callable: fn(interp, args, kwargs) -> value."""

    def __init__(self, name, fn):
        self.name, self.fn = name, fn

    def __repr__(self):
        return f"<builtin {self.name}>"


def is_sym(v):
    return isinstance(v, Sym)


def zint(v):
    """z3 Int term of an int-like value."""
    if isinstance(v, bool):
        return z3.IntVal(1 if v else 0)
    if isinstance(v, int):
        return z3.IntVal(v)
    if isinstance(v, SInt):
        return v.z
    if isinstance(v, SBool):
        return z3.If(v.z, z3.IntVal(1), z3.IntVal(0))
    if z3.is_expr(v):
        return v
    raise TypeError(f"not int-like: {v!r}")


def zbool(v):
    if isinstance(v, bool):
        return z3.BoolVal(v)
    if isinstance(v, SBool):
        return v.z
    if z3.is_expr(v):
        return v
    raise TypeError(f"not bool-like: {v!r}")


def zstr(v):
    if isinstance(v, str):
        return z3.StringVal(v)
    if isinstance(v, SStr):
        return v.z
    if z3.is_expr(v):
        return v
    raise TypeError(f"not str-like: {v!r}")


def mk_int(z):
    z = z3.simplify(z) if z3.is_expr(z) else z
    if isinstance(z, int):
        return z
    if z3.is_int_value(z):
        return z.as_long()
    return SInt(z)


def mk_bool(z):
    if isinstance(z, bool):
        return z
    z = z3.simplify(z)
    if z3.is_true(z):
        return True
    if z3.is_false(z):
        return False
    return SBool(z)


def mk_str(z):
    if isinstance(z, str):
        return z
    z = z3.simplify(z)
    if z3.is_string_value(z):
        return z.as_string()
    return SStr(z)
