"""Abstract model of the `re` module used by the docstring parsers.

A compiled pattern is an object carrying the *concrete* pattern text and flags of the real source.  Matching is abstract:
`match` / `search` / `fullmatch` fork into `None` and a match object; a group's value is a fresh string, or `None` as well when
the group does not lie on every path through the pattern (decided structurally on the parse tree of the real pattern by
Python's own `re._parser`: a group is *mandatory* iff it sits directly on the top-level sequence or inside mandatory groups,
never under an alternation, an optional/zero-min repeat or a conditional).  No other fact about the matched text is assumed,
except the listed `FACTS` (each a property of the regular expression itself, validated by the bounded native tier).
"""
from __future__ import annotations

import re as _re

import z3

from .values import *  # noqa: F403

try:  # Python 3.11+
    from re import _parser as _sre_parse, _constants as _sre_c
except ImportError:  # pragma: no cover
    import sre_parse as _sre_parse
    import sre_constants as _sre_c

FLAGS = {"IGNORECASE": _re.IGNORECASE, "I": _re.IGNORECASE, "VERBOSE": _re.VERBOSE, "X": _re.VERBOSE, "MULTILINE": _re.MULTILINE,
         "M": _re.MULTILINE, "DOTALL": _re.DOTALL, "S": _re.DOTALL, "ASCII": _re.ASCII, "A": _re.ASCII, "UNICODE": _re.UNICODE, "U": _re.UNICODE}


def group_info(pattern: str, flags: int):
    """-> (n_groups, {name: index}, set of mandatory group indices, nonempty group indices)"""
    comp = _re.compile(pattern, flags)
    tree = _sre_parse.parse(pattern, flags)
    mandatory, nonempty = set(), set()

    def minwidth(sub):
        try:
            return sub.getwidth()[0]
        except Exception:  # noqa: BLE001
            return 0

    def walk(seq, on_main):
        for op, av in seq:
            if op is _sre_c.SUBPATTERN:
                g, _add, _del, sub = av
                if g is not None and on_main:
                    mandatory.add(g)
                    if minwidth(sub) > 0:
                        nonempty.add(g)
                walk(sub, on_main)
            elif op in (_sre_c.MAX_REPEAT, _sre_c.MIN_REPEAT) or (hasattr(_sre_c, "POSSESSIVE_REPEAT") and op is _sre_c.POSSESSIVE_REPEAT):
                lo, _hi, sub = av
                # a group under a repeat with min >= 1 still takes part in the match; min 0 makes it optional
                walk(sub, on_main and lo >= 1)
            elif op is _sre_c.BRANCH:
                for sub in av[1]:
                    walk(sub, False)
            elif op is _sre_c.GROUPREF_EXISTS:
                _g, yes, no = av
                walk(yes, False)
                if no:
                    walk(no, False)
            elif op in (_sre_c.ASSERT, _sre_c.ASSERT_NOT):
                walk(av[1], on_main and op is _sre_c.ASSERT)
            elif hasattr(_sre_c, "ATOMIC_GROUP") and op is _sre_c.ATOMIC_GROUP:
                walk(av, on_main)
    walk(tree, True)
    return comp.groups, dict(comp.groupindex), mandatory, nonempty


def compile_(P, a, k):
    pat = a[0]
    flags = a[1] if len(a) > 1 else k.get("flags", 0)
    if not isinstance(pat, str) or not isinstance(flags, int):
        from .interp import Unsupported
        raise Unsupported("re.compile of a non-constant pattern")
    return SObj("re.Pattern", {"pattern": pat, "flags": int(flags)}, frozen=True)


def _match_obj(P, pobj, string, kind):
    pat, flags = pobj.fields["pattern"], pobj.fields["flags"]
    n, names, mandatory, nonempty = group_info(pat, flags)
    P.ghost.setdefault("regex_used", set()).add((pat, flags))
    groups = {}
    for g in range(1, n + 1):
        s = P.fresh_str(f"re_group{g}")
        if g in nonempty:
            P.assume(z3.Length(s.z) > 0)
        if g in mandatory:
            groups[g] = s
        else:
            b = z3.Bool(P._fresh_name(f"re_group{g}_absent"))
            groups[g] = SUnion([(b, None), (z3.Not(b), s)])
    whole = P.fresh_str("re_group0")
    P.assume(z3.Contains(zstr(string), whole.z))
    groups[0] = whole
    m = SObj("re.Match", {"groups_": groups, "names_": names, "string": string, "re": pobj}, frozen=True)
    for fact in P.ghost.get("regex_facts", {}).get((pat, kind), ()):
        fact(P, string, m)
    return m


def _pattern_method(name):
    def call(P, pobj, a, k):
        from .interp import Unsupported
        if name in ("match", "search", "fullmatch"):
            string = a[0]
            if isinstance(string, SUnion):
                string = P.choose(string)
            if not isinstance(string, (str, SStr)):
                from .models import _pyexc
                raise _pyexc(P, "TypeError", "expected string or bytes-like object")
            if P.branch(z3.Bool(P._fresh_name(f"re_{name}_matches"))):
                return _match_obj(P, pobj, string, name)
            for fact in P.ghost.get("regex_nomatch_facts", {}).get((pobj.fields["pattern"], name), ()):
                fact(P, string)
            return None
        if name == "sub":
            repl, string = a[0], a[1]
            if isinstance(string, SUnion):
                string = P.choose(string)
            if not isinstance(string, (str, SStr)):
                from .models import _pyexc
                raise _pyexc(P, "TypeError", "expected string or bytes-like object")
            from .models import ufn
            tag = "re_sub_" + "".join(ch if ch.isalnum() else "_" for ch in pobj.fields["pattern"])[:40]
            r = ufn(tag, StrS, StrS, StrS)(zstr(repl), zstr(string))
            if isinstance(repl, str) and repl == "":
                P.assume(z3.Length(r) <= z3.Length(zstr(string)))
            return SStr(r)
        raise Unsupported(f"re.Pattern.{name}")
    return call


def _group_key(P, m, key):
    from .models import _pyexc
    names = m.fields["names_"]
    if isinstance(key, str):
        if key not in names:
            raise _pyexc(P, "IndexError", "no such group")
        return names[key]
    if isinstance(key, int) and not isinstance(key, bool):
        if key not in m.fields["groups_"]:
            raise _pyexc(P, "IndexError", "no such group")
        return key
    from .interp import Unsupported
    raise Unsupported("symbolic group key")


def _match_method(name):
    def call(P, m, a, k):
        from .interp import Unsupported
        groups, names = m.fields["groups_"], m.fields["names_"]
        if name == "groupdict":
            return {nm: groups[i] for nm, i in names.items()}
        if name == "groups":
            return tuple(groups[i] for i in sorted(groups) if i > 0)
        if name == "group":
            if not a:
                return groups[0]
            if len(a) == 1:
                return groups[_group_key(P, m, a[0])]
            return tuple(groups[_group_key(P, m, x)] for x in a)
        if name in ("start", "end"):
            r = P.fresh_int(f"re_{name}")
            P.assume(z3.And(r.z >= -1, r.z <= z3.Length(zstr(m.fields["string"]))))
            return r
        raise Unsupported(f"re.Match.{name}")
    return call


def install(P):
    """Attribute hooks for pattern and match objects."""
    for nm in ("match", "search", "fullmatch", "sub"):
        P.attr_hooks[("re.Pattern", nm)] = (lambda P_, o, _nm=nm: BoundMethod(o, _pattern_method(_nm)))
    for nm in ("groupdict", "groups", "group", "start", "end"):
        P.attr_hooks[("re.Match", nm)] = (lambda P_, o, _nm=nm: BoundMethod(o, _match_method(_nm)))
    P.attr_hooks[("re.Match", "__getitem__")] = lambda P_, o, key: _match_method("group")(P_, o, [key], {})


def external(P, full):
    """Resolution of `re.<name>` for the executor; None when not modelled."""
    name = full.split(".", 1)[1]
    if name in FLAGS:
        return int(FLAGS[name])
    if name == "compile":
        install(P)
        return Builtin(full, compile_)
    if name in ("match", "search", "fullmatch", "sub"):
        install(P)

        def fn(P_, a, k, _n=name):
            pobj = compile_(P_, [a[0]] + ([k["flags"]] if "flags" in k else []), {})
            return _pattern_method(_n)(P_, pobj, list(a[1:]), k)
        return Builtin(full, fn)
    if name == "Pattern":
        return ClassRef("re.Pattern")
    return None
