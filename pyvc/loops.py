"""Loops over symbolic-length sequences, invariant loops, comprehensions."""
from __future__ import annotations

import ast

import z3

from .values import *  # noqa: F403
from .interp import (Frame, PyExc, ReturnSig, BreakSig, ContinueSig, PathEnd, Unsupported)


class Poison:
    """Value of a loop-body temporary after a summarised loop: any use is unsupported."""

    def __init__(self, name):
        self.name = name


class SFlat(Sym):
    """Flat-map summary of `for target in seq: body` whose iterations are independent.

    items_at(P, i) -> {'yield': [...], '<acc>': [...]} : what iteration i produces.
    """

    def __init__(self, st, seq, func, module, parent_env, snapshot, accs, is_gen):
        self.st, self.seq = st, seq
        self.func, self.module, self.parent_env = func, module, parent_env
        self.snapshot, self.accs, self.is_gen = snapshot, accs, is_gen
        self.cache = {}

    def items_at(self, P, i):
        key = i if isinstance(i, int) else zint(i).sexpr()
        if key in self.cache:
            return self.cache[key]
        fr = Frame(self.func, self.module, self.parent_env)
        fr.locals = dict(self.snapshot)
        for a in self.accs:
            fr.locals[a] = []
        if self.is_gen:
            fr.yields = []
        nwrites = len(P.ghost.get("writes", []))
        alloc_mark = P.counters.get("@alloc", 0)
        P.frames.append(fr)
        try:
            P.assign(self.st.target, P.seq_at(self.seq, i))
            try:
                P.exec_block(self.st.body)
            except ContinueSig:
                pass
            except BreakSig:
                raise Unsupported(f"break in summarised loop at line {self.st.lineno} (needs an invariant)")
            except ReturnSig:
                raise Unsupported(f"return in summarised loop at line {self.st.lineno} (needs an invariant)")
        finally:
            P.frames.pop()
        if len(P.ghost.get("writes", [])) != nwrites:
            # attribute writes on objects: allowed only on objects allocated inside the iteration
            for (o, name) in P.ghost["writes"][nwrites:]:
                if not (o.ident is not None and z3.is_int_value(o.ident) and o.ident.as_long() < -alloc_mark):
                    raise Unsupported(f"summarised loop at line {self.st.lineno} writes attribute {name} of an outer object")
        # carried state check
        tnames = _target_names(self.st.target)
        for n, v in fr.locals.items():
            if n in tnames or n in self.accs:
                continue
            if n in self.snapshot and self.snapshot[n] is not v:
                raise Unsupported(f"loop-carried variable {n} in loop at line {self.st.lineno} (needs an invariant)")
        out = {a: fr.locals[a] for a in self.accs}
        if self.is_gen:
            ys = []
            for y in fr.yields:
                if y[0] == "item":
                    ys.append(y[1])
                else:
                    s = y[1]
                    if not isinstance(s, (list, tuple)):
                        ys.append(("from", s))
                    else:
                        ys.extend(s)
            out["yield"] = ys
        self.cache[key] = out
        return out


class SCat(Sym):
    """Concatenation of parts: python lists, SSeq, (SFlat, channel).  List-like, appendable."""

    def __init__(self, parts):
        self.parts = list(parts)

    def append(self, x):
        if self.parts and isinstance(self.parts[-1], list):
            self.parts[-1].append(x)
        else:
            self.parts.append([x])


def _target_names(t):
    if isinstance(t, ast.Name):
        return {t.id}
    if isinstance(t, (ast.Tuple, ast.List)):
        s = set()
        for e in t.elts:
            s |= _target_names(e)
        return s
    if isinstance(t, ast.Starred):
        return _target_names(t.value)
    return set()


def _assigned_in(body):
    names = set()

    class V(ast.NodeVisitor):
        def visit_Name(s, n):
            if isinstance(n.ctx, (ast.Store, ast.Del)):
                names.add(n.id)

        def visit_FunctionDef(s, n):
            names.add(n.name)

        def visit_Lambda(s, n):
            pass

        def visit_ListComp(s, n):
            for g in n.generators:
                s.visit(g.iter)
        visit_SetComp = visit_GeneratorExp = visit_DictComp = visit_ListComp

        def visit_ExceptHandler(s, n):
            if n.name:
                names.add(n.name)
            s.generic_visit(n)

        def visit_Call(s, n):
            if isinstance(n.func, ast.Attribute) and isinstance(n.func.value, ast.Name) and n.func.attr in MUTATORS:
                names.add(n.func.value.id)
            s.generic_visit(n)

        def visit_Subscript(s, n):
            if isinstance(n.ctx, (ast.Store, ast.Del)) and isinstance(n.value, ast.Name):
                names.add(n.value.id)
            s.generic_visit(n)
    for st in body:
        V().visit(st)
    return names


MUTATORS = {"append", "insert", "pop", "extend", "remove", "clear", "add", "update", "sort", "reverse", "discard", "setdefault", "popitem", "appendleft", "popleft"}


def _acc_names(P, body, locals_):
    """Names X bound to python lists / SCat for which the body does X.append/extend or X += ."""
    accs = set()
    for node in ast.walk(ast.Module(body=body, type_ignores=[])):
        if isinstance(node, ast.Call) and isinstance(node.func, ast.Attribute) and node.func.attr in ("append", "extend") \
                and isinstance(node.func.value, ast.Name):
            n = node.func.value.id
            if isinstance(locals_.get(n), (list, SCat)):
                accs.add(n)
        if isinstance(node, ast.AugAssign) and isinstance(node.target, ast.Name) and isinstance(locals_.get(node.target.id), (list, SCat)):
            accs.add(node.target.id)
    return accs


def _has_yield(body):
    for node in ast.walk(ast.Module(body=body, type_ignores=[])):
        if isinstance(node, (ast.Yield, ast.YieldFrom)):
            return True
    return False


def exec_for(P, st, seq, spec):
    """`for` over a symbolic-length sequence (or with an explicit spec)."""
    if spec is not None and spec.get("mode") == "inv":
        return exec_for_inv(P, st, seq, spec)
    if spec is not None and spec.get("mode") == "bounded":
        items = P.concretize_len(seq, spec.get("bound", 4))
        broke = False
        for x in items:
            P.assign(st.target, x)
            try:
                P.exec_block(st.body)
            except BreakSig:
                broke = True
                break
            except ContinueSig:
                continue
        if not broke:
            P.exec_block(st.orelse)
        return
    if spec is not None and spec.get("mode") == "generic":
        return exec_for_generic(P, st, seq, spec)
    if st.orelse:
        raise Unsupported("for/else over symbolic sequence")
    fr = P.frame
    accs = _acc_names(P, st.body, fr.locals)
    is_gen = _has_yield(st.body) and fr.yields is not None
    flat = SFlat(st, seq, fr.func, fr.module, fr.parent_env, dict(fr.locals), sorted(accs), is_gen)
    for a in accs:
        cur = fr.locals[a]
        if isinstance(cur, SCat):
            cur.parts.append((flat, a))
        else:
            fr.locals[a] = SCat([cur, (flat, a)])
    if is_gen:
        fr.yields.append(("flat", flat))
    # temporaries assigned by the body are poisoned after the loop
    for n in _assigned_in(st.body) | _target_names(st.target):
        if n not in accs:
            fr.locals[n] = Poison(n)
    if not accs and not is_gen:
        # loop for effect only: must be checked per iteration by the contract; run one generic iteration now
        i = P.fresh_int("it")
        P.assume(z3.And(i.z >= 0, i.z < zint(P.seq_len(seq))))
        if P.feasible():
            flat.items_at(P, i.z)


def exec_for_generic(P, st, seq, spec):
    """Effectful loop whose iterations touch only the iterated element: observe one generic iteration.

    Either no iteration is observed (the loop is skipped) or exactly one Skolem iteration runs; its writes must
    go to the iterated element or to objects allocated inside the iteration, otherwise the loop needs an invariant.
    The contract reads P.ghost['generic_iteration'] = {'element', 'raised'}."""
    n = P.seq_len(seq)
    tag = spec.get("name", st.lineno)
    if spec.get("index") is not None:
        # the contract fixed the observed (Skolem) iteration; it must be in range of the iterated collection
        i = spec["index"]
        if not P.branch(z3.And(i >= 0, i < zint(n))):
            return
    else:
        if not P.branch(z3.Bool(P._fresh_name(f"observe_iteration@{tag}"))):
            return
        i = z3.Int(P._fresh_name(f"generic_i@{tag}"))
        P.assume(z3.And(i >= 0, i < zint(n)))
    elt = P.seq_at(seq, i)
    if isinstance(elt, SUnion):
        elt = P.choose(elt)
    info = {"element": elt, "raised": False, "index": i}
    P.ghost["generic_iteration"] = info
    nwrites = len(P.ghost.get("writes", []))
    alloc_mark = P.counters.get("@alloc", 0)
    P.assign(st.target, elt)
    try:
        try:
            P.exec_block(st.body)
        except ContinueSig:
            pass
        except BreakSig:
            pass
    except PyExc as pe:
        info["raised"] = True
        if not spec.get("may_abort"):
            # an exception escaping one iteration ends the loop: later elements would be skipped, so per-element effects cannot be claimed
            P.prove(f"loop@{tag}.an_iteration_never_aborts_the_loop", False, exc=P.resolve_cls(pe.obj))
        raise
    for (o, name) in P.ghost.get("writes", [])[nwrites:]:
        local = o.ident is not None and z3.is_int_value(o.ident) and o.ident.as_long() < -alloc_mark
        if o is not elt and not local and name not in spec.get("may_write", ()):
            raise Unsupported(f"generic loop at line {st.lineno} writes {name} of an object other than the iterated element")


def flat_to_seq(P, flat: SFlat, channel):
    """View a flat-map as a map (exactly one item per iteration), verified lazily per accessed index."""
    def at(i):
        n = flat.seq.len if isinstance(flat.seq, SSeq) else len(flat.seq)
        if not P.branch(z3.And(zint(i) >= 0, zint(i) < zint(n))):
            return Opaque("bottom")
        items = flat.items_at(P, i)[channel]
        if len(items) != 1 or (isinstance(items[0], tuple) and items[0] and items[0][0] == "from" and channel == "yield"):
            raise Unsupported(f"loop at line {flat.st.lineno} is not a one-to-one map on this path ({len(items)} items)")
        return items[0]
    return SSeq(flat.seq.len if isinstance(flat.seq, SSeq) else len(flat.seq), at, tag="mapflat")


def scat_to_seq(P, sc: SCat):
    out = []
    for p in sc.parts:
        if isinstance(p, tuple) and isinstance(p[0], SFlat):
            out = P.seq_concat(out, flat_to_seq(P, p[0], p[1]))
        else:
            out = P.seq_concat(out, p)
    return out


# --------------------------------------------------------------------------- invariant loops
def fresh_like(P, v, name, hint=None):
    if hint is not None:
        return hint(P, name)
    if isinstance(v, bool) or isinstance(v, SBool):
        return P.fresh_bool(name)
    if isinstance(v, (int, SInt)):
        return P.fresh_int(name)
    if isinstance(v, (str, SStr)):
        return P.fresh_str(name)
    if isinstance(v, (EnumVal, SEnum)):
        return P.fresh_enum(v.cls, name)
    if v is None:
        raise Unsupported(f"havoc of None-valued variable {name} needs a type hint")
    if isinstance(v, (list, SSeq)):
        elems = v if isinstance(v, list) else None
        n = P.fresh_int(name + "_len")
        P.assume(n.z >= 0)
        if elems is not None and elems and all(isinstance(x, (str, SStr)) for x in elems) or (elems is not None and not elems):
            f = P.fresh_fn(name + "_at", IntS, StrS)
            return SSeq(n, lambda i, f=f: SStr(f(zint(i))), tag=name)
        if isinstance(v, SSeq):
            sample = v.at(z3.Int("sample_idx"))
            if isinstance(sample, (str, SStr)):
                f = P.fresh_fn(name + "_at", IntS, StrS)
                return SSeq(n, lambda i, f=f: SStr(f(zint(i))), tag=name)
        raise Unsupported(f"havoc of list {name} needs a type hint")
    raise Unsupported(f"havoc of {type(v).__name__} variable {name} needs a type hint")


class LocalsView:
    def __init__(self, P, frame, old=None):
        self.P, self.frame, self.old = P, frame, old or {}

    def __getattr__(self, n):
        f, v = self.frame.lookup(n)
        if f is None:
            raise Unsupported(f"invariant refers to unbound local {n}")
        return v

    def __getitem__(self, n):
        return self.__getattr__(n)

    def has(self, n):
        f, _ = self.frame.lookup(n)
        return f is not None


def _loop_common(P, st, spec, cond_fn, body_prefix=None, label=None):
    fr = P.frame
    label = label or f"{fr.func.qualname if fr.func else '?'}.loop@{spec.get('name', st.lineno)}"
    inv, variant = spec.get("inv"), spec.get("variant")
    hints = spec.get("hints", {})
    pre = dict(fr.locals)
    view0 = LocalsView(P, fr, pre)
    if inv is not None:
        P.prove(f"{label}.inv.init", inv(P, view0, pre))
    # havoc
    assigned = _assigned_in(st.body) | (spec.get("havoc") and set(spec["havoc"]) or set())
    if isinstance(st, ast.For):
        assigned |= _target_names(st.target)
    mutated = set(spec.get("mutates", ()))
    default_hint = spec.get("default_hint")      # (P, symbol name, current value) -> fresh value | None: hints by the role of a value, robust to renamed locals
    for n in sorted(assigned | mutated):
        if n in fr.locals:
            h_ = hints.get(n)
            if h_ is None and default_hint is not None:
                cur_ = fr.locals[n]
                dv = default_hint(P, f"{n}@L{spec.get('name', st.lineno)}", cur_)
                if dv is not None:
                    fr.locals[n] = dv
                    continue
            fr.locals[n] = fresh_like(P, fr.locals[n], f"{n}@L{spec.get('name', st.lineno)}", h_)
        elif n in hints and spec.get("bind_unbound", {}).get(n):
            fr.locals[n] = hints[n](P, f"{n}@L{spec.get('name', st.lineno)}")
    # heap fields written by the loop body (declared by the contract) are havocked too
    for (obj_, field_, hint_) in spec.get("havoc_fields", ()):
        obj_.fields[field_] = hint_(P, f"{field_}@L{spec.get('name', st.lineno)}")
    view = LocalsView(P, fr, pre)
    if inv is not None:
        P.assume(zbool(inv(P, view, pre)))
    v0 = variant(P, view, pre) if variant is not None else None
    before = dict(fr.locals)
    nwrites0 = len(P.ghost.get("writes", []))
    alloc_mark0 = P.counters.get("@alloc", 0)
    declared = {(id(o_), f_) for (o_, f_, _h) in spec.get("havoc_fields", ())}
    if cond_fn(view):
        # one generic iteration
        exited = False
        try:
            if body_prefix:
                body_prefix(view)
            try:
                P.exec_block(st.body)
            except ContinueSig:
                pass
        except BreakSig:
            exited = True
        if exited:
            if spec.get("on_break"):
                spec["on_break"](P, LocalsView(P, fr, pre))
            if spec.get("no_break"):
                # the contract states that no iteration may cut the loop short (later elements would be skipped)
                P.prove(f"{label}.an_iteration_never_ends_the_loop_early", False)
            return  # continue after the loop with the state at `break`
        # a field of an object that existed before the loop may only be written if the contract havocs it at the loop head
        for (o_, name_) in P.ghost.get("writes", [])[nwrites0:]:
            local_ = o_.ident is not None and z3.is_int_value(o_.ident) and o_.ident.as_long() < -alloc_mark0
            if not local_ and (id(o_), name_) not in declared and name_ not in spec.get("may_write", ()):
                raise Unsupported(f"loop {label} writes field {name_} of an object that outlives the iteration; the contract must declare it (havoc_fields / may_write)")
        view2 = LocalsView(P, fr, pre)
        if spec.get("post_body"):
            try:
                spec["post_body"](P, before, view2)
            except KeyError as e:
                # a contract that names a local the (refactored) function no longer has cannot decide anything: undecided, not a crash of the checker
                raise Unsupported(f"the contract of loop {label} refers to the local {e}, which the function no longer has")
        if inv is not None:
            P.prove(f"{label}.inv.keep", inv(P, view2, pre))
        if variant is not None:
            v1 = variant(P, view2, pre)
            P.prove(f"{label}.variant", z3.And(zint(v0) >= 0, zint(v1) < zint(v0)))
        P.cover(f"{label}.body")
        raise PathEnd()
    else:
        P.exec_block(st.orelse)
        P.cover(f"{label}.exit")


def exec_while(P, st, spec):
    def cond(view):
        return P.is_true(P.eval(st.test))
    _loop_common(P, st, spec, cond)


def exec_for_inv(P, st, seq, spec):
    """for-loop with carried state: index variable ghost `__i` ranges over the sequence."""
    fr = P.frame
    n = P.seq_len(seq)
    idx_name = f"__i{spec.get('name', st.lineno)}"
    fr.locals[idx_name] = 0
    spec = dict(spec)
    spec["havoc"] = set(spec.get("havoc", ())) | {idx_name}
    user_inv = spec.get("inv")

    def inv(P_, L, pre):
        i = zint(L[idx_name])
        base = z3.And(i >= 0, i <= zint(n))
        if user_inv is None:
            return base
        return z3.And(base, zbool(user_inv(P_, L, pre)))
    spec["inv"] = inv
    if spec.get("variant") is None:
        spec["variant"] = lambda P_, L, pre: mk_int(zint(n) - zint(L[idx_name]))

    def cond(view):
        return P.branch(zint(view[idx_name]) < zint(n))

    def prefix(view):
        i = view[idx_name]
        P.assign(st.target, P.seq_at(seq, i))
        fr.locals[idx_name] = mk_int(zint(i) + 1)
    _loop_common(P, st, spec, cond, body_prefix=prefix)


# --------------------------------------------------------------------------- comprehensions
def _hoist_heap_reads(P, e, g, snapshot):
    """-> a copy of the comprehension node whose element expression reads captured values instead of heap locations, or None when nothing was hoisted."""
    import ast
    import copy
    targets = {n.id for n in ast.walk(g.target) if isinstance(n, ast.Name)}
    inner_bound = set()
    for part in ([e.key, e.value] if isinstance(e, ast.DictComp) else [e.elt]):
        for n in ast.walk(part):
            if isinstance(n, ast.Lambda):
                inner_bound |= {a.arg for a in n.args.args + n.args.kwonlyargs + n.args.posonlyargs}
            elif isinstance(n, (ast.ListComp, ast.SetComp, ast.DictComp, ast.GeneratorExp)):
                for g2 in n.generators:
                    inner_bound |= {x.id for x in ast.walk(g2.target) if isinstance(x, ast.Name)}
            elif isinstance(n, ast.NamedExpr):
                inner_bound.add(n.target.id)
    new = copy.deepcopy(e)
    count = [0]

    def root(n):
        while isinstance(n, ast.Attribute):
            n = n.value
        return n

    class Hoist(ast.NodeTransformer):
        def visit_Attribute(self, n):
            r = root(n)
            if isinstance(n.ctx, ast.Load) and isinstance(r, ast.Name) and r.id not in targets and r.id not in inner_bound:
                try:
                    v = P.eval(n)
                except Exception:  # noqa: BLE001  (raises, forks badly, unsupported: leave the read where it is)
                    return n
                from .values import BoundMethod
                if isinstance(v, BoundMethod) or callable(v):
                    return n        # methods are looked up when called
                name = f"__hoisted_read_{count[0]}"
                count[0] += 1
                # the value as it is NOW: a list that is mutated later (e.g. extended with this very comprehension) must not be seen in its later state
                if isinstance(v, MList):
                    v = MList(v.seq)
                elif isinstance(v, list):
                    v = list(v)
                snapshot[name] = v
                return ast.copy_location(ast.Name(id=name, ctx=ast.Load()), n)
            return self.generic_visit(n)

        def visit_Call(self, n):
            # the callee itself is not hoisted (a method call binds its receiver when called); its arguments are
            if isinstance(n.func, ast.Attribute):
                n.func.value = self.visit(n.func.value) if not isinstance(n.func.value, ast.Attribute) else Hoist.visit_Attribute(self, n.func.value)
            else:
                n.func = self.visit(n.func)
            n.args = [self.visit(a) for a in n.args]
            for k in n.keywords:
                k.value = self.visit(k.value)
            return n
    if isinstance(new, ast.DictComp):
        new.key, new.value = Hoist().visit(new.key), Hoist().visit(new.value)
    else:
        new.elt = Hoist().visit(new.elt)
    new.generators[-1].ifs = [Hoist().visit(c) for c in new.generators[-1].ifs]
    return new if count[0] else None


def comprehension(P, e, kind):
    from . import models
    gens = e.generators
    fr = P.frame
    cfr = Frame(fr.func, fr.module, fr)
    cfr.yields = None

    def elt_value():
        if kind == "dict":
            return (P.eval(e.key), P.eval(e.value))
        return P.eval(e.elt)

    def rec(gi):
        if gi == len(gens):
            return [elt_value()]
        g = gens[gi]
        it = P.eval(g.iter)
        if isinstance(it, SUnion):
            it = P.choose(it)
        if isinstance(it, SCat):
            it = scat_to_seq(P, it)
        seq = P.to_seq(it)
        if isinstance(seq, (list, tuple)):
            out = []
            for x in list(seq):
                P.assign(g.target, x)
                if all(P.is_true(P.eval(c)) for c in g.ifs):
                    r = rec(gi + 1)
                    if isinstance(out, list) and isinstance(r, list):
                        out.extend(r)
                    else:
                        out = P.seq_concat(out, r)
            return out
        # symbolic-length source
        if gi != len(gens) - 1:
            raise Unsupported("nested comprehension over symbolic sequence")
        snapshot = dict(cfr.locals)
        # The elements are built lazily (at the index they are asked for), but Python builds them all here and now: what the element expression reads
        # from the heap must be read now.  Attribute chains rooted at a name other than the loop target (`self.current`, `node.lineno`, ...) are
        # evaluated at this point and the element expression refers to the captured values.
        hoisted = _hoist_heap_reads(P, e, g, snapshot)
        if not g.ifs:
            def at(i, seq=seq):
                f2 = Frame(cfr.func, cfr.module, cfr.parent_env)
                f2.locals = dict(snapshot)
                P.frames.append(f2)
                try:
                    P.assign(g.target, P.seq_at(seq, i))
                    if hoisted is not None:
                        return (P.eval(hoisted.key), P.eval(hoisted.value)) if kind == "dict" else P.eval(hoisted.elt)
                    return elt_value()
                finally:
                    P.frames.pop()
            return SSeq(seq.len, at, tag="comp")
        # filtered: a subsequence; represented as SFilter
        def pred_elt(i, seq=seq):
            f2 = Frame(cfr.func, cfr.module, cfr.parent_env)
            f2.locals = dict(snapshot)
            P.frames.append(f2)
            try:
                P.assign(g.target, P.seq_at(seq, i))
                conds = [P.truth(P.eval(c)) for c in (hoisted.generators[-1].ifs if hoisted is not None else g.ifs)]
                keep = z3.And(*[zbool(c) for c in conds]) if conds else True
                if hoisted is not None:
                    return keep, ((P.eval(hoisted.key), P.eval(hoisted.value)) if kind == "dict" else P.eval(hoisted.elt))
                return keep, elt_value()
            finally:
                P.frames.pop()
        return SFilter(seq, pred_elt)

    P.frames.append(cfr)
    try:
        res = rec(0)
    finally:
        P.frames.pop()
    if kind in ("list", "gen"):
        return res
    if kind == "set":
        if isinstance(res, list):
            return models.make_set(P, res)
        return models.SetOfSeq(res)
    if kind == "dict":
        if isinstance(res, list):
            d = {}
            for k, v in res:
                models.setitem(P, d, k, v)
            return d
        if isinstance(res, SSeq):
            return DictOfSeq(res)
        raise Unsupported("filtered dict comprehension over symbolic sequence")
    raise Unsupported(kind)


class SFilter(Sym):
    """[elt(x) for x in seq if pred(x)] over a symbolic-length seq; pred_elt(i) -> (keep, value)."""

    def __init__(self, seq, pred_elt):
        self.seq, self.pred_elt = seq, pred_elt


def filter_to_seq(P, filt):
    """The list a filtered comprehension over a symbolic-length sequence builds: a sub-sequence of unknown length m.
    Exactness is kept quantifier-free where it matters: m <= n; m < n only with a witness index that is dropped; element j is the value at a kept index
    IDX(j) and IDX is strictly increasing on the indices that are looked at; m == n makes IDX the identity."""
    if getattr(filt, "_as_seq", None) is not None:
        return filt._as_seq
    n = zint(P.seq_len(filt.seq))
    tag = P._fresh_name("kept")
    m = z3.Int(tag + "_len")
    IDX = z3.Function(tag + "_index", z3.IntSort(), z3.IntSort())
    P.assume(z3.And(m >= 0, m <= n))
    w = z3.Int(tag + "_dropped_witness")
    # evaluate the predicate at the witness only on the branch where something is dropped
    seen = []

    def at(j):
        zj = zint(j)
        idx = IDX(zj)
        P.assume(z3.And(idx >= zj, idx < n, z3.Implies(m == n, idx == zj)))
        keep, val = filt.pred_elt(mk_int(idx))
        P.assume(zbool(keep))
        for zk, ik in seen:
            P.assume(z3.And(z3.Implies(zk < zj, ik < idx), z3.Implies(zj < zk, idx < ik), z3.Implies(zj == zk, idx == ik)))
        seen.append((zj, idx))
        return val
    if P.branch(m < n):
        P.assume(z3.And(w >= 0, w < n))
        keep_w, _ = filt.pred_elt(mk_int(w))
        P.assume(z3.Not(zbool(keep_w)))
    seq = SSeq(mk_int(m), at, tag="filtered")
    filt._as_seq = seq
    return seq


class DictOfSeq(Sym):
    """{k: v for ... in seq}: supports `in`, getitem via existential index."""

    def __init__(self, seq):
        self.seq = seq
