"""Models of Python builtins, str/list/dict/set methods and a few stdlib callables."""
from __future__ import annotations

import ast

import z3

from .values import *  # noqa: F403
from .values import DELETED

NOATTR = object()


def _unsup(msg):
    from .interp import Unsupported
    return Unsupported(msg)


def _pyexc(P, cls, *args):
    from .interp import PyExc
    return PyExc(P.mk_exc(cls, *args))


# --------------------------------------------------------------------------- strings
def str_concat(P, parts):
    if all(isinstance(p, str) for p in parts):
        return "".join(parts)
    zs = [zstr(p) for p in parts if not (isinstance(p, str) and p == "")]
    if not zs:
        return ""
    if len(zs) == 1:
        return mk_str(zs[0])
    return mk_str(z3.Concat(*zs))


_STRFN = {}


def ufn(name, *sorts):
    key = (name, tuple(str(s) for s in sorts))
    if key not in _STRFN:
        _STRFN[key] = z3.Function(name, *sorts)
    return _STRFN[key]


def to_str(P, x, conv=-1, spec=None):
    if spec is not None:
        # format specs: result is an uninterpreted function of the value text
        base = to_str(P, x, conv)
        return SStr(ufn("fmt_" + ast.unparse(spec).replace(" ", "_"), StrS, StrS)(zstr(base)))
    if isinstance(x, SUnion):
        x = P.choose(x)
    if conv == ord("r"):
        if isinstance(x, str):
            return repr(x)
        if isinstance(x, SStr):
            return SStr(ufn("repr_str", StrS, StrS)(x.z))
    if isinstance(x, (str, SStr)):
        return x
    if isinstance(x, bool) or x is None:
        return str(x)
    if isinstance(x, int):
        return str(x)
    if isinstance(x, SInt):
        return SStr(ufn("str_of_int", IntS, StrS)(x.z))
    if isinstance(x, EnumVal):
        if P.enum_is_str(x.cls) and P.find_class_member(x.cls, "__str__") is None:
            return f"{x.cls}.{x.name}"
        return f"{x.cls}.{x.name}"
    if isinstance(x, (list, tuple, dict, SSeq, SMap, set, frozenset)):
        return SStr(P.fresh_z("repr_of_container", StrS))
    if isinstance(x, SObj):
        cname = P.resolve_cls(x)
        m = P.find_method(cname, "__str__")
        if m is not None:
            return P.call_closure(m, [x], {})
        if P.is_exception_class(cname) or cname in __import__("pyvc.interp", fromlist=["EXC_BUILTINS"]).EXC_BUILTINS:
            return SStr(P.fresh_z("str_of_exception", StrS))
        h = P.attr_hooks.get((cname, "__str__"))
        if h:
            return h(P, x)
        raise _unsup(f"str() of {cname}")
    if isinstance(x, SAny):
        return SStr(P.fresh_z(f"str_of_any_{x.origin}".replace(".", "_").replace("[", "_").replace("]", "_").replace("(", "_").replace(")", "_"), StrS))
    if isinstance(x, Opaque) and x.z is not None and x.z.sort() == StrS:
        return SStr(x.z)
    if isinstance(x, Opaque):
        return SStr(ufn("str_of_" + "".join(ch if ch.isalnum() else "_" for ch in str(x.tag)), IntS, StrS)(z3.IntVal(0)))
    raise _unsup(f"str() of {type(x).__name__}")


def str_method(P, s, name, args, kwargs):
    def _conc(x):
        if isinstance(x, (list, tuple)):
            return all(_conc(y) for y in x)
        return x is None or isinstance(x, (str, int, bool))
    concrete = isinstance(s, str) and all(_conc(a) for a in args)
    if concrete:
        try:
            r = getattr(s, name)(*args, **kwargs)
        except ValueError as e:
            raise _pyexc(P, "ValueError", str(e))
        except IndexError as e:
            raise _pyexc(P, "IndexError", str(e))
        return r
    z = zstr(s)
    if name == "startswith":
        (p,) = args
        if isinstance(p, tuple):
            return mk_bool(z3.Or(*[z3.PrefixOf(zstr(q), z) for q in p]))
        return mk_bool(z3.PrefixOf(zstr(p), z))
    if name == "endswith":
        (p,) = args
        if isinstance(p, tuple):
            return mk_bool(z3.Or(*[z3.SuffixOf(zstr(q), z) for q in p]))
        return mk_bool(z3.SuffixOf(zstr(p), z))
    if name in ("strip", "lstrip", "rstrip", "lower", "upper", "title", "capitalize", "expandtabs", "casefold"):
        tag = name + "".join("_" + "".join(f"{ord(c):02x}" for c in a) for a in args if isinstance(a, str))
        f = ufn("str_" + tag, StrS, StrS)
        r = f(z)
        # basic facts: stripping never lengthens
        if name in ("strip", "lstrip", "rstrip"):
            P.assume(z3.Length(r) <= z3.Length(z))
            if args and isinstance(args[0], str) and len(args[0]) == 1:
                c = z3.StringVal(args[0])
                if name == "lstrip":
                    P.assume(z3.And(z3.SuffixOf(r, z), z3.Not(z3.PrefixOf(c, r)), z3.Implies(z3.Not(z3.PrefixOf(c, z)), r == z)))
                elif name == "rstrip":
                    P.assume(z3.And(z3.PrefixOf(r, z), z3.Not(z3.SuffixOf(c, r)), z3.Implies(z3.Not(z3.SuffixOf(c, z)), r == z)))
                else:
                    P.assume(z3.And(z3.Contains(z, r), z3.Not(z3.PrefixOf(c, r)), z3.Not(z3.SuffixOf(c, r)),
                                    z3.Implies(z3.And(z3.Not(z3.PrefixOf(c, z)), z3.Not(z3.SuffixOf(c, z))), r == z)))
        if name in ("lower", "upper", "casefold"):
            P.assume(z3.Length(r) == z3.Length(z))
        return SStr(r)
    if name == "removeprefix":
        (p,) = args
        zp = zstr(p)
        return mk_str(z3.If(z3.PrefixOf(zp, z), z3.SubString(z, z3.Length(zp), z3.Length(z) - z3.Length(zp)), z))
    if name == "removesuffix":
        (p,) = args
        zp = zstr(p)
        return mk_str(z3.If(z3.And(z3.SuffixOf(zp, z), z3.Length(zp) > 0), z3.SubString(z, 0, z3.Length(z) - z3.Length(zp)), z))
    if name in ("split", "rsplit"):
        sep = args[0] if args else kwargs.get("sep")
        maxsplit = args[1] if len(args) > 1 else kwargs.get("maxsplit", -1)
        if sep is None and isinstance(maxsplit, int) and name == "split":
            # whitespace split: leading / trailing whitespace is dropped, runs of whitespace separate.  Modelled through str.strip():
            #   no piece      <=> the stripped string is empty
            #   a single piece  when the stripped string holds no blank (a lone trailing or leading blank does NOT make a second piece)
            #   pieces are functions of the string, none is empty, none holds a blank (space / tab / newline)
            stripped = ufn("str_strip", StrS, StrS)(z)
            P.assume(z3.And(z3.Length(stripped) <= z3.Length(z), z3.Contains(z, stripped)))
            n = SInt(ufn("wsplit_n", StrS, IntS)(z))
            f0 = ufn("wsplit_at", StrS, IntS, StrS)
            blanks = [z3.StringVal(c) for c in (" ", "\t", "\n")]
            has_blank = z3.Or(*[z3.Contains(stripped, b) for b in blanks])
            P.assume(z3.And(n.z >= 0, (n.z == 0) == (z3.Length(stripped) == 0), z3.Implies(z3.And(z3.Length(stripped) > 0, z3.Not(has_blank)), z3.And(n.z == 1, f0(z, 0) == stripped)),
                            z3.Implies(has_blank, n.z >= 2)))
            if maxsplit >= 0:
                P.assume(n.z <= maxsplit + 1)

            def piece(i, f0=f0, z=z):
                t = f0(z, zint(i))
                # every piece but a last one cut short by maxsplit is blank-free and non-empty
                P.assume(z3.And(z3.Length(t) > 0, z3.Contains(z, t)))
                if maxsplit < 0 or not (isinstance(i, int) and i == maxsplit):
                    P.assume(z3.Implies(zint(i) < (maxsplit if maxsplit >= 0 else n.z), z3.And(*[z3.Not(z3.Contains(t, b)) for b in blanks])))
                return SStr(t)
            return SSeq(n, piece, tag="wsplit")
        if sep is None or not isinstance(sep, str) or not isinstance(maxsplit, int):
            raise _unsup("split with symbolic/whitespace separator")
        zsep = z3.StringVal(sep)
        if maxsplit == 1:
            if P.branch(z3.Contains(z, zsep)):
                # canonical: head and tail are functions of the string (two splits of equal strings agree; contracts can name them)
                tag = ("r" if name == "rsplit" else "") + "split1_" + "".join(f"{ord(c):02x}" for c in sep)
                a = SStr(ufn(tag + "_head", StrS, StrS)(z))
                b = SStr(ufn(tag + "_tail", StrS, StrS)(z))
                P.assume(z == z3.Concat(a.z, zsep, b.z))
                if name == "split":
                    P.assume(z3.Not(z3.Contains(a.z, zsep)))
                else:
                    P.assume(z3.Not(z3.Contains(b.z, zsep)))
                return [mk_str(a.z), mk_str(b.z)]
            return [s]
        # general split: a list of unknown length >= 1
        if not P.branch(z3.Contains(z, zsep)):
            if maxsplit < 0 and name == "split":
                tag = "".join(f"{ord(c):02x}" for c in sep)
                P.assume(z3.And(ufn("split_n_" + tag, StrS, IntS)(z) == 1, ufn("split_at_" + tag, StrS, IntS, StrS)(z, z3.IntVal(0)) == z))
            return [s]
        if maxsplit < 0 and name == "split":
            # canonical: the result is a function of the string (two calls on equal strings give equal lists)
            tag = "".join(f"{ord(c):02x}" for c in sep)
            n = SInt(ufn("split_n_" + tag, StrS, IntS)(z))
            f0 = ufn("split_at_" + tag, StrS, IntS, StrS)
            f = lambda i, f0=f0, z=z: f0(z, i)  # noqa: E731
        else:
            n = P.fresh_int("split_n")
            f = P.fresh_fn("split_part", IntS, StrS)
        P.assume(n.z >= 1)
        P.assume(z3.Implies(z3.Not(z3.Contains(z, zsep)), z3.And(n.z == 1, f(0) == z)))
        if maxsplit >= 0:
            P.assume(n.z <= maxsplit + 1)
        return SSeq(n, lambda i: SStr(f(zint(i))), tag="split")
    if name == "splitlines":
        n = P.fresh_int("nlines")
        P.assume(n.z >= 0)
        P.assume((n.z == 0) == (z3.Length(z) == 0))   # "".splitlines() == [] and only then
        f = P.fresh_fn("line", IntS, StrS)
        return SSeq(n, lambda i: SStr(f(zint(i))), tag="splitlines")
    if name == "join":
        (it,) = args
        seq = P.to_seq(it)
        if isinstance(seq, (list, tuple)):
            parts = []
            for i, x in enumerate(seq):
                if i:
                    parts.append(s)
                if isinstance(x, SUnion):
                    x = P.choose(x)
                if not isinstance(x, (str, SStr)):
                    raise _pyexc(P, "TypeError", "sequence item: expected str instance")
                parts.append(x)
            return str_concat(P, parts)
        return SStr(P.fresh_z("joined", StrS))
    if name == "format":
        return SStr(P.fresh_z("formatted", StrS))
    if name == "replace":
        a, b = args[0], args[1]
        if len(args) > 2:
            raise _unsup("replace with count")
        return SStr(ufn("str_replace", StrS, StrS, StrS, StrS)(z, zstr(a), zstr(b)))
    if name in ("isidentifier", "isspace", "isdigit", "isalpha", "isupper", "islower", "isalnum"):
        return mk_bool(ufn("str_" + name, StrS, BoolS)(z))
    if name in ("find", "index", "rfind", "rindex"):
        (p,) = args[:1]
        zp = zstr(p)
        if name in ("find", "index"):
            r = z3.IndexOf(z, zp, 0)
            if name == "index":
                if not P.branch(z3.Contains(z, zp)):
                    raise _pyexc(P, "ValueError", "substring not found")
            return mk_int(r)
        r = P.fresh_int("rfind")
        P.assume(z3.And(r.z >= -1, r.z <= z3.Length(z)))
        P.assume((r.z >= 0) == z3.Contains(z, zp))
        if name == "rindex" and not P.branch(z3.Contains(z, zp)):
            raise _pyexc(P, "ValueError", "substring not found")
        return r
    if name == "count":
        (p,) = args
        r = P.fresh_int("count")
        P.assume(r.z >= 0)
        P.assume((r.z > 0) == z3.Contains(z, zstr(p)))
        return r
    if name == "partition" or name == "rpartition":
        (sep,) = args
        zsep = zstr(sep)
        if P.branch(z3.Contains(z, zsep)):
            a = P.fresh_str("part_a")
            b = P.fresh_str("part_b")
            P.assume(z == z3.Concat(a.z, zsep, b.z))
            if name == "partition":
                P.assume(z3.Not(z3.Contains(a.z, zsep)))
            else:
                P.assume(z3.Not(z3.Contains(b.z, zsep)))
            return (mk_str(a.z), sep, mk_str(b.z))
        return (s, "", "") if name == "partition" else ("", "", s)
    if name == "encode":
        return Opaque("bytes")
    raise _unsup(f"str.{name}")


# --------------------------------------------------------------------------- operators
def binop(P, op, a, b):
    if isinstance(a, SUnion):
        a = P.choose(a)
    if isinstance(b, SUnion):
        b = P.choose(b)
    if not is_sym(a) and not is_sym(b) and not isinstance(a, (SObj, Opaque, SymSet)) and not isinstance(b, (SObj, Opaque, SymSet)):
        try:
            if isinstance(op, ast.Add):
                return a + b
            if isinstance(op, ast.Sub):
                return a - b
            if isinstance(op, ast.Mult):
                return a * b
            if isinstance(op, ast.FloorDiv):
                return a // b
            if isinstance(op, ast.Mod):
                return a % b
            if isinstance(op, ast.BitOr):
                return a | b
            if isinstance(op, ast.BitAnd):
                return a & b
        except TypeError as e:
            raise _pyexc(P, "TypeError", str(e))
        except ZeroDivisionError as e:
            raise _pyexc(P, "ZeroDivisionError", str(e))
    if any(isinstance(x, Opaque) and str(x.tag).startswith("lenient:") for x in (a, b)):
        return Opaque("lenient:binop")
    if isinstance(a, (bool, SBool)) and isinstance(b, (bool, SBool)) and isinstance(op, (ast.BitOr, ast.BitAnd, ast.BitXor)):
        za, zb = zbool(a), zbool(b)
        return mk_bool(z3.Or(za, zb) if isinstance(op, ast.BitOr) else z3.And(za, zb) if isinstance(op, ast.BitAnd) else z3.Xor(za, zb))
    num = lambda x: isinstance(x, (int, SInt, bool, SBool))
    if num(a) and num(b):
        za, zb = zint(a), zint(b)
        if isinstance(op, ast.Add):
            return mk_int(za + zb)
        if isinstance(op, ast.Sub):
            return mk_int(za - zb)
        if isinstance(op, ast.Mult):
            return mk_int(za * zb)
        if isinstance(op, ast.FloorDiv):
            if not P.branch(zb != 0):
                raise _pyexc(P, "ZeroDivisionError")
            if isinstance(b, int) and b > 0:
                return mk_int(za / zb)
            raise _unsup("floor division by symbolic/negative")
        if isinstance(op, ast.Mod):
            if isinstance(b, int) and b > 0:
                return mk_int(za % zb)
            raise _unsup("mod by symbolic")
    if isinstance(a, (str, SStr)) and isinstance(b, (str, SStr)) and isinstance(op, ast.Add):
        return str_concat(P, [a, b])
    if isinstance(a, (str, SStr)) and isinstance(op, ast.Mod):
        return SStr(P.fresh_z("pct_format", StrS))
    if isinstance(a, (str, SStr)) and isinstance(op, ast.Mult) and num(b):
        if isinstance(a, str) and len(a) == 1:
            r = P.fresh_str("repeat")
            P.assume(z3.Length(r.z) == z3.If(zint(b) > 0, zint(b), 0))
            return r
        raise _unsup("str * int")
    if isinstance(b, (str, SStr)) and isinstance(op, ast.Mult) and num(a):
        return binop(P, op, b, a)
    if isinstance(op, ast.Mult) and isinstance(a, (list, tuple)) and isinstance(b, SInt):
        if len(a) == 1:
            x = a[0]
            return SSeq(mk_int(z3.If(b.z > 0, b.z, 0)), lambda i, x=x: x, kind="tuple" if isinstance(a, tuple) else "list", tag="repeat")
        if len(a) == 0:
            return a
        raise _unsup("sequence repetition of multi-element list by symbolic count")
    if isinstance(op, ast.Add) and isinstance(a, (list, tuple, SSeq)) and isinstance(b, (list, tuple, SSeq)):
        r = P.seq_concat(a, b)
        if isinstance(a, tuple) and isinstance(r, list):
            return tuple(r)
        return r
    if isinstance(op, ast.BitOr) and isinstance(a, (set, frozenset, dict)) and isinstance(b, (set, frozenset, dict)):
        return a | b
    if isinstance(op, ast.BitOr) and (isinstance(a, SymSet) or isinstance(b, SymSet)):
        r = SymSet()
        for x in (a, b):
            if isinstance(x, SymSet):
                r.items.extend(x.items)
                r.parts.extend(x.parts)
            elif isinstance(x, (set, frozenset)):
                r.items.extend(sorted(x, key=repr))
            else:
                raise _unsup("set union with non-set")
        return r
    if isinstance(op, ast.Sub) and isinstance(a, SymSet) and isinstance(b, (SymSet, set, frozenset)):
        bitems = b.items if isinstance(b, SymSet) else list(b)
        if isinstance(b, SymSet) and b.parts:
            raise _unsup("set difference with symbolic part")
        if all(not is_sym(x) and not isinstance(x, SObj) for x in a.items + bitems) and not a.parts:
            return SymSet([x for x in a.items if x not in bitems])
        raise _unsup("set difference of symbolic sets")
    if isinstance(a, SObj) and isinstance(a.cls, str):
        hk = {ast.Div: "__truediv__", ast.Add: "__add__", ast.Sub: "__sub__"}.get(type(op))
        h = P.attr_hooks.get((a.cls, hk)) if hk else None
        if h:
            return h(P, a, b)
    if isinstance(a, SObj):
        nm = {ast.Add: "__add__", ast.Sub: "__sub__", ast.BitOr: "__or__", ast.BitAnd: "__and__", ast.Div: "__truediv__"}.get(type(op))
        if nm:
            m = P.find_method(P.resolve_cls(a), nm)
            if m is not None:
                return P.call_closure(m, [a, b], {})
    raise _unsup(f"binop {type(op).__name__} on {type(a).__name__},{type(b).__name__}")


def contains(P, container, item):
    """item in container -> bool | z3 Bool"""
    if isinstance(container, SUnion):
        container = P.choose(container)
    if isinstance(container, MList):
        container = container.seq
    if isinstance(container, (list, tuple, set, frozenset)):
        cs = [P.eq(item, x) for x in container]
        if all(isinstance(c, bool) for c in cs):
            return any(cs)
        return z3.Or(*[zbool(c) for c in cs])
    if isinstance(container, dict):
        cs = [P.eq(item, x.v if isinstance(x, _SymKey) else x) for x in container.keys()]
        if all(isinstance(c, bool) for c in cs):
            return any(cs)
        return z3.Or(*[zbool(c) for c in cs])
    if isinstance(container, SMap):
        return map_has(P, container, item)
    if isinstance(container, SAny):
        # membership test on a value of unknown type: a container by assumption (listed in the contract), either answer
        return z3.Bool(P._fresh_name(f"any_{container.origin}_contains"))
    if isinstance(container, (str, SStr)):
        if isinstance(item, SAny):
            raise _pyexc(P, "TypeError", "'in <string>' requires string as left operand")
        if isinstance(item, (str, SStr)):
            return z3.Contains(zstr(container), zstr(item))
        raise _pyexc(P, "TypeError", "'in <string>' requires string as left operand")
    if isinstance(container, SSeq):
        if container.memfn is not None:
            return container.memfn(P, item)
        n = container.len
        if isinstance(n, int):
            cs = [zbool(P.eq(item, container.at(i))) for i in range(n)]
            return z3.Or(*cs) if cs else False
        j = z3.Int(P._fresh_name("in_j"))
        body = P.eq(item, container.at(j))
        return z3.Exists([j], z3.And(j >= 0, j < zint(n), zbool(body)))
    if isinstance(container, SetOfSeq):
        return contains(P, container.seq, item)
    if isinstance(container, SymSet):
        cs = [P.eq(item, x) for x in container.items] + [contains(P, s_, item) for s_ in container.parts]
        if all(isinstance(c, bool) for c in cs):
            return any(cs)
        return z3.Or(*[zbool(c) for c in cs])
    if isinstance(container, SObj):
        cname = P.resolve_cls(container)
        h = None
        for c in P.class_mro(cname):
            h = P.attr_hooks.get((c, "__contains__"))
            if h:
                break
        if h:
            return h(P, container, item)
        m = P.find_method(cname, "__contains__")
        if m is not None:
            return P.truth(P.call_closure(m, [container, item], {}))
        raise _unsup(f"'in' on {cname}")
    if container is None:
        raise _pyexc(P, "TypeError", "argument of type 'NoneType' is not iterable")
    raise _unsup(f"'in' on {type(container).__name__}")


def compare(P, op, a, b):
    if isinstance(op, ast.Is):
        r = P.identical(a, b)
        return r if isinstance(r, bool) else mk_bool(r)
    if isinstance(op, ast.IsNot):
        r = P.identical(a, b)
        return (not r) if isinstance(r, bool) else mk_bool(z3.Not(r))
    if isinstance(op, ast.Eq):
        r = P.eq(a, b)
        return r if isinstance(r, bool) else mk_bool(r)
    if isinstance(op, ast.NotEq):
        r = P.eq(a, b)
        return (not r) if isinstance(r, bool) else mk_bool(z3.Not(zbool(r)))
    if isinstance(op, ast.In):
        r = contains(P, b, a)
        return r if isinstance(r, bool) else mk_bool(r)
    if isinstance(op, ast.NotIn):
        r = contains(P, b, a)
        return (not r) if isinstance(r, bool) else mk_bool(z3.Not(zbool(r)))
    if isinstance(a, SUnion):
        a = P.choose(a)
    if isinstance(b, SUnion):
        b = P.choose(b)
    if isinstance(a, (int, SInt)) and isinstance(b, (int, SInt)):
        if isinstance(a, int) and isinstance(b, int):
            return {ast.Lt: a < b, ast.LtE: a <= b, ast.Gt: a > b, ast.GtE: a >= b}[type(op)]
        za, zb = zint(a), zint(b)
        return mk_bool({ast.Lt: za < zb, ast.LtE: za <= zb, ast.Gt: za > zb, ast.GtE: za >= zb}[type(op)])
    if isinstance(a, str) and isinstance(b, str):
        return {ast.Lt: a < b, ast.LtE: a <= b, ast.Gt: a > b, ast.GtE: a >= b}[type(op)]
    if a is None or b is None:
        raise _pyexc(P, "TypeError", "ordering comparison with None")
    raise _unsup(f"compare {type(op).__name__} {type(a).__name__} {type(b).__name__}")


# --------------------------------------------------------------------------- maps
def map_has(P, m: SMap, k):
    zk = zstr(k)
    cur = None
    # later writes win: iterate from last to first
    expr = None
    base = m.has0(k)
    e = zbool(base) if not isinstance(base, bool) else z3.BoolVal(base)
    for wk, wv in m.writes:
        c = zstr(wk) == zk
        e = z3.If(c, z3.BoolVal(wv is not DELETED), e)
    return z3.simplify(e)


def map_get(P, m: SMap, k):
    """Value at key k assuming presence was established by the caller."""
    zk = zstr(k)
    alts = []
    rest = z3.BoolVal(True)
    for wk, wv in reversed(m.writes):
        c = z3.And(rest, zstr(wk) == zk)
        if wv is not DELETED:
            alts.append((z3.simplify(c), wv))
        rest = z3.And(rest, zstr(wk) != zk)
    rest = z3.simplify(rest)
    if not z3.is_false(rest):
        alts.append((rest, m.get0(k)))
    alts = [(g, v) for g, v in alts if not z3.is_false(g)]
    if len(alts) == 1:
        return alts[0][1]
    return P.merge_alts(alts)


def getitem(P, c, k):
    from .interp import PyExc
    if isinstance(c, SUnion):
        c = P.choose(c)
    if isinstance(c, MList):
        c = c.seq
    if isinstance(k, SUnion):
        k = P.choose(k)
    if isinstance(c, (list, tuple, SSeq)):
        if isinstance(k, slice):
            if k.step is not None:
                if isinstance(c, (list, tuple)) and all(not is_sym(x) for x in (k.start, k.stop, k.step)):
                    return c[k]
                raise _unsup("slice step")
            r = P.seq_slice(c, k.start, k.stop)
            return r
        if not isinstance(k, (int, SInt)) or isinstance(k, bool):
            raise _pyexc(P, "TypeError", "list indices must be integers")
        n = P.seq_len(c)
        if isinstance(k, int) and isinstance(n, int):
            if -n <= k < n:
                return c[k] if isinstance(c, (list, tuple)) else c.at(k % n if k < 0 else k)
            raise _pyexc(P, "IndexError", "index out of range")
        zk, zn = zint(k), zint(n)
        inb = z3.And(zk >= -zn, zk < zn)
        if not P.branch(inb):
            P.ex.stats.setdefault("index_errors", 0)
            raise _pyexc(P, "IndexError", "index out of range")
        if isinstance(k, int):
            idx = k if k >= 0 else mk_int(zn + k)
        else:
            if P.branch(zk >= 0):
                idx = k
            else:
                idx = mk_int(zn + zk)
        return P.seq_at(c, idx)
    if isinstance(c, dict):
        if not is_sym(k):
            try:
                if k in c:
                    return c[k]
            except TypeError:
                raise _pyexc(P, "TypeError", "unhashable")
            # symbolic keys stored in concrete dict? compare one by one
            for kk in c:
                if isinstance(kk, _SymKey):
                    if P.branch(P.eq(kk.v, k)):
                        return c[kk]
            raise _pyexc(P, "KeyError", k)
        for kk in c:
            if P.branch(P.eq(kk.v if isinstance(kk, _SymKey) else kk, k)):
                return c[kk]
        raise _pyexc(P, "KeyError", k)
    if isinstance(c, SMap):
        if not isinstance(k, (str, SStr)):
            raise _unsup("symbolic map with non-str key")
        if not P.branch(map_has(P, c, k)):
            raise _pyexc(P, "KeyError", k)
        return map_get(P, c, k)
    if isinstance(c, (str, SStr)):
        z = zstr(c)
        if isinstance(k, slice):
            if k.step is not None:
                raise _unsup("str slice step")
            ln = z3.Length(z)

            def norm(x, default):
                if x is None:
                    return default
                zx = zint(x)
                return z3.If(zx < 0, z3.If(zx + ln < 0, z3.IntVal(0), zx + ln), z3.If(zx > ln, ln, zx))
            lo, hi = norm(k.start, z3.IntVal(0)), norm(k.stop, ln)
            return mk_str(z3.SubString(z, lo, z3.If(hi > lo, hi - lo, 0)))
        zk = zint(k)
        ln = z3.Length(z)
        if not P.branch(z3.And(zk >= -ln, zk < ln)):
            raise _pyexc(P, "IndexError", "string index out of range")
        return mk_str(z3.SubString(z, z3.If(zk < 0, zk + ln, zk), 1))
    if isinstance(c, SObj):
        cname = P.resolve_cls(c)
        h = None
        for cc in P.class_mro(cname):
            h = P.attr_hooks.get((cc, "__getitem__"))
            if h:
                break
        if h:
            return h(P, c, k)
        m = P.find_method(cname, "__getitem__")
        if m is not None:
            return P.call_closure(m, [c, k], {})
        raise _pyexc(P, "TypeError", f"'{cname}' object is not subscriptable")
    if c is None:
        raise _pyexc(P, "TypeError", "'NoneType' object is not subscriptable")
    if isinstance(c, SAny):
        return any_getitem(P, c, k)
    if isinstance(c, ClassRef):
        return c  # typing generics: list[int] etc. (annotations only)
    raise _unsup(f"getitem on {type(c).__name__}")


def setitem(P, c, k, v):
    if isinstance(c, SUnion):
        c = P.choose(c)
    if isinstance(c, list):
        if isinstance(k, int):
            if -len(c) <= k < len(c):
                c[k] = v
                return
            raise _pyexc(P, "IndexError", "list assignment index out of range")
        raise _unsup("list store with symbolic index")
    if isinstance(c, dict):
        if isinstance(k, _SymKey):
            k = k.v
        if is_sym(k):
            for kk in list(c):
                if P.branch(P.eq(kk.v if isinstance(kk, _SymKey) else kk, k)):
                    c[kk] = v
                    return
            c[_SymKey(k)] = v
            return
        for kk in list(c):
            if isinstance(kk, _SymKey):
                if P.branch(P.eq(kk.v, k)):
                    c[kk] = v
                    return
        c[k] = v
        return
    if isinstance(c, SMap):
        c.writes.append((k, v))
        return
    if isinstance(c, SObj):
        cname = P.resolve_cls(c)
        h = None
        for cc in P.class_mro(cname):
            h = P.attr_hooks.get((cc, "__setitem__"))
            if h:
                break
        if h:
            return h(P, c, k, v)
        m = P.find_method(cname, "__setitem__")
        if m is not None:
            return P.call_closure(m, [c, k, v], {})
    raise _unsup(f"setitem on {type(c).__name__}")


class _SymKey:
    """A symbolic key stored in a concrete dict (kept distinct from concrete keys by path decisions)."""

    def __init__(self, v):
        self.v = v

    def __hash__(self):
        return id(self)

    def __eq__(self, o):
        return self is o


def delitem(P, c, k):
    if isinstance(c, SUnion):
        c = P.choose(c)
    if isinstance(c, dict):
        if not is_sym(k):
            if k in c:
                del c[k]
                return
            raise _pyexc(P, "KeyError", k)
        for kk in list(c):
            if P.branch(P.eq(kk.v if isinstance(kk, _SymKey) else kk, k)):
                del c[kk]
                return
        raise _pyexc(P, "KeyError", k)
    if isinstance(c, SMap):
        if not P.branch(map_has(P, c, k)):
            raise _pyexc(P, "KeyError", k)
        c.writes.append((k, DELETED))
        return
    if isinstance(c, list) and isinstance(k, int):
        if -len(c) <= k < len(c):
            del c[k]
            return
        raise _pyexc(P, "IndexError")
    if isinstance(c, SObj):
        cname = P.resolve_cls(c)
        for cc in P.class_mro(cname):
            h = P.attr_hooks.get((cc, "__delitem__"))
            if h:
                return h(P, c, k)
        m = P.find_method(cname, "__delitem__")
        if m is not None:
            return P.call_closure(m, [c, k], {})
    raise _unsup(f"delitem on {type(c).__name__}")


def make_set(P, items):
    return SymSet(list(items))


class SymSet:
    """A mutable set with possibly symbolic members, represented by its list of insertions (duplicates allowed).
    `parts` holds symbolic-length sequences merged into the set (membership only)."""

    def __init__(self, items=(), parts=()):
        self.items = list(items)
        self.parts = list(parts)

    def copy(self):
        return SymSet(self.items, self.parts)


# --------------------------------------------------------------------------- method calls on builtin-typed receivers
def call_method(P, recv, name, args, kwargs):
    from . import loops
    if isinstance(recv, loops.SCat):
        if name == "append":
            recv.append(args[0])
            return None
        if name == "extend":
            s = P.to_seq(args[0])
            if isinstance(s, (list, tuple)):
                for x in s:
                    recv.append(x)
            else:
                recv.parts.append(s)
            return None
        raise _unsup(f"SCat.{name}")
    if isinstance(recv, MList):
        if name == "append":
            recv.seq = P.seq_concat(recv.seq, [args[0]])
            return None
        if name == "extend":
            recv.seq = P.seq_concat(recv.seq, P.to_seq(args[0]))
            return None
        if name in ("index", "count", "copy"):
            return call_method(P, P.to_seq(recv), name, args, kwargs)
        raise _unsup(f"MList.{name}")
    if isinstance(recv, (str, SStr)):
        return str_method(P, recv, name, args, kwargs)
    if isinstance(recv, list):
        if name == "append":
            recv.append(args[0])
            return None
        if name == "extend":
            s = P.to_seq(args[0])
            if not isinstance(s, (list, tuple)):
                raise _unsup("list.extend with symbolic-length sequence")
            recv.extend(s)
            return None
        if name == "insert":
            i = args[0]
            if not isinstance(i, int):
                raise _unsup("insert at symbolic index")
            recv.insert(i, args[1])
            return None
        if name == "pop":
            if not recv:
                raise _pyexc(P, "IndexError", "pop from empty list")
            if args and not isinstance(args[0], int):
                raise _unsup("pop symbolic index")
            return recv.pop(*args)
        if name == "index":
            for i, x in enumerate(recv):
                if P.branch(P.eq(x, args[0])):
                    return i
            raise _pyexc(P, "ValueError", "not in list")
        if name == "copy":
            return list(recv)
        if name == "clear":
            recv.clear()
            return None
        if name == "reverse":
            recv.reverse()
            return None
        if name == "remove":
            for i, x in enumerate(recv):
                if P.branch(P.eq(x, args[0])):
                    del recv[i]
                    return None
            raise _pyexc(P, "ValueError", "x not in list")
        if name == "sort":
            if all(not is_sym(x) for x in recv) and not kwargs:
                recv.sort()
                return None
            raise _unsup("sort of symbolic list")
        if name == "count":
            cs = [zint(mk_bool(zbool(P.eq(x, args[0])))) for x in recv]
            return mk_int(z3.Sum(cs)) if cs else 0
    if isinstance(recv, tuple):
        if name == "index":
            for i, x in enumerate(recv):
                if P.branch(P.eq(x, args[0])):
                    return i
            raise _pyexc(P, "ValueError", "not in tuple")
    if isinstance(recv, SSeq):
        if name == "index":
            n = recv.len
            if isinstance(n, int):
                for i in range(n):
                    if P.branch(P.eq(recv.at(i), args[0])):
                        return i
                raise _pyexc(P, "ValueError", "not in list")
            from . import loops
            x = args[0]
            filt = loops.SFilter(recv, lambda i, recv=recv, x=x: (zbool(P.eq(recv.at(i), x)), mk_int(zint(i))))
            pres, idx = first_match(P, filt)
            if not P.branch(pres):
                raise _pyexc(P, "ValueError", "not in list")
            return SInt(idx)
        if name == "copy":
            return recv
        if name == "append":
            raise _unsup("append to symbolic-length list (rebinding not visible through aliasing)")
    if isinstance(recv, dict):
        if name == "get":
            k = args[0]
            d = args[1] if len(args) > 1 else kwargs.get("default")
            if not is_sym(k):
                try:
                    if k in recv:
                        return recv[k]
                except TypeError:
                    pass
                for kk in recv:
                    if isinstance(kk, _SymKey) and P.branch(P.eq(kk.v, k)):
                        return recv[kk]
                return d
            for kk in recv:
                kv = kk.v if isinstance(kk, _SymKey) else kk
                if P.branch(P.eq(kv, k)):
                    return recv[kk]
            return d
        if name == "items":
            return [(k.v if isinstance(k, _SymKey) else k, v) for k, v in recv.items()]
        if name == "keys":
            return [k.v if isinstance(k, _SymKey) else k for k in recv.keys()]
        if name == "values":
            return list(recv.values())
        if name == "pop":
            k = args[0]
            if not is_sym(k) and k in recv:
                return recv.pop(k)
            if is_sym(k):
                for kk in list(recv):
                    kv = kk.v if isinstance(kk, _SymKey) else kk
                    if P.branch(P.eq(kv, k)):
                        return recv.pop(kk)
            if len(args) > 1:
                return args[1]
            raise _pyexc(P, "KeyError", k)
        if name == "setdefault":
            k = args[0]
            if is_sym(k):
                raise _unsup("setdefault symbolic key")
            if k not in recv:
                recv[k] = args[1] if len(args) > 1 else None
            return recv[k]
        if name == "update":
            for a in args:
                if isinstance(a, dict):
                    for kk, vv in a.items():
                        setitem(P, recv, kk, vv)
                else:
                    raise _unsup("dict.update non-dict")
            recv.update(kwargs)
            return None
        if name == "copy":
            return dict(recv)
        if name == "clear":
            recv.clear()
            return None
    if isinstance(recv, SMap):
        if name == "get":
            k = args[0]
            d = args[1] if len(args) > 1 else None
            if P.branch(map_has(P, recv, k)):
                return map_get(P, recv, k)
            return d
        if name == "keys":
            if recv.keys_seq is not None and not recv.writes:
                return recv.keys_seq
        if name == "items":
            if recv.keys_seq is not None and not recv.writes:
                ks = recv.keys_seq
                return P.seq_map(ks, lambda k: (k, recv.get0(k)), tag="items")
        if name == "values":
            if recv.keys_seq is not None and not recv.writes:
                ks = recv.keys_seq
                return P.seq_map(ks, lambda k: recv.get0(k), tag="values")
        if name == "pop":
            k = args[0]
            if P.branch(map_has(P, recv, k)):
                v = map_get(P, recv, k)
                recv.writes.append((k, DELETED))
                return v
            if len(args) > 1:
                return args[1]
            raise _pyexc(P, "KeyError", k)
    if isinstance(recv, (set, frozenset)):
        if name == "add":
            x = args[0]
            if is_sym(x) or isinstance(x, SObj):
                raise _unsup("add symbolic item to concrete set (use SymSet)")
            recv.add(x)
            return None
        if name in ("union", "intersection", "difference", "issubset", "issuperset", "copy"):
            return getattr(recv, name)(*args)
        if name == "discard":
            recv.discard(args[0])
            return None
        if name == "update":
            for a in args:
                recv.update(a)
            return None
    if isinstance(recv, SymSet):
        if name == "add":
            recv.items.append(args[0])
            return None
        if name == "update":
            for a in args:
                if isinstance(a, SymSet):
                    recv.items.extend(a.items)
                    recv.parts.extend(a.parts)
                    continue
                s = P.to_seq(a)
                if not isinstance(s, (list, tuple)):
                    recv.parts.append(s)
                else:
                    recv.items.extend(s)
            return None
        if name == "copy":
            return recv.copy()
        if name in ("union",):
            r = recv.copy()
            call_method(P, r, "update", args, {})
            return r
        if name == "discard":
            raise _unsup("SymSet.discard")
    if isinstance(recv, Opaque):
        h = P.ex_opaque_method(recv, name) if hasattr(P, "ex_opaque_method") else None
        hook = P.opaque_hooks.get(f"opaque:{recv.tag}.{name}")
        if hook:
            return hook(P, [recv] + list(args), kwargs)
    raise _unsup(f"method {type(recv).__name__}.{name}")


ANY_BOOL_ATTRS = {"is_function", "is_attribute", "is_class", "is_module", "is_alias", "is_tuple", "is_iterator", "is_generator",
                  "is_classvar", "is_property"}


class AnyPolicy:
    """What reads on a value of unknown type may raise, and how the kind of the result is refined.  Contracts may install a
    subclass as P.ghost['any_policy'] (stated in their trusted base)."""

    def attr_excs(self, o, name):
        """Exception classes an attribute read may raise; () = the attribute always exists and reads never raise."""
        return ("AttributeError",)

    def item_excs(self, P, o, key):
        return ("KeyError", "TypeError") if isinstance(key, (str, SStr)) else ("IndexError", "KeyError", "TypeError")

    def child_kind(self, o, op, name):
        return None


def _any_policy(P):
    return P.ghost.get("any_policy") or AnyPolicy()


def any_getattr(P, o, name):
    """Attribute read on a value of unknown type: one of the policy's exceptions, or a value of unknown type (memoised per object/name)."""
    key = ("attr", name)
    if key in o.memo:
        r = o.memo[key]
        if isinstance(r, tuple) and r and r[0] is NOATTR:
            raise _pyexc(P, r[1], f"reading attribute '{name}'")
        return r
    pol = _any_policy(P)
    excs = pol.attr_excs(o, name)
    if excs:
        which = P.fresh_int(f"any_{o.origin}_read_{name}")
        P.assume(z3.And(which.z >= 0, which.z <= len(excs)))
        for i, exc in enumerate(excs):
            if P.branch(which.z == i):
                o.memo[key] = (NOATTR, exc)
                raise _pyexc(P, exc, f"reading attribute '{name}'")
    if name in ANY_BOOL_ATTRS:
        r = SBool(z3.Bool(P._fresh_name(f"any_{o.origin}_{name}")))
    else:
        r = SAny(f"{o.origin}.{name}", kind=pol.child_kind(o, "attr", name))
    o.memo[key] = r
    return r


def any_getitem(P, o, k):
    """Subscript of a value of unknown type: one of the policy's exceptions, or a value of unknown type."""
    pol = _any_policy(P)
    excs = pol.item_excs(P, o, k)
    which = P.fresh_int(f"any_{o.origin}_subscript")
    P.assume(z3.And(which.z >= 0, which.z <= len(excs)))
    for i, exc in enumerate(excs):
        cond = which.z == i
        if isinstance(exc, tuple):   # (exception, condition under which it can be raised)
            exc, extra = exc
            cond = z3.And(cond, extra)
        if P.branch(cond):
            raise _pyexc(P, exc, "subscript of a value of unknown type")
    return SAny(f"{o.origin}[]", kind=pol.child_kind(o, "item", k))


def any_call(P, o, args, kwargs):
    if P.branch(z3.Bool(P._fresh_name(f"any_{o.origin}_call_raises"))):
        from .interp import PyExc
        raise PyExc(SObj(SCls(["Exception", "TypeError", "ValueError", "KeyError", "AttributeError", "IndexError"], P.fresh_int("any_call_exc").z), {"args": ()}))
    return SAny(f"{o.origin}()")


def value_getattr(P, o, name):
    if isinstance(o, MList):
        if not hasattr(list, name):
            raise _pyexc(P, "AttributeError", f"'list' object has no attribute '{name}'")
        return BoundMethod(o, lambda P_, s, a, k, _n=name: call_method(P_, s, _n, a, k))
    if isinstance(o, SymSet) or isinstance(o, (set, frozenset, dict, list, tuple, str, SStr, SSeq, SMap)):
        pytype = (str if isinstance(o, (str, SStr)) else dict if isinstance(o, (dict, SMap)) else set if isinstance(o, (set, SymSet)) else
                  frozenset if isinstance(o, frozenset) else tuple if isinstance(o, tuple) or (isinstance(o, SSeq) and o.kind == "tuple") else list)
        if not hasattr(pytype, name):
            raise _pyexc(P, "AttributeError", f"'{pytype.__name__}' object has no attribute '{name}'")
        return BoundMethod(o, lambda P_, s, a, k, _n=name: call_method(P_, s, _n, a, k))
    if isinstance(o, Opaque):
        hook = P.opaque_hooks.get(f"opaque:{o.tag}.{name}")
        if hook:
            return BoundMethod(o, lambda P_, s, a, k: hook(P_, [s] + list(a), k))
        ah = P.opaque_hooks.get(f"opaqueattr:{o.tag}.{name}")
        if ah:
            return ah(P, o)
    return NOATTR


# --------------------------------------------------------------------------- builtins
def _b_len(P, a, k):
    (x,) = a
    if isinstance(x, SUnion):
        x = P.choose(x)
    if isinstance(x, MList):
        x = x.seq
    if isinstance(x, (list, tuple, dict, set, frozenset, str)):
        return len(x)
    if isinstance(x, SSeq):
        return x.len if isinstance(x.len, int) else SInt(zint(x.len))
    if isinstance(x, SStr):
        return SInt(z3.Length(x.z))
    if isinstance(x, SymSet):
        raise _unsup("len of SymSet")
    if isinstance(x, SObj):
        cname = P.resolve_cls(x)
        h = P.attr_hooks.get((cname, "__len__"))
        if h:
            return h(P, x)
        m = P.find_method(cname, "__len__")
        if m is not None:
            return P.call_closure(m, [x], {})
    if isinstance(x, SMap) and x.keys_seq is not None and not x.writes:
        return _b_len(P, [x.keys_seq], {})
    if x is None:
        raise _pyexc(P, "TypeError", "object of type 'NoneType' has no len()")
    raise _unsup(f"len of {type(x).__name__}")


def _b_isinstance(P, a, k):
    x, t = a
    if isinstance(x, SUnion):
        alts = [(g, _b_isinstance(P, [v, t], {})) for g, v in x.alts]
        return P.merge_alts(alts)
    ts = t if isinstance(t, tuple) else (t,)
    res = []
    for c in ts:
        if isinstance(c, Builtin) and c.name in TYPE_NAMES:
            res.append(_isinst1(P, x, c.name))
            continue
        if not isinstance(c, ClassRef):
            raise _unsup(f"isinstance against {c!r}")
        res.append(_isinst1(P, x, c.name.split(".")[-1] if c.name.startswith("typing.") else c.name))
    if all(isinstance(r, bool) for r in res):
        return any(res)
    return mk_bool(z3.Or(*[zbool(r) for r in res]))


def _isinst1(P, x, cname):
    if cname == "object":
        return True
    if x is Ellipsis:
        return cname == "ellipsis"
    if x is None:
        return cname in ("NoneType",)
    if isinstance(x, (bool, SBool)):
        return cname in ("bool", "int")
    if isinstance(x, (int, SInt)):
        return cname == "int"
    if isinstance(x, (str, SStr)):
        return cname == "str"
    if isinstance(x, (list, MList)) or (isinstance(x, SSeq) and x.kind == "list"):
        return cname in ("list", "Sequence", "Iterable")
    if isinstance(x, tuple) or (isinstance(x, SSeq) and x.kind == "tuple"):
        return cname in ("tuple", "Sequence", "Iterable")
    if isinstance(x, (dict, SMap)):
        return cname in ("dict", "Mapping")
    if isinstance(x, (set, SymSet)):
        return cname == "set"
    if isinstance(x, frozenset):
        return cname == "frozenset"
    if isinstance(x, (EnumVal, SEnum)):
        return x.cls == cname or (cname == "str" and P.enum_is_str(x.cls)) or cname == "Enum"
    if isinstance(x, SObj):
        if isinstance(x.cls, str):
            return P.is_subclass(x.cls, cname)
        sc = x.cls
        cs = [sc.z == i for i, c in enumerate(sc.cands) if P.is_subclass(c, cname)]
        if not cs:
            return False
        if len(cs) == len(sc.cands):
            return True
        return mk_bool(z3.Or(*cs))
    if isinstance(x, SAny):
        key = ("isinstance", cname)
        if key not in x.memo:
            x.memo[key] = mk_bool(z3.Bool(P._fresh_name(f"any_{x.origin}_is_{cname}")))
        return x.memo[key]
    if isinstance(x, Opaque):
        h = P.opaque_hooks.get(f"isinstance:{x.tag}")
        if h:
            return h(P, x, cname)
        raise _unsup(f"isinstance of opaque {x.tag}")
    if isinstance(x, (Closure, Builtin, BoundMethod, ClassRef)):
        return False
    raise _unsup(f"isinstance of {type(x).__name__}")


def _b_bool(P, a, k):
    if not a:
        return False
    t = P.truth(a[0])
    return t if isinstance(t, bool) else mk_bool(t)


def _b_any(P, a, k):
    (it,) = a
    seq = P.to_seq(it)
    if isinstance(seq, (list, tuple)):
        ts = [P.truth(x) for x in seq]
        if all(isinstance(t, bool) for t in ts):
            return any(ts)
        return mk_bool(z3.Or(*[zbool(t) for t in ts]))
    j = z3.Int(P._fresh_name("any_j"))
    return mk_bool(z3.Exists([j], z3.And(j >= 0, j < zint(seq.len), zbool(P.truth(seq.at(j))))))


def _b_all(P, a, k):
    (it,) = a
    seq = P.to_seq(it)
    if isinstance(seq, (list, tuple)):
        ts = [P.truth(x) for x in seq]
        if all(isinstance(t, bool) for t in ts):
            return all(ts)
        return mk_bool(z3.And(*[zbool(t) for t in ts]))
    j = z3.Int(P._fresh_name("all_j"))
    return mk_bool(z3.ForAll([j], z3.Implies(z3.And(j >= 0, j < zint(seq.len)), zbool(P.truth(seq.at(j))))))


def _b_reversed(P, a, k):
    return P.seq_reversed(a[0])


def _b_zip(P, a, k):
    return P.seq_zip(a)


def _b_zip_longest(P, a, k):
    return P.seq_zip_longest(a, k.get("fillvalue"))


def _b_enumerate(P, a, k):
    return P.seq_enumerate(a[0], a[1] if len(a) > 1 else k.get("start", 0))


def _b_list(P, a, k):
    if not a:
        return []
    s = P.to_seq(a[0])
    if isinstance(s, (list, tuple)):
        return list(s)
    return SSeq(s.len, s.at, kind="list", tag=s.tag)


def _b_tuple(P, a, k):
    if not a:
        return ()
    s = P.to_seq(a[0])
    if isinstance(s, (list, tuple)):
        return tuple(s)
    return SSeq(s.len, s.at, kind="tuple", tag=s.tag)


def _b_set(P, a, k):
    if not a:
        return SymSet()
    if isinstance(a[0], SymSet):
        return a[0].copy()
    s = P.to_seq(a[0])
    if isinstance(s, (list, tuple)):
        return make_set(P, s)
    return SymSet([], [s])


class SetOfSeq:
    """set(seq) for a symbolic-length sequence: supports `in` and nothing else."""

    def __init__(self, seq):
        self.seq = seq


def _b_frozenset(P, a, k):
    if not a:
        return frozenset()
    s = P.to_seq(a[0])
    if isinstance(s, (list, tuple)) and all(not is_sym(x) for x in s):
        return frozenset(s)
    raise _unsup("frozenset of symbolic")


def _b_dict(P, a, k):
    d = {}
    if a:
        src = a[0]
        if isinstance(src, dict):
            d.update(src)
        else:
            s = P.to_seq(src)
            if not isinstance(s, (list, tuple)):
                raise _unsup("dict() of symbolic-length sequence")
            for kv in s:
                kk, vv = kv
                d[kk] = vv
    d.update(k)
    return d


def _b_str(P, a, k):
    if not a:
        return ""
    return to_str(P, a[0])


def _b_repr(P, a, k):
    return to_str(P, a[0], conv=ord("r"))


def _b_int(P, a, k):
    (x,) = a
    if isinstance(x, (int, SInt)):
        return x
    if isinstance(x, str):
        try:
            return int(x)
        except ValueError:
            raise _pyexc(P, "ValueError", "invalid literal for int()")
    if isinstance(x, SStr):
        ok = ufn("str_is_intlit", StrS, BoolS)(x.z)
        if P.branch(ok):
            return SInt(ufn("str_to_int", StrS, IntS)(x.z))
        raise _pyexc(P, "ValueError", "invalid literal for int()")
    raise _unsup("int()")


def _b_getattr(P, a, k):
    from .interp import PyExc
    o, name = a[0], a[1]
    if not isinstance(name, str):
        raise _unsup("getattr with symbolic name")
    if len(a) > 2:
        try:
            return P.getattr(o, name)
        except PyExc as e:
            if P.exc_matches(e.obj, ClassRef("AttributeError")):
                return a[2]
            raise
    return P.getattr(o, name)


def _b_hasattr(P, a, k):
    from .interp import PyExc
    o, name = a
    try:
        P.getattr(o, name)
        return True
    except PyExc as e:
        if P.exc_matches(e.obj, ClassRef("AttributeError")):
            return False
        raise


def _b_setattr(P, a, k):
    o, name, v = a
    if not isinstance(name, str):
        raise _unsup("setattr with symbolic name")
    P.setattr(o, name, v)


def _b_sorted(P, a, k):
    s = P.to_seq(a[0])
    if isinstance(s, (list, tuple)) and all(not is_sym(x) and not isinstance(x, SObj) for x in s) and not k:
        return sorted(s)
    if isinstance(s, (list, tuple)) and len(s) <= 1:
        return list(s)
    raise _unsup("sorted of symbolic sequence")


def _b_min_max(which):
    def f(P, a, k):
        xs = a if len(a) > 1 else P.to_seq(a[0])
        if not isinstance(xs, (list, tuple)):
            raise _unsup(which + " of symbolic-length")
        if not xs:
            if "default" in k:
                return k["default"]
            raise _pyexc(P, "ValueError", which + "() arg is an empty sequence")
        if all(isinstance(x, int) for x in xs):
            return (min if which == "min" else max)(xs)
        z = zint(xs[0])
        for x in xs[1:]:
            zx = zint(x)
            z = z3.If(zx < z, zx, z) if which == "min" else z3.If(zx > z, zx, z)
        return mk_int(z)
    return f


def _b_range(P, a, k):
    if all(isinstance(x, int) for x in a):
        return list(range(*a))
    if len(a) == 1:
        n = zint(a[0])
        return SSeq(mk_int(z3.If(n > 0, n, 0)), lambda i: mk_int(zint(i)), tag="range")
    if len(a) == 2:
        lo, hi = zint(a[0]), zint(a[1])
        return SSeq(mk_int(z3.If(hi > lo, hi - lo, 0)), lambda i: mk_int(lo + zint(i)), tag="range")
    raise _unsup("range with step")


def _b_iter(P, a, k):
    from . import loops
    if isinstance(a[0], (loops.SFilter, Iter)):
        return a[0]
    return Iter(P.to_seq(a[0]))


class Iter:
    def __init__(self, seq):
        self.seq, self.pos = seq, 0


def first_match(P, filt):
    """First index of a filtered symbolic sequence satisfying the predicate -> (present Bool, idx Int).
    Memoised per path on the predicate text at a canonical index, so repeated look-ups agree."""
    seq = filt.seq
    q = z3.Int("q!first")
    keep_q, _ = filt.pred_elt(q)
    keep_q = zbool(keep_q)
    key = ("first", id(seq), keep_q.sexpr())
    memo = P.ghost.setdefault("finders", {})
    if key in memo:
        return memo[key]
    n = zint(seq.len)
    pres = z3.Bool(P._fresh_name("found"))
    idx = z3.Int(P._fresh_name("found_at"))
    keep_idx = z3.substitute(keep_q, (q, idx))
    P.assume(z3.Implies(pres, z3.And(idx >= 0, idx < n, keep_idx,
                                     z3.ForAll([q], z3.Implies(z3.And(q >= 0, q < idx), z3.Not(keep_q))))))
    P.assume(z3.Implies(z3.Not(pres), z3.ForAll([q], z3.Implies(z3.And(q >= 0, q < n), z3.Not(keep_q)))))
    memo[key] = (pres, idx)
    return memo[key]


def _b_next(P, a, k):
    from . import loops
    it = a[0]
    if isinstance(it, loops.SFilter):
        pres, idx = first_match(P, it)
        if P.branch(pres):
            return it.pred_elt(idx)[1]
        if len(a) > 1:
            return a[1]
        raise _pyexc(P, "StopIteration")
    if not isinstance(it, Iter):
        raise _unsup("next() of non-iterator")
    n = P.seq_len(it.seq)
    if isinstance(n, int):
        if it.pos < n:
            v = P.seq_at(it.seq, it.pos)
            it.pos += 1
            return v
    else:
        if P.branch(zint(n) > it.pos):
            v = P.seq_at(it.seq, it.pos)
            it.pos += 1
            return v
    if len(a) > 1:
        return a[1]
    raise _pyexc(P, "StopIteration")


def _b_type(P, a, k):
    (x,) = a
    if isinstance(x, SUnion):
        x = P.choose(x)
    if isinstance(x, SObj):
        return ClassRef(P.resolve_cls(x))
    if x is Ellipsis:
        return ClassRef("ellipsis")
    if x is None:
        return ClassRef("NoneType")
    if isinstance(x, (bool, SBool)):
        return ClassRef("bool")
    if isinstance(x, (int, SInt)):
        return ClassRef("int")
    if isinstance(x, (str, SStr)):
        return ClassRef("str")
    raise _unsup("type()")


def _b_id(P, a, k):
    (x,) = a
    if isinstance(x, SObj) and x.ident is not None:
        return SInt(x.ident) if x.ident.sort() == IntS else Opaque("id", x.ident)
    raise _unsup("id()")


def _b_callable(P, a, k):
    return isinstance(a[0], (Closure, Builtin, BoundMethod, ClassRef))


def _b_sum(P, a, k):
    s = P.to_seq(a[0])
    if isinstance(s, (list, tuple)):
        start = a[1] if len(a) > 1 else 0
        z = zint(start)
        for x in s:
            z = z + zint(x)
        return mk_int(z)
    raise _unsup("sum of symbolic-length")


def _b_print(P, a, k):
    return None


def _b_super(P, a, k):
    fr = P.frame
    if a:
        raise _unsup("super(args)")
    clo = fr.func
    if clo is None or clo.cls is None:
        raise _unsup("super() outside method")
    self_name = clo.node.args.args[0].arg
    return SuperProxy(fr.locals[self_name], clo.cls)


class SuperProxy:
    def __init__(self, obj, cls):
        self.obj, self.cls = obj, cls


def super_getattr(P, sp: "SuperProxy", name):
    ocls = P.resolve_cls(sp.obj) if isinstance(sp.obj, SObj) else sp.obj.name
    mro = P.class_mro(ocls)
    try:
        start = mro.index(sp.cls) + 1
    except ValueError:
        raise _unsup("super: class not in MRO")
    for c in mro[start:]:
        ci = P.index.class_info(c)
        if ci is None:
            continue
        mi, node = ci
        for st in node.body:
            if isinstance(st, ast.FunctionDef) and st.name == name:
                decos = [ast.unparse(d) for d in st.decorator_list]
                clo = Closure(st, mi, None, f"{c}.{name}", c)
                if "property" in decos or "cached_property" in decos:
                    return P.call_closure(clo, [sp.obj], {})
                return BoundMethod(sp.obj, clo)
    if name == "__init__":
        return Builtin("object.__init__", lambda P_, a, k: None)
    raise _unsup(f"super().{name}")


BUILTINS = {
    "len": _b_len, "isinstance": _b_isinstance, "bool": _b_bool, "any": _b_any, "all": _b_all,
    "reversed": _b_reversed, "zip": _b_zip, "enumerate": _b_enumerate, "list": _b_list, "tuple": _b_tuple,
    "set": _b_set, "frozenset": _b_frozenset, "dict": _b_dict, "str": _b_str, "repr": _b_repr, "int": _b_int,
    "getattr": _b_getattr, "hasattr": _b_hasattr, "setattr": _b_setattr, "sorted": _b_sorted,
    "min": _b_min_max("min"), "max": _b_min_max("max"), "range": _b_range, "iter": _b_iter, "next": _b_next,
    "type": _b_type, "id": _b_id, "callable": _b_callable, "sum": _b_sum, "print": _b_print, "super": _b_super,
}

TYPE_NAMES = {"str", "int", "bool", "list", "tuple", "dict", "set", "frozenset", "object", "float", "bytes", "type"}


def builtin(P, name):
    from .interp import EXC_BUILTINS
    hook = P.opaque_hooks.get("builtin:" + name)
    if hook is not None:
        return Builtin(name, hook)
    if name in BUILTINS:
        return Builtin(name, BUILTINS[name])
    if name in EXC_BUILTINS:
        return ClassRef(name)
    if name in ("True", "False", "None"):
        return {"True": True, "False": False, "None": None}[name]
    if name == "NotImplemented":
        return Opaque("NotImplemented")
    if name == "Ellipsis":
        return Ellipsis
    if name == "__name__":
        return P.frame.module.name
    return NOATTR


def _is_type_call(P, f):
    return isinstance(f, Builtin) and f.name in TYPE_NAMES


EXTERNAL = {}


def external(P, full):
    from .interp import EXC_BUILTINS
    hook = P.opaque_hooks.get(full)
    if hook is not None:
        return Builtin(full, hook)
    if full in ("itertools.zip_longest",):
        return Builtin(full, _b_zip_longest)
    if full in ("contextlib.suppress",):
        return ClassRef("contextlib.suppress")
    if full in ("contextlib.contextmanager", "functools.cache", "functools.cached_property", "functools.wraps"):
        return Builtin(full, lambda P_, a, k: a[0])
    if full == "itertools.chain":
        def chain(P_, a, k):
            out = []
            for s in a:
                out = P_.seq_concat(out, s)
            return out
        return Builtin(full, chain)
    if full in ("typing.TYPE_CHECKING",):
        return False
    if full in ("typing.cast",):
        return Builtin(full, lambda P_, a, k: a[1])
    if full == "collections.deque":
        return ClassRef("collections.deque")
    if full == "collections.defaultdict":
        return Builtin(full, lambda P_, a, k: {})      # default factory not modelled: missing keys raise KeyError (undecided if the code relies on it)
    if full.startswith("typing.") or full.startswith("collections.abc."):
        return ClassRef(full.split(".")[-1])
    if full == "warnings.warn":
        return Builtin(full, lambda P_, a, k: None)
    if full == "inspect.cleandoc":
        return Builtin(full, lambda P_, a, k: SStr(ufn("cleandoc", StrS, StrS)(zstr(a[0]))) if is_sym(a[0]) else __import__("inspect").cleandoc(a[0]))
    if full == "textwrap.dedent":
        return Builtin(full, lambda P_, a, k: SStr(ufn("dedent", StrS, StrS)(zstr(a[0]))) if is_sym(a[0]) else __import__("textwrap").dedent(a[0]))
    if full.startswith("re.") and full.count(".") == 1:
        from . import regex
        r = regex.external(P, full)
        if r is not None:
            return r
    if full in ("ast", "re", "sys", "os", "json", "subprocess", "itertools", "contextlib", "inspect", "warnings", "shutil", "tempfile",
                "os.path", "pathlib", "unicodedata", "importlib", "functools", "collections", "typing"):
        return ModuleRef(full)
    if full in ("sys.stderr", "sys.stdout", "sys.stdin"):
        return Opaque("lenient:" + full)
    if full in ("subprocess.DEVNULL", "subprocess.PIPE", "subprocess.STDOUT"):
        return Opaque("lenient:" + full)
    if full in ("pathlib.Path", "pathlib.PurePath"):
        return ClassRef("pathlib.Path")
    if full in ("datetime.datetime", "datetime.timezone", "datetime.timedelta"):
        return Opaque("lenient:" + full)
    if full.startswith("ast."):
        return ClassRef(full)
    if full.startswith("dataclasses."):
        return Builtin(full, lambda P_, a, k: a[0] if a else (lambda x: x))
    return NOATTR


def instantiate_builtin(P, c: ClassRef, args, kwargs):
    if c.name == "contextlib.suppress":
        return SObj("contextlib.suppress", {"excs": tuple(args)})
    if c.name in BUILTINS and c.name in TYPE_NAMES:
        return BUILTINS[c.name](P, list(args), kwargs)
    if c.name == "pathlib.Path":
        return Opaque("lenient:path")
    if c.name == "collections.deque":
        s = P.to_seq(args[0]) if args else []
        if not isinstance(s, (list, tuple)):
            raise _unsup("deque of symbolic-length")
        return list(s)
    return NOATTR


def run_context_manager(P, cm, body):
    """Run `with cm as v: body(v)`."""
    from .interp import PyExc, ReturnSig, BreakSig, ContinueSig, Closure
    if isinstance(cm, tuple) and cm and cm[0] == "gen_cm":
        _, f, args, kwargs = cm
        state = {"yielded": False}
        base = len(P.frames)

        def handler(val):
            if state["yielded"]:
                raise _pyexc(P, "RuntimeError", "generator didn't stop")
            state["yielded"] = True
            saved = P.frames[base:]
            del P.frames[base:]
            try:
                body(val)
            finally:
                del P.frames[base:]
                P.frames.extend(saved)
            return None
        P.call_closure(f, args, kwargs, yield_handler=handler)
        if not state["yielded"]:
            raise _pyexc(P, "RuntimeError", "generator didn't yield")
        return
    if isinstance(cm, SObj) and cm.cls == "contextlib.suppress":
        try:
            body(None)
        except PyExc as e:
            if P.exc_matches(e.obj, cm.fields["excs"]):
                return
            raise
        return
    if isinstance(cm, SObj):
        cname = P.resolve_cls(cm)
        enter = P.find_method(cname, "__enter__")
        exit_ = P.find_method(cname, "__exit__")
        if enter is not None and exit_ is not None:
            v = P.call_closure(enter, [cm], {})
            try:
                body(v)
            except PyExc as e:
                r = P.call_closure(exit_, [cm, ClassRef(P.resolve_cls(e.obj)), e.obj, None], {})
                if P.is_true(r):
                    return
                raise
            except (ReturnSig, BreakSig, ContinueSig):
                P.call_closure(exit_, [cm, None, None, None], {})
                raise
            P.call_closure(exit_, [cm, None, None, None], {})
            return
    hook = P.opaque_hooks.get("with:" + (cm.tag if isinstance(cm, Opaque) else (cm.cls if isinstance(cm, SObj) and isinstance(cm.cls, str) else "?")))
    if hook:
        return hook(P, cm, body)
    raise _unsup(f"context manager {cm!r}")
