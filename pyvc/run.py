"""Run the contracts of one property: explore, discharge, replay, write evidence."""
from __future__ import annotations

import hashlib
import importlib
import json
import multiprocessing as mp
import os
import subprocess
import sys
import tempfile
import time
import traceback
from pathlib import Path as FsPath

import z3

from .source import SourceIndex, func_hash, REPO_SRC
from .interp import Explorer, Path, Unsupported, PathEnd, PyExc
from .values import *  # noqa: F403
from . import api

VERIF = FsPath(__file__).resolve().parent.parent
# scratch runs against a seeded tree redirect their outputs (never the committed evidence)
OUTROOT = FsPath(os.environ["VERIF_OUT"]) if os.environ.get("VERIF_OUT") else VERIF
VENV_PY = "/venv/bin/python"


# --------------------------------------------------------------------------- model -> concrete
def concretise(model, v, depth=0, seqcap=12):
    if depth > 8:
        return "<deep>"
    if v is None or isinstance(v, (bool, int, str)):
        return v
    if isinstance(v, SInt):
        r = model.eval(v.z, model_completion=True)
        return r.as_long() if z3.is_int_value(r) else str(r)
    if isinstance(v, SBool):
        return z3.is_true(model.eval(v.z, model_completion=True))
    if isinstance(v, SStr):
        r = model.eval(v.z, model_completion=True)
        return _zstr_to_py(r)
    if isinstance(v, EnumVal):
        return {"__enum__": v.cls, "name": v.name}
    if isinstance(v, SEnum):
        r = model.eval(v.z, model_completion=True)
        return {"__enum__": v.cls, "index": r.as_long() if z3.is_int_value(r) else 0}
    if isinstance(v, SUnion):
        for g, x in v.alts:
            if z3.is_true(model.eval(g, model_completion=True)):
                return concretise(model, x, depth + 1, seqcap)
        return concretise(model, v.alts[-1][1], depth + 1, seqcap)
    if isinstance(v, SSeq):
        n = v.len if isinstance(v.len, int) else model.eval(zint(v.len), model_completion=True).as_long()
        out = []
        for i in range(min(n, seqcap)):
            try:
                out.append(concretise(model, v.at(i), depth + 1, seqcap))
            except Exception as e:  # noqa: BLE001
                out.append(f"<{type(e).__name__}>")
        if n > seqcap:
            out.append(f"<... {n - seqcap} more>")
        return out
    if isinstance(v, MList):
        return concretise(model, v.seq, depth, seqcap)
    if isinstance(v, (list, tuple)):
        return [concretise(model, x, depth + 1, seqcap) for x in v]
    if isinstance(v, dict):
        return {str(k): concretise(model, x, depth + 1, seqcap) for k, x in v.items()}
    if isinstance(v, SObj):
        d = {"__cls__": v.cls if isinstance(v.cls, str) else None}
        if not isinstance(v.cls, str):
            k = model.eval(v.cls.z, model_completion=True)
            k = k.as_long() if z3.is_int_value(k) else 0
            d["__cls__"] = v.cls.cands[k] if 0 <= k < len(v.cls.cands) else v.cls.cands[0]
        for f, x in v.fields.items():
            d[f] = concretise(model, x, depth + 1, seqcap)
        return d
    if z3.is_expr(v):
        r = model.eval(v, model_completion=True)
        if z3.is_int_value(r):
            return r.as_long()
        if z3.is_string_value(r):
            return _zstr_to_py(r)
        if z3.is_true(r) or z3.is_false(r):
            return z3.is_true(r)
        return str(r)
    if isinstance(v, Opaque):
        if v.z is not None:
            return {"__opaque__": str(v.tag), "id": str(model.eval(v.z, model_completion=True))}
        return {"__opaque__": str(v.tag)}
    return repr(v)


def _zstr_to_py(r):
    if not z3.is_string_value(r):
        return str(r)
    s = r.as_string()
    # z3 escapes non-printable as \u{..}
    import re
    return re.sub(r"\\u\{([0-9a-fA-F]+)\}", lambda m: chr(int(m.group(1), 16)), s)


# --------------------------------------------------------------------------- discharge
def _smt2(assumptions, goal):
    s = z3.Solver()
    for a in assumptions:
        s.add(a)
    s.add(z3.Not(goal))
    return s.to_smt2()


def _cli(cmd, text, timeout_s):
    with tempfile.NamedTemporaryFile("w", suffix=".smt2", delete=False) as f:
        f.write(text)
        fn = f.name
    try:
        r = subprocess.run(cmd + [fn], capture_output=True, text=True, timeout=timeout_s + 2)
        out = r.stdout.strip().splitlines()
        return out[0].strip() if out else "unknown"
    except subprocess.TimeoutExpired:
        return "unknown"
    finally:
        os.unlink(fn)


def string_lemmas(formulas):
    """Valid facts of the theory of strings that z3's sequence solver does not derive by itself (sound to add: each is a tautology):
    for constants c1 contained in c2:  contains(x, c2) -> contains(x, c1);  suffixof(c2, x) / prefixof(c2, x) -> contains(x, c2)."""
    atoms = {}
    consts = set()
    seen = set()
    stack = list(formulas)
    while stack:
        t = stack.pop()
        if t.get_id() in seen:
            continue
        seen.add(t.get_id())
        if z3.is_quantifier(t):
            stack.append(t.body())
            continue
        if not z3.is_app(t):
            continue
        k = t.decl().kind()
        if k in (z3.Z3_OP_SEQ_CONTAINS, z3.Z3_OP_SEQ_PREFIX, z3.Z3_OP_SEQ_SUFFIX):
            a, b = t.arg(0), t.arg(1)
            x, c = (a, b) if k == z3.Z3_OP_SEQ_CONTAINS else (b, a)
            if z3.is_string_value(c):
                atoms[(k, x.get_id(), c.as_string())] = (k, x, c)
                consts.add(c.as_string())
        if z3.is_string_value(t):
            consts.add(t.as_string())
        stack.extend(t.children())
    lemmas = []
    for (k, _, cs), (_, x, c) in atoms.items():
        if k != z3.Z3_OP_SEQ_CONTAINS:
            lemmas.append(z3.Implies(z3.SuffixOf(c, x) if k == z3.Z3_OP_SEQ_SUFFIX else z3.PrefixOf(c, x), z3.Contains(x, c)))
        for d in consts:
            if d and d != cs and d in cs:
                lemmas.append(z3.Implies(z3.Contains(x, c), z3.Contains(x, z3.StringVal(d))))
    return lemmas


LAST_UNKNOWN = []


def discharge(ob, timeout_ms, seed=0, fallbacks=True):
    """-> (status, solver, ms, model|None) ; status in discharged|sat|unknown"""
    t0 = time.time()
    del LAST_UNKNOWN[:]
    # valid facts of the theory of strings are added up front: with them the contradiction of an infeasible path is found by propagation, without
    # z3's sequence solver (whose running time on one and the same query varies by orders of magnitude) -- adding tautologies changes no verdict
    try:
        lem = string_lemmas(list(ob.assumptions) + [ob.goal])
    except Exception:  # noqa: BLE001
        lem = []
    label = "z3-5.1(api)+string-lemmas" if lem else "z3-5.1(api)"
    # a small portfolio over random seeds: the running time of z3's sequence solver on one query varies from milliseconds to minutes with the seed
    # (measured: 0.04 s with one seed, > 8 s with another), so an `unknown` of the first attempt is retried with other seeds before any fall-back
    # The lemmas speed up refutations of infeasible paths and slow down model finding: the attempts alternate.
    plan = [(seed, timeout_ms, False)] + ([(seed, timeout_ms, True)] if lem else [])
    if fallbacks:
        plan += [(7919, timeout_ms // 2, False), (104729, timeout_ms // 2, bool(lem)), (1299709, timeout_ms // 2, False)]
    for sd, tmo, with_lem in plan:
        label = "z3-5.1(api)+string-lemmas" if with_lem else "z3-5.1(api)"
        s = z3.Solver()
        s.set("timeout", max(500, tmo))
        if sd:
            s.set("random_seed", sd % (2 ** 31))
        for a in ob.assumptions:
            s.add(a)
        for l in (lem if with_lem else ()):
            s.add(l)
        s.add(z3.Not(ob.goal))
        t1 = time.time()
        try:
            r = s.check()
            why = s.reason_unknown() if r == z3.unknown else ""
        except z3.Z3Exception as e:
            r = z3.unknown
            why = f"Z3Exception: {e}"
        ms = int((time.time() - t0) * 1000)
        if r == z3.unsat:
            return "discharged", label, ms, None
        if r == z3.sat:
            return "sat", label, ms, s.model()
        LAST_UNKNOWN.append(f"seed={sd} timeout={tmo}ms lemmas={with_lem}: {why} after {time.time() - t1:.1f}s")
    if not fallbacks:
        return "unknown", "z3-5.1(api)", ms, None
    # fall back to CLIs
    text = _smt2(list(ob.assumptions) + list(lem), ob.goal)
    tsec = max(1, timeout_ms // 1000)
    r2 = _cli(["/usr/bin/cvc5", "--strings-exp", f"--tlimit={timeout_ms}"], text, tsec)
    ms = int((time.time() - t0) * 1000)
    if r2 == "unsat":
        return "discharged", "cvc5-1.0.3", ms, None
    r3 = _cli(["/usr/bin/z3", f"-T:{tsec}"], text, tsec)
    ms = int((time.time() - t0) * 1000)
    if r3 == "unsat":
        return "discharged", "z3-4.8.12(cli)", ms, None
    LAST_UNKNOWN.append(f"cvc5: {r2}; z3-4.8.12: {r3}")
    if r2 == "sat" or r3 == "sat":
        return "sat-nomodel", "cvc5" if r2 == "sat" else "z3-4.8.12", ms, None
    return "unknown", "all", ms, None


def minimise_model(ob, P, timeout_ms):
    """Try to find a model with small sequence lengths / ints."""
    lens = []

    def collect(v, d=0):
        if d > 4:
            return
        if isinstance(v, SSeq) and not isinstance(v.len, int):
            lens.append(zint(v.len))
        elif isinstance(v, (list, tuple)):
            for x in v:
                collect(x, d + 1)
        elif isinstance(v, dict):
            for x in v.values():
                collect(x, d + 1)
        elif isinstance(v, SObj):
            for x in v.fields.values():
                collect(x, d + 1)
        elif isinstance(v, SInt):
            lens.append(v.z)
        elif isinstance(v, SUnion):
            for _, x in v.alts:
                collect(x, d + 1)
    collect(P.witness)
    if not lens:
        return None
    for k in (1, 2, 3, 4, 6):
        s = z3.Solver()
        s.set("timeout", timeout_ms)
        for a in ob.assumptions:
            s.add(a)
        s.add(z3.Not(ob.goal))
        for l in lens:
            s.add(l <= k, l >= -k)
        if s.check() == z3.sat:
            return s.model()
    return None


# --------------------------------------------------------------------------- worker
def _run_contract(args):
    prop, cname, tier, seed, timeout_ms, shard = args
    t0 = time.time()
    res = {"contract": cname, "prop": prop, "obligations": [], "unsupported": [], "paths": 0, "error": None,
           "covers": {}, "functions": {}, "solver_ms": {}, "stats": {}}
    try:
        mod = importlib.import_module(f"contracts.{prop}")
        c = next(c for c in api.REGISTRY[prop] if c.name == cname)
        index = SourceIndex()
        index.load_all()
        for spec in c.functions:
            try:
                mi, node, cls = index.find_function(spec)
                res["functions"][spec] = func_hash(node)
            except KeyError as e:
                res["unsupported"].append(("anchor", str(e)))
        kw = {}
        if isinstance(shard, tuple) and shard and shard[0] == "split":
            kw = dict(split_until=shard[1])
        elif isinstance(shard, tuple) and shard and shard[0] == "sub":
            kw = dict(initial_work=shard[2], id_base=100000 * (shard[1] + 1), time_budget_s=25)
        else:
            kw = dict(shard=shard)
        ex = Explorer(index, max_paths=c.max_paths or (20000 if tier == "quick" else 100000), **kw)
        results = ex.run(c.driver)
        if kw.get("split_until") is not None or kw.get("time_budget_s") is not None:
            res["pending"] = [list(map(tuple, p)) for p in ex.work]
        res["paths"] = len(results)
        res["covers"] = dict(ex.covers)
        res["stats"] = dict(ex.stats)
        res["unsupported"].extend([(str(a), b) for a, b in ex.unsupported])
        nob = 0
        failing = {}
        extra_ms = [0]
        for P, status in results:
            for ob in P.obligations:
                nob += 1
                trouble = failing.get(ob.name, 0)
                st, solver, ms, model = discharge(ob, timeout_ms if trouble < 3 else min(timeout_ms, 2000), seed, fallbacks=trouble < 3)
                # second chances are bounded per task (a broken function can leave hundreds of hard queries): one minute of extra solver time in all
                if st == "unknown" and trouble >= 3 and extra_ms[0] < 60000:
                    # the short budget is for obligations that keep being refuted; an undecided one gets the full treatment after all
                    st, solver, ms2, model = discharge(ob, timeout_ms, seed, fallbacks=True)
                    ms += ms2
                    extra_ms[0] += ms2
                if st == "unknown" and extra_ms[0] < 60000:
                    # verdicts must not flip with machine load or solver luck: one more attempt with four times the budget and another seed
                    st_b, solver_b, ms_b, model_b = discharge(ob, timeout_ms * 4, seed + 7919, fallbacks=True)
                    ms += ms_b
                    extra_ms[0] += ms_b
                    if st_b != "unknown":
                        st, solver, model = st_b, solver_b + "(retry)", model_b
                if st == "unknown":
                    try:     # keep the query: an undecided obligation must be reproducible outside the run
                        d_ = OUTROOT / "out" / prop / "unknown"
                        d_.mkdir(parents=True, exist_ok=True)
                        (d_ / f"{cname}.{ob.name}.p{P.path_id}.smt2".replace("/", "_")).write_text(
                            "".join(f"; {w}\n" for w in LAST_UNKNOWN) + _smt2(ob.assumptions, ob.goal))
                    except Exception:  # noqa: BLE001
                        pass
                if st in ("sat", "sat-nomodel"):
                    # repeated refutations of one obligation (a broken function fails it on many paths) get a short budget; an `unknown` never does
                    failing[ob.name] = trouble + 1
                if st in ("unknown", "sat-nomodel") and trouble < 3:
                    # bounded counter-model search (small sequence lengths): a model found here is a genuine counterexample
                    try:
                        m3 = minimise_model(ob, P, min(timeout_ms, 4000))
                    except Exception:  # noqa: BLE001
                        m3 = None
                    if m3 is not None:
                        st, solver, model = "sat", "z3-5.1(api,bounded-lengths)", m3
                res["solver_ms"][solver] = res["solver_ms"].get(solver, 0) + ms
                rec = {"name": ob.name, "path": P.path_id, "status": st, "solver": solver, "ms": ms,
                       "n_assumptions": len(ob.assumptions), "meta": {k: str(v) for k, v in ob.meta.items()}}
                if st == "sat":
                    m2 = None
                    try:
                        m2 = minimise_model(ob, P, min(timeout_ms, 3000)) if trouble < 3 and "bounded-lengths" not in solver else None
                    except Exception:  # noqa: BLE001
                        m2 = None
                    use = m2 or model
                    try:
                        rec["witness"] = concretise(use, P.witness)
                        rec["expects"] = concretise(use, P.expects)
                    except Exception as e:  # noqa: BLE001
                        rec["witness"] = {"__error__": f"{type(e).__name__}: {e}"}
                    rec["goal"] = str(z3.simplify(ob.goal))[:2000]
                    # does the counter-model live in the arbitrary state assumed at a loop head (havoc symbols are named <var>@L<loop>)?
                    rec["havoc_dependent"] = any("@L" in a.sexpr() for a in ob.assumptions) or "@L" in ob.goal.sexpr()
                    rec["pc"] = [str(a)[:300] for a in ob.assumptions[-12:]]
                    rec["notes"] = list(P.notes)
                res["obligations"].append(rec)
    except Exception:  # noqa: BLE001
        res["error"] = traceback.format_exc()
    res["wall_s"] = round(time.time() - t0, 3)
    return res


def run_replay(prop, replay_name, witness, obligation, expects=None, timeout=120):
    """Run replay/<prop>.py:<replay_name> under the repo interpreter -> dict."""
    payload = json.dumps({"fn": replay_name, "witness": witness, "obligation": obligation, "expects": expects}, default=str)
    env = dict(os.environ)
    env["PYTHONPATH"] = str(REPO_SRC)
    env.pop("PYTHONHOME", None)
    try:
        r = subprocess.run([VENV_PY, str(VERIF / "replay" / "driver.py"), prop], input=payload, capture_output=True,
                           text=True, timeout=timeout, env=env, cwd=str(VERIF))
    except subprocess.TimeoutExpired:
        # a replay that does not finish reproduces nothing (replays of termination clauses carry their own alarms and report the loop themselves)
        return {"reproduced": False, "detail": f"replay did not finish within {timeout} s: no failing input found", "timeout": True}
    last = [l for l in r.stdout.strip().splitlines() if l.startswith("{")]
    if not last:
        return {"reproduced": False, "detail": "replay driver produced no result", "stdout": r.stdout[-2000:], "stderr": r.stderr[-2000:], "driver_error": True}
    try:
        return json.loads(last[-1])
    except json.JSONDecodeError:
        return {"reproduced": False, "detail": "bad replay output", "stdout": r.stdout[-2000:], "driver_error": True}


def load_known(prop):
    p = VERIF / "known_findings.json"
    if not p.exists():
        return []
    data = json.loads(p.read_text())
    out = [k for k in data.get("findings", []) if k.get("property") == prop and k.get("status") == "known"]
    for k in out:
        if k.get("signatures_list"):
            k["signatures"] = set(k["signatures_list"])
        if k.get("inputs_file"):
            f = VERIF / k["inputs_file"]
            k["signatures"] = set(f.read_text().splitlines()) if f.exists() else set()
    return out


def match_known(known, sig, root_causes=None, allow_class=False):
    for k in known:
        if sig is not None and (k.get("signature") == sig or sig in k.get("signatures", ())):
            return k
    if allow_class and root_causes:
        for k in known:
            if k.get("root_cause") in root_causes:
                return k
    return None


def run_property(prop, tier="quick", seed=0, only=None, extra=None):
    """Returns exit code. Writes evidence/<prop>.json."""
    t0 = time.time()
    os.environ["PYVC_TIER"] = tier
    sys.path.insert(0, str(VERIF))
    importlib.import_module(f"contracts.{prop}")
    contracts = [c for c in api.REGISTRY.get(prop, []) if only is None or c.name in only]
    timeout_ms = 8000 if tier == "quick" else 60000
    tasks = []
    for c in contracts:
        if c.tier not in ("P", "BS"):
            continue
        D = getattr(c, "shard_bits", 0)
        if getattr(c, "split", 0):
            # dynamic partition: a breadth-first pass produces >= 3*split pending decision prefixes, dealt round-robin to `split` sub-tasks
            tasks.append((prop, c.name, tier, seed, timeout_ms, ("split", 3 * c.split)))
            continue
        for k in range(2 ** D):
            tasks.append((prop, c.name, tier, seed, timeout_ms, (k, D)))
    nproc = 16 if any(t[5] and t[5][0] == "split" for t in tasks) else min(16, max(1, len(tasks)))
    results = []
    # the bounded native tier (a subprocess of the repository interpreter) runs alongside the deductive contracts
    import threading
    mod0 = sys.modules[f"contracts.{prop}"]
    bounded_box = {}

    def _run_bounded():
        try:
            bounded_box["result"] = list(mod0.bounded_checks(tier, seed))
        except Exception:  # noqa: BLE001
            bounded_box["error"] = traceback.format_exc()
    bounded_thread = None
    if hasattr(mod0, "bounded_checks") and only is None:
        bounded_thread = threading.Thread(target=_run_bounded, daemon=True)
        bounded_thread.start()
    if tasks:
        ctx = mp.get_context("fork")
        with ctx.Pool(nproc) as pool:
            asyncs = [(t, pool.apply_async(_run_contract, (t,))) for t in tasks]
            # split tasks first, so that their sub-tasks are queued early
            asyncs.sort(key=lambda ta: 0 if (ta[0][5] and ta[0][5][0] == "split") else 1)
            sub_seq = [0]
            pending_asyncs = [(t, a, time.time()) for t, a in asyncs]
            # results are collected as they become ready (sub-tasks of a split are queued the moment the split returns)
            while pending_asyncs:
                progressed = False
                for entry in list(pending_asyncs):
                    t, a, t_sub = entry
                    c = next(c for c in contracts if c.name == t[1])
                    lim = c.timeout_s or (600 if tier == "quick" else 3600)
                    if a.ready():
                        pending_asyncs.remove(entry)
                        progressed = True
                        r_ = a.get()
                        results.append(r_)
                        pend = r_.pop("pending", None)
                        if pend:
                            nsub = min(c.split, len(pend))
                            for k in range(nsub):
                                sub_seq[0] += 1
                                t2 = (t[0], t[1], t[2], t[3], t[4], ("sub", sub_seq[0], pend[k::nsub]))
                                pending_asyncs.append((t2, pool.apply_async(_run_contract, (t2,)), time.time()))
                    elif time.time() - t_sub > lim + 600:
                        # queued + running far beyond the contract's limit: report as undecided (the pool is torn down at the end)
                        pending_asyncs.remove(entry)
                        progressed = True
                        results.append({"contract": t[1], "prop": prop, "obligations": [], "unsupported": [("timeout", f"contract exceeded {lim}s")],
                                        "paths": 0, "error": None, "covers": {}, "functions": {}, "solver_ms": {}, "stats": {}, "wall_s": lim})
                if not progressed:
                    time.sleep(0.05)
            pool.terminate()
    outdir = OUTROOT / "out" / prop
    outdir.mkdir(parents=True, exist_ok=True)
    for old in outdir.glob("*.json"):
        old.unlink()
    known = load_known(prop)
    violations, undecided, errors, known_hits = [], [], [], []
    n_ob = n_dis = 0
    samples = []
    fn_hashes = {}
    solver_ms = {}
    by_name = {}
    bs_counts = {}
    lemma_viol = []
    floor_names, path_counts, had_error = {}, {}, {}
    for r in results:
        fn_hashes.update(r["functions"])
        for k, v in r["solver_ms"].items():
            solver_ms[k] = solver_ms.get(k, 0) + v
        if r["error"]:
            errors.append((r["contract"], r["error"]))
        for u in r["unsupported"]:
            undecided.append((r["contract"], f"{u[0]}: {u[1]}"))
        c = next(c for c in contracts if c.name == r["contract"])
        names = floor_names.setdefault(r["contract"], set())
        for ob in r["obligations"]:
            full = f"{prop}.{r['contract']}.{ob['name']}"
            names.add(ob["name"])
            if c.tier == "BS":
                # bounded-symbolic contracts: sizes bounded, contents symbolic -- reported separately, never counted as proved
                bs = bs_counts.setdefault(c.name, {"obligations": 0, "discharged": 0, "bound": c.note})
                bs["obligations"] += 1
                bs["discharged"] += ob["status"] == "discharged"
            else:
                n_ob += 1
                by_name.setdefault(full, []).append(ob["status"])
            if ob["status"] == "discharged":
                n_dis += c.tier != "BS"
                if len(samples) < 6 and (len(samples) < 2 or ob["name"] not in {s["obligation"].split(".")[-1] for s in samples}):
                    samples.append({"obligation": full, "path": ob["path"], "solver": ob["solver"], "ms": ob["ms"], "assumptions": ob["n_assumptions"]})
            elif ob["status"] == "sat":
                violations.append((c, r, ob, full))
            else:
                undecided.append((r["contract"], f"{ob['name']} path {ob['path']}: {ob['status']}"))
        path_counts[r["contract"]] = path_counts.get(r["contract"], 0) + r["paths"]
        had_error[r["contract"]] = had_error.get(r["contract"], False) or bool(r["error"])
    for c in contracts:
        if c.tier not in ("P", "BS") or had_error.get(c.name):
            continue
        names = floor_names.get(c.name, set())
        if len(names) < c.floor:
            undecided.append((c.name, f"only {len(names)} distinct obligations generated (< floor {c.floor}): vacuity guard"))
        if path_counts.get(c.name, 0) == 0:
            undecided.append((c.name, "zero paths explored"))
    # bounded / extra checks (tier B) supplied by the property module
    bounded = []
    bviol = []
    mod = sys.modules[f"contracts.{prop}"]
    if hasattr(mod, "bounded_checks"):
        if bounded_thread is not None:
            bounded_thread.join()
            if "error" in bounded_box:
                raise RuntimeError(bounded_box["error"])
            bcs = bounded_box.get("result", [])
        else:
            bcs = mod.bounded_checks(tier, seed)
        for bc in bcs:
            bounded.append({k: v for k, v in bc.items() if k != "violations"})
            for v in bc.get("violations", []):
                bviol.append((bc, v))
    # syntactic / structural lemmas supplied by the property module (decided over the whole source tree)
    lemma_recs = []
    if hasattr(mod, "lemmas"):
        for lm in mod.lemmas(tier, seed):
            n_ob += 1
            lemma_recs.append({k: v for k, v in lm.items()})
            full = f"{prop}.lemma.{lm['name']}"
            by_name.setdefault(full, []).append("discharged" if lm["ok"] else "failed")
            if lm["ok"]:
                n_dis += 1
            elif lm.get("on_fail") == "undecided":
                undecided.append(("lemma." + lm["name"], lm.get("detail", "")))
            else:
                rf = outdir / f"lemma.{lm['name']}.json"
                rf.write_text(json.dumps({"property": prop, "obligation": full, "lemma": lm}, indent=1, default=str))
                lemma_viol.append((full, rf))
    # classify violations: replay, known findings
    exit_code = 0
    known_obs = []
    deviations = []
    lines = []
    reported = set()
    per_ob = {}
    replay_cache = {}
    _rk = getattr(mod, "REPLAY_KEYED_BY_EXPECTS", False)

    def keyed(c):
        # True: every replay of the module ignores the abstract witness; a set: only the named replay functions do
        return _rk is True or (isinstance(_rk, (set, frozenset, tuple, list)) and c.replay in _rk)
    if _rk and violations:
        from concurrent.futures import ThreadPoolExecutor
        jobs = {}
        for c, r, ob, full in violations:
            if c.replay and keyed(c):
                ck = (c.replay, full, json.dumps(ob.get("expects"), sort_keys=True, default=str))
                jobs.setdefault(ck, (c, ob, full))
        with ThreadPoolExecutor(8) as tp:
            futs = {ck: tp.submit(run_replay, prop, c.replay, ob.get("witness"), full, ob.get("expects")) for ck, (c, ob, full) in jobs.items()}
            for ck, f in futs.items():
                replay_cache[ck] = f.result()
    for c, r, ob, full in violations:
        per_ob[full] = per_ob.get(full, 0) + 1
        if per_ob[full] > 8 and full in reported:
            continue
        rep = None
        if c.replay:
            if keyed(c):
                # the native search of this property depends on the obligation and the expected outcome only, not on the abstract witness
                ck = (c.replay, full, json.dumps(ob.get("expects"), sort_keys=True, default=str))
                if ck not in replay_cache:
                    replay_cache[ck] = run_replay(prop, c.replay, ob.get("witness"), full, ob.get("expects"))
                rep = replay_cache[ck]
            else:
                rep = run_replay(prop, c.replay, ob.get("witness"), full, ob.get("expects"))
        kf = None
        for k in known:
            # a deductive obligation can only fail on a finding that names it: findings of the bounded tiers never excuse a refuted obligation
            if not k.get("obligation"):
                continue
            if not full.endswith(k["obligation"]) and k["obligation"] not in full:
                continue
            if rep and rep.get("signature") and match_known([k], rep["signature"]):
                kf = k
                break
            if k.get("match_obligation_only") and (k["obligation"] in full):
                kf = k
                break
        rf = outdir / (full.replace(":", "_").replace("/", "_") + f".p{ob['path']}.json")
        rf.write_text(json.dumps({"property": prop, "obligation": full, "contract": c.name, "functions": c.functions,
                                  "solver": ob["solver"], "goal": ob.get("goal"), "path_condition_tail": ob.get("pc"),
                                  "witness": ob.get("witness"), "expects": ob.get("expects"), "replay": rep, "notes": ob.get("notes"), "meta": ob.get("meta")}, indent=1, default=str))
        if kf is not None:
            known_hits.append((kf, full))
            n_ob -= 1   # obligations failing exactly on a listed known finding are reported under known_findings, not as proof obligations
            known_obs.append(full)
            continue
        if rep and rep.get("driver_error"):
            errors.append((c.name, "replay driver error: " + json.dumps(rep)[:1500]))
            continue
        if full in reported:
            continue
        if ob.get("meta", {}).get("level") == "pinned" and not (rep and rep.get("reproduced")):
            # stronger-than-the-statement obligation deviates, but the statement holds on the counterexample: not a violation
            if full not in deviations:
                deviations.append(full)
                print(f"NOTE property={prop} pinned-behaviour obligation {full} no longer holds, but the property statement "
                      f"holds on the counterexample ({(rep or {}).get('detail', 'no replay')[:300]}); see {rf}")
            continue
        if rep is not None and not rep.get("reproduced") and not rep.get("spurious") and ob.get("havoc_dependent") and ".inv.init" not in full:
            # The counter-model starts from the arbitrary state a loop invariant admits and no real input reproduces it: the invariant supplied by the
            # contract is too weak for this (possibly refactored) loop -- a failed proof, not a violation.
            undecided.append((c.name, f"{ob['name']}: refuted only from abstract loop state, not reproducible on the real code ({(rep.get('detail') or '')[:120]})"))
            continue
        reported.add(full)
        if rep and rep.get("reproduced"):
            lines.append(f"VIOLATION property={prop} replay={rf} obligation={full}")
        elif rep is not None and rep.get("spurious"):
            # engine over-approximation admitted by the replay driver: undecided, never a violation
            undecided.append((c.name, f"{ob['name']}: counter-model does not correspond to a real input ({rep.get('detail')})"))
            continue
        else:
            lines.append(f"VIOLATION property={prop} replay={rf} obligation={full} no-failing-input-found")
        exit_code = 1
    for bc, v in bviol:
        sig = v.get("signature")
        # findings recorded against another check (or against a deductive obligation only) do not apply to this bounded tier
        applicable = [k for k in known if (k.get("check") is None and (not k.get("obligation") or k.get("signature") or k.get("signatures"))) or
                      (k.get("check") and (f"bounded.{bc['check']}" == k["check"] or f"bounded.{bc['check']}".startswith(k["check"] + ".")))]
        kf = match_known(applicable, sig, v.get("root_cause"), allow_class=bool(bc.get("class_match")))
        if kf is not None:
            known_hits.append((kf, bc["check"]))
            continue
        rf = outdir / (f"bounded.{bc['check']}.{hashlib.sha1(json.dumps(v, sort_keys=True, default=str).encode()).hexdigest()[:8]}.json")
        rf.write_text(json.dumps({"property": prop, "obligation": f"{prop}.bounded.{bc['check']}", "bounded": True, "input": v}, indent=1, default=str))
        key = f"{prop}.bounded.{bc['check']}"
        if key in reported:
            continue
        reported.add(key)
        lines.append(f"VIOLATION property={prop} replay={rf} obligation={key}")
        exit_code = 1
    for full, rf in lemma_viol:
        lines.append(f"VIOLATION property={prop} replay={rf} obligation={full} no-failing-input-found")
        exit_code = 1
    seen_k = set()
    for kf, full in known_hits:
        if kf["id"] in seen_k:
            continue
        seen_k.add(kf["id"])
        print(f"KNOWN-FINDING: property={prop} {kf['what']}")
    # known findings that no longer fail are fine (silently: maybe fixed) -- but recorded in evidence
    if errors:
        seen_e = set()
        for cn, e in errors:
            if (cn, e[:200]) in seen_e:
                continue
            seen_e.add((cn, e[:200]))
            print(f"CHECKER-ERROR contract={cn}\n{e[-3000:]}", file=sys.stderr)
        if exit_code == 0:
            exit_code = 3
    if undecided and exit_code == 0:
        exit_code = 2
    for cn, u in undecided[:40]:
        print(f"UNDECIDED property={prop} contract={cn} reason={u}")
    for l in lines:
        print(l)
    wall = round(time.time() - t0, 2)
    ev = {
        "property_id": prop, "tier": tier, "seed": seed, "level": "proof",
        "coverage": {
            "obligations": n_ob, "discharged": n_dis,
            "distinct_obligations": len(by_name),
            "checker_cmd": f"cd /verif && ./check {prop} {tier}",
            "trusted_base": getattr(mod, "TRUSTED_BASE", []) + COMMON_TRUSTED,
            "samples": samples,
            "functions_under_contract": fn_hashes,
            "contracts": [{"name": r["contract"], "paths": r["paths"], "obligations": len(r["obligations"]), "wall_s": r.get("wall_s"),
                           "covers": r["covers"]} for r in results],
            "paths": sum(r["paths"] for r in results),
            "solver_time_ms": solver_ms,
            "back_ends": sorted(solver_ms),
            "bounded": bounded + [{"check": "symbolic-contents/bounded-sizes contract " + k, "tool": "pyvc + z3 (sizes bounded, contents symbolic)",
                                   "bound": v["bound"], "cases": v["obligations"], "discharged": v["discharged"]} for k, v in bs_counts.items()],
            "lemmas": lemma_recs,
            "undecided": [f"{a}: {b}" for a, b in undecided][:50],
            "known_findings_hit": sorted(seen_k),
            "obligations_failing_on_known_findings": sorted(set(known_obs)),
            "pinned_deviations": deviations,
            "extraction_drops": "type annotations, docstrings, comments, logger.* calls (modelled as no-ops)",
        },
        "assumptions": getattr(mod, "ASSUMPTIONS", []),
        "wall_s": wall,
        "violations": sum(1 for l in lines if l.startswith("VIOLATION")),
    }
    # a run restricted with --only is a debugging aid: it must never replace the evidence of the full check
    evdir = OUTROOT / ("evidence" if not only else "out/partial-evidence")
    evdir.mkdir(parents=True, exist_ok=True)
    (evdir / f"{prop}.json").write_text(json.dumps(ev, indent=1, default=str))
    print(f"[{prop}] tier={tier} contracts={len(results)} paths={ev['coverage']['paths']} obligations={n_ob} discharged={n_dis} "
          f"undecided={len(undecided)} violations={ev['violations']} known={len(seen_k)} bounded={len(bounded)} wall={wall}s exit={exit_code}")
    return exit_code


COMMON_TRUSTED = [
    "pyvc symbolic executor (/verif/pyvc) implements CPython semantics for the subset it accepts; unsupported constructs are reported undecided, never havocked",
    "Python int treated as mathematical integer (exact)",
    "z3 5.1 / cvc5 1.0.3 / z3 4.8.12 soundness",
    "no threads, signals, RecursionError, MemoryError",
    "logger.* calls are effect-free and do not raise",
]
