"""Symbolic interpreter over the real source (path-forking by replay)."""
from __future__ import annotations

import ast
import builtins as _py_builtins
import itertools
import time

import z3

from .source import SourceIndex, ModuleInfo
from .values import *  # noqa: F403
from .values import DELETED


# --------------------------------------------------------------------------- signals
class PyExc(Exception):
    """An exception raised by the analysed program."""

    def __init__(self, obj):
        self.obj = obj
        super().__init__(repr(obj))


class ReturnSig(Exception):
    def __init__(self, value):
        self.value = value


class BreakSig(Exception):
    pass


class ContinueSig(Exception):
    pass


class PathEnd(Exception):
    """Silently end this path (infeasible, or cut after a loop-body check)."""


class Unsupported(Exception):
    """The engine cannot model a construct: the path is undecided (never a violation)."""


class Frame:
    def __init__(self, func: Closure | None, module: ModuleInfo | None, parent_env=None):
        self.func, self.module = func, module
        self.locals: dict = {}
        self.parent_env = parent_env
        self.yields = None  # list when generator
        self.yield_handler = None  # callable for contextmanager splice
        self.globals_decl = set()
        self.nonlocals = set()

    def lookup(self, name):
        f = self
        while f is not None:
            if name in f.locals:
                return f, f.locals[name]
            f = f.parent_env
        return None, None


class Obligation:
    __slots__ = ("name", "assumptions", "goal", "meta", "path_id")

    def __init__(self, name, assumptions, goal, meta, path_id):
        self.name, self.assumptions, self.goal, self.meta, self.path_id = name, assumptions, goal, meta, path_id


EXC_BUILTINS = {n: getattr(_py_builtins, n) for n in dir(_py_builtins)
                if isinstance(getattr(_py_builtins, n), type) and issubclass(getattr(_py_builtins, n), BaseException)}


class Path:
    """State of one explored path + the interpreter operating on it."""

    def __init__(self, explorer, prefix, path_id):
        self.ex = explorer
        self.index: SourceIndex = explorer.index
        self.prefix = list(prefix)
        self.decisions: list = []
        self.pc: list = []
        self.pc_consts: set = set()
        self.solver = z3.Solver()
        self.solver.set("timeout", explorer.feas_timeout_ms)
        self.path_id = path_id
        self.obligations: list[Obligation] = []
        self.counters: dict[str, int] = {}
        self.trace: list = []  # ghost event trace
        self.call_depth = 0
        self.gcache: dict = {}
        self.witness: dict = {}
        self.expects: dict = {}
        self.notes: list = []
        self.frames: list[Frame] = []
        self.opaque_hooks: dict = {}   # qualified name -> fn(P, args, kwargs)
        self.attr_hooks: dict = {}     # (clsname, attr) -> fn(P, obj)
        self.loop_specs: dict = {}     # (funcqual, ordinal) -> spec
        self.steps = 0
        self.nforks = 0
        self.ghost: dict = {}

    # ------------------------------------------------------------------ fresh symbols
    def _fresh_name(self, base):
        n = self.counters.get(base, 0)
        self.counters[base] = n + 1
        return base if n == 0 else f"{base}#{n}"

    def fresh_int(self, base="i"):
        return SInt(z3.Int(self._fresh_name(base)))

    def fresh_bool(self, base="b"):
        return SBool(z3.Bool(self._fresh_name(base)))

    def fresh_str(self, base="s"):
        return SStr(z3.String(self._fresh_name(base)))

    def fresh_z(self, base, sort):
        return z3.Const(self._fresh_name(base), sort)

    def fresh_fn(self, base, *sorts):
        return z3.Function(self._fresh_name(base), *sorts)

    def fresh_enum(self, cls, base="e"):
        n = len(self.enum_members(cls))
        z = z3.Int(self._fresh_name(base))
        self.assume(z3.And(z >= 0, z < n))
        return SEnum(cls, z)

    # ------------------------------------------------------------------ pc / branching
    def assume(self, cond):
        if isinstance(cond, (SBool, bool)):
            cond = zbool(cond)
        cond = z3.simplify(cond)
        if z3.is_true(cond):
            return
        if z3.is_false(cond):
            raise PathEnd()
        self.pc.append(cond)
        self._note_consts(cond)
        # quantified facts are kept for the obligations but not given to the (quantifier-free) feasibility solver:
        # dropping them only over-approximates the set of feasible paths
        if not _has_quantifier(cond):
            self.solver.add(cond)

    def _note_consts(self, term):
        """Record the uninterpreted constants occurring in the path condition (for the free-atom shortcut of `branch`)."""
        seen = self.pc_consts
        stack = [term]
        visited = set()
        while stack:
            t = stack.pop()
            tid = t.get_id()
            if tid in visited:
                continue
            visited.add(tid)
            if z3.is_quantifier(t):
                stack.append(t.body())
                continue
            if z3.is_app(t):
                if t.num_args() == 0:
                    if t.decl().kind() == z3.Z3_OP_UNINTERPRETED:
                        seen.add(t.decl().name())
                else:
                    stack.extend(t.children())

    def _free_atom(self, c):
        """c is a Boolean constant (or its negation) that does not occur in the path condition: both outcomes are feasible."""
        if z3.is_not(c):
            c = c.arg(0)
        return (z3.is_const(c) and c.decl().kind() == z3.Z3_OP_UNINTERPRETED and c.sort() == z3.BoolSort()
                and c.decl().name() not in self.pc_consts)

    def feasible(self, cond=None):
        r = self.solver.check() if cond is None else self.solver.check(cond)
        self.ex.stats["feas_checks"] += 1
        return r != z3.unsat

    def branch(self, cond) -> bool:
        """Decide a (possibly symbolic) condition on this path; forks the exploration."""
        if isinstance(cond, bool):
            return cond
        if isinstance(cond, SBool):
            cond = cond.z
        c = z3.simplify(cond)
        if z3.is_true(c):
            return True
        if z3.is_false(c):
            return False
        pos = len(self.decisions)
        wf = False
        if pos < len(self.prefix):
            d, wf = self.prefix[pos]
        else:
            if _has_quantifier(c) or self._free_atom(c):
                t_ok = f_ok = True
            else:
                t_ok = self.feasible(c)
                f_ok = self.feasible(z3.Not(c))
            if t_ok and f_ok:
                wf = True
                k, D = self.ex.shard
                if self.nforks < D:
                    d = not bool((k >> self.nforks) & 1)
                else:
                    self.ex.push(self.decisions + [(False, True)])
                    d = True
            elif t_ok:
                d = True
            elif f_ok:
                d = False
            else:
                raise PathEnd()
        if wf:
            self.nforks += 1
        self.decisions.append((d, wf))
        lit = c if d else z3.Not(c)
        self.pc.append(lit)
        self._note_consts(lit)
        if not _has_quantifier(lit):
            self.solver.add(lit)
        return d

    def choose(self, u):
        """Resolve a guarded union to one alternative on this path."""
        while isinstance(u, SUnion):
            picked = None
            for g, v in u.alts[:-1]:
                if self.branch(g):
                    picked = (v,)
                    break
            if picked is None:
                g, v = u.alts[-1]
                self.assume(g)
                picked = (v,)
            u = picked[0]
        return u

    def prove(self, name, cond, **meta):
        """Register an obligation: under the current path condition, cond holds."""
        if isinstance(cond, (SBool, bool)):
            cond = zbool(cond)
        self.obligations.append(Obligation(name, list(self.pc), cond, meta, self.path_id))

    def cover(self, name):
        """Reachability witness: record that this point was reached on a feasible path."""
        self.ex.covers.setdefault(name, 0)
        self.ex.covers[name] += 1

    # ------------------------------------------------------------------ truthiness / equality
    def truth(self, v):
        """bool or z3 Bool of Python truthiness (may fork for unions)."""
        if v is None:
            return False
        if isinstance(v, bool):
            return v
        if isinstance(v, (int, str, tuple, list, dict, set, frozenset)):
            return bool(v)
        if isinstance(v, SBool):
            return v.z
        if isinstance(v, SInt):
            return v.z != 0
        if isinstance(v, SStr):
            return z3.Length(v.z) > 0
        if isinstance(v, SSeq):
            return zint(v.len) > 0 if not isinstance(v.len, int) else v.len > 0
        if isinstance(v, MList):
            return self.truth(v.seq)
        from . import loops as _lp0
        if isinstance(v, _lp0.SCat):
            # a concatenation is non-empty iff some part is; a flat-map / filter part is non-empty only if its source is (how many items each
            # iteration contributes is not known here: a fresh Boolean bounded by the source's non-emptiness)
            conds = []
            for p_ in v.parts:
                if isinstance(p_, (list, tuple)) and not (isinstance(p_, tuple) and p_ and isinstance(p_[0], _lp0.SFlat)):
                    conds.append(z3.BoolVal(bool(p_)))
                elif isinstance(p_, SSeq):
                    conds.append(zbool(self.truth(p_)))
                else:
                    src = p_[0].seq if isinstance(p_, tuple) else getattr(p_, "seq", None)
                    b_ = z3.Bool(self._fresh_name("summary_nonempty"))
                    if src is not None:
                        self.assume(z3.Implies(b_, zbool(self.truth(self.to_seq(src)))))
                    conds.append(b_)
            return z3.Or(*conds) if conds else False
        if isinstance(v, SUnion):
            return z3.Or(*[z3.And(g, zbool(self.truth_nofork(x))) for g, x in v.alts])
        if isinstance(v, SObj):
            return self.obj_truth(v)
        if isinstance(v, SMap):
            if v.keys_seq is not None and not v.writes:
                return self.truth(v.keys_seq)
            raise Unsupported("truth of symbolic map")
        from . import models as _m
        if isinstance(v, _m.SymSet):
            if v.items:
                return True
            if not v.parts:
                return False
            return z3.Or(*[zint(self.seq_len(p)) > 0 for p in v.parts])
        if isinstance(v, (EnumVal, SEnum, Closure, ClassRef, Builtin, BoundMethod, ModuleRef)):
            return True
        if isinstance(v, SAny):
            if "truth" not in v.memo:
                v.memo["truth"] = z3.Bool(self._fresh_name(f"any_truth_{v.origin}"))
            return v.memo["truth"]
        if isinstance(v, Opaque):
            if str(v.tag).startswith("lenient:"):
                raise Unsupported(f"truth of opaque {v.tag}")
            return True   # opaque objects stand for instances of classes without __bool__/__len__
        raise Unsupported(f"truth of {type(v).__name__}")

    def truth_nofork(self, v):
        t = self.truth(v)
        return t

    def obj_truth(self, o: SObj):
        hook = self.attr_hooks.get((self.cls_name_static(o), "__bool__"))
        if hook:
            return zbool(hook(self, o)) if not isinstance(hook(self, o), bool) else hook(self, o)
        if isinstance(o.cls, str):
            m = self.find_method(o.cls, "__bool__")
            if m is not None:
                r = self.call_closure(m, [o], {})
                return self.truth(r)
            m = self.find_method(o.cls, "__len__")
            if m is not None:
                r = self.call_closure(m, [o], {})
                return self.truth(r)
        return True

    def cls_name_static(self, o):
        return o.cls if isinstance(o.cls, str) else None

    def is_true(self, v) -> bool:
        return self.branch(self.truth(v))

    def eq(self, a, b):
        """Python `==` -> bool | z3 Bool. May raise Unsupported."""
        if isinstance(a, SUnion) or isinstance(b, SUnion):
            if isinstance(a, SUnion):
                return z3.Or(*[z3.And(g, zbool(self.eq(x, b))) for g, x in a.alts])
            return z3.Or(*[z3.And(g, zbool(self.eq(a, x))) for g, x in b.alts])
        if not is_sym(a) and not is_sym(b) and not isinstance(a, (SObj, Opaque)) and not isinstance(b, (SObj, Opaque)):
            if isinstance(a, (list, tuple)) and isinstance(b, (list, tuple)):
                if type(a) is not type(b) or len(a) != len(b):
                    return False
                cs = [zbool(self.eq(x, y)) for x, y in zip(a, b)]
                return z3.simplify(z3.And(*cs)) if cs else True
            try:
                return a == b
            except Exception:
                raise Unsupported(f"eq of {a!r} {b!r}")
        if a is None or b is None:
            # symbolic non-union value vs None
            other = b if a is None else a
            if isinstance(other, (SInt, SBool, SStr, SSeq, SEnum, SObj, SMap)):
                return False
            return False
        if isinstance(a, (SInt, SBool)) or isinstance(b, (SInt, SBool)):
            if isinstance(a, (int, bool, SInt, SBool)) and isinstance(b, (int, bool, SInt, SBool)):
                return zint(a) == zint(b)
            return False
        if isinstance(a, SStr) or isinstance(b, SStr):
            if isinstance(a, (str, SStr)) and isinstance(b, (str, SStr)):
                return zstr(a) == zstr(b)
            return False
        if isinstance(a, (SEnum, EnumVal)) and isinstance(b, (SEnum, EnumVal)):
            if a.cls != b.cls:
                return False
            return self.enum_z(a) == self.enum_z(b)
        if isinstance(a, (SEnum, EnumVal)) or isinstance(b, (SEnum, EnumVal)):
            e, o = (a, b) if isinstance(a, (SEnum, EnumVal)) else (b, a)
            # str-valued enums compare equal to their value (class Kind(str, Enum))
            if isinstance(o, (str, SStr)) and self.enum_is_str(e.cls):
                return self.eq(self.enum_value(e), o)
            return False
        if isinstance(a, SObj) and isinstance(b, SObj):
            if isinstance(a.cls, str):
                m = self.find_method(a.cls, "__eq__")
                if m is not None:
                    r = self.call_closure(m, [a, b], {})
                    return self.truth(r)
            return self.identical(a, b)
        if isinstance(a, (SSeq, list, tuple)) and isinstance(b, (SSeq, list, tuple)):
            la, lb = self.seq_len(a), self.seq_len(b)
            if isinstance(la, int) and isinstance(lb, int):
                if la != lb:
                    return False
                cs = [zbool(self.eq(self.seq_at(a, i), self.seq_at(b, i))) for i in range(la)]
                return z3.And(*cs) if cs else True
            raise Unsupported("== on symbolic-length sequences (use seq_eq in contracts)")
        if isinstance(a, SAny) or isinstance(b, SAny):
            if a is b:
                return True
            o, other = (a, b) if isinstance(a, SAny) else (b, a)
            key = ("eq", id(other) if not isinstance(other, (str, int, bool, type(None))) else other)
            if key not in o.memo:
                o.memo[key] = z3.Bool(self._fresh_name(f"any_eq_{o.origin}"))
            return o.memo[key]
        if isinstance(a, Opaque) and isinstance(b, Opaque):
            if a is b:
                return True
            if a.z is not None and b.z is not None and a.z.sort() == b.z.sort():
                return a.z == b.z
            raise Unsupported("== on opaque values")
        if isinstance(a, Opaque) or isinstance(b, Opaque):
            o, other = (a, b) if isinstance(a, Opaque) else (b, a)
            if isinstance(other, (list, tuple, dict, str, int, bool, SStr, SInt, SBool)) and not str(o.tag).startswith("lenient:"):
                return False
            hook = self.ex.opaque_eq
            if hook:
                return hook(self, o, other)
            raise Unsupported(f"== on opaque {o.tag} vs {other!r}")
        return False

    def identical(self, a, b):
        """Python `is`."""
        if isinstance(a, SUnion) or isinstance(b, SUnion):
            if isinstance(a, SUnion):
                return z3.Or(*[z3.And(g, zbool(self.identical(x, b))) for g, x in a.alts])
            return z3.Or(*[z3.And(g, zbool(self.identical(a, x))) for g, x in b.alts])
        if isinstance(a, SAny) or isinstance(b, SAny):
            if a is b:
                return True
            o, other = (a, b) if isinstance(a, SAny) else (b, a)
            key = ("is", id(other) if not isinstance(other, (str, int, bool, type(None))) else other)
            if key not in o.memo:
                o.memo[key] = z3.Bool(self._fresh_name(f"any_is_{o.origin}"))
                if other is None:
                    # None is falsy
                    self.assume(z3.Implies(o.memo[key], z3.Not(zbool(self.truth(o)))))
            return o.memo[key]
        if a is None or b is None:
            return a is None and b is None
        if isinstance(a, (bool, SBool)) and isinstance(b, (bool, SBool)):
            return zbool(a) == zbool(b)
        if isinstance(a, (EnumVal, SEnum)) and isinstance(b, (EnumVal, SEnum)):
            return self.eq(a, b)
        if isinstance(a, SObj) and isinstance(b, SObj):
            if a is b:
                return True
            if a.ident is not None and b.ident is not None and a.ident.sort() == b.ident.sort():
                return a.ident == b.ident
            return False
        if isinstance(a, (int, str, SInt, SStr)) and isinstance(b, (int, str, SInt, SStr)):
            return self.eq(a, b)  # identity of ints/strs is not observable in the contracted code
        if isinstance(a, Opaque) and isinstance(b, Opaque):
            return self.eq(a, b)
        return a is b

    # ------------------------------------------------------------------ enums
    def enum_members(self, cls):
        key = ("enum", cls)
        if key in self.gcache:
            return self.gcache[key]
        ci = self.index.class_info(cls)
        if ci is None:
            raise Unsupported(f"unknown enum {cls}")
        mi, node = ci
        out = []
        for st in node.body:
            if isinstance(st, ast.Assign) and len(st.targets) == 1 and isinstance(st.targets[0], ast.Name):
                try:
                    val = ast.literal_eval(st.value)
                except Exception:
                    val = None
                out.append(EnumVal(cls, st.targets[0].id, val, len(out)))
            elif isinstance(st, ast.AnnAssign) and isinstance(st.target, ast.Name) and st.value is not None:
                try:
                    val = ast.literal_eval(st.value)
                except Exception:
                    val = None
                out.append(EnumVal(cls, st.target.id, val, len(out)))
        self.gcache[key] = out
        return out

    def is_enum_class(self, clsname):
        ci = self.index.class_info(clsname)
        if ci is None:
            return False
        for b in ci[1].bases:
            n = b.id if isinstance(b, ast.Name) else getattr(b, "attr", None)
            if n in ("Enum", "IntEnum", "StrEnum", "Flag"):
                return True
        return False

    def enum_is_str(self, clsname):
        ci = self.index.class_info(clsname)
        return ci is not None and any(isinstance(b, ast.Name) and b.id == "str" for b in ci[1].bases)

    def enum_z(self, e):
        return z3.IntVal(e.index) if isinstance(e, EnumVal) else e.z

    def enum_value(self, e):
        if isinstance(e, EnumVal):
            return e.value
        ms = self.enum_members(e.cls)
        if all(isinstance(m.value, str) for m in ms):
            z = z3.StringVal(ms[-1].value)
            for m in reversed(ms[:-1]):
                z = z3.If(e.z == m.index, z3.StringVal(m.value), z)
            return SStr(z)
        raise Unsupported("enum value")

    # ------------------------------------------------------------------ sequences
    def seq_len(self, s):
        if isinstance(s, (list, tuple, str)):
            return len(s)
        if isinstance(s, SSeq):
            return s.len
        raise Unsupported(f"len of {type(s).__name__}")

    def seq_at(self, s, i):
        if isinstance(s, (list, tuple)):
            if isinstance(i, int):
                return s[i]
            # symbolic index into concrete list -> union
            i = zint(i)
            if len(s) == 0:
                return Opaque("bottom")
            alts = [(i == k, s[k]) for k in range(len(s))]
            return self.merge_alts(alts)
        if isinstance(s, SSeq):
            return s.at(i if isinstance(i, int) else zint(i))
        raise Unsupported("seq_at")

    def merge_alts(self, alts):
        """Merge guarded alternatives into one value when types allow, else SUnion."""
        vals = [v for _, v in alts]
        if len(alts) == 1:
            return vals[0]
        if all(isinstance(v, (int, SInt)) and not isinstance(v, bool) for v in vals):
            z = zint(vals[-1])
            for g, v in reversed(alts[:-1]):
                z = z3.If(g, zint(v), z)
            return mk_int(z)
        if all(isinstance(v, (bool, SBool)) for v in vals):
            z = zbool(vals[-1])
            for g, v in reversed(alts[:-1]):
                z = z3.If(g, zbool(v), z)
            return mk_bool(z)
        if all(isinstance(v, (str, SStr)) for v in vals):
            z = zstr(vals[-1])
            for g, v in reversed(alts[:-1]):
                z = z3.If(g, zstr(v), z)
            return mk_str(z)
        if all(isinstance(v, (EnumVal, SEnum)) for v in vals) and len({v.cls for v in vals}) == 1:
            z = self.enum_z(vals[-1])
            for g, v in reversed(alts[:-1]):
                z = z3.If(g, self.enum_z(v), z)
            z = z3.simplify(z)
            if z3.is_int_value(z):
                return self.enum_members(vals[0].cls)[z.as_long()]
            return SEnum(vals[0].cls, z)
        flat = []
        for g, v in alts:
            if isinstance(v, SUnion):
                flat.extend((z3.And(g, g2), v2) for g2, v2 in v.alts)
            else:
                flat.append((g, v))
        # drop syntactically false guards
        flat = [(z3.simplify(g), v) for g, v in flat]
        flat = [(g, v) for g, v in flat if not z3.is_false(g)]
        if len(flat) == 1:
            return flat[0][1]
        return SUnion(flat)

    def ite(self, cond, a, b):
        if isinstance(cond, bool):
            return a if cond else b
        c = zbool(cond)
        return self.merge_alts([(c, a), (z3.Not(c), b)])

    def to_seq(self, v, kind=None):
        """View an iterable as SSeq/list (no copy for concrete)."""
        if isinstance(v, MList):
            v = v.seq
            if isinstance(v, list):
                return list(v)
        if isinstance(v, (list, tuple)):
            return v
        if isinstance(v, SSeq):
            return v
        if isinstance(v, (set, frozenset)):
            return sorted(v, key=repr)
        from . import models as _m0
        if isinstance(v, _m0.SymSet):
            if v.parts or any(is_sym(x) or isinstance(x, SObj) for x in v.items):
                raise Unsupported("iteration over a set with symbolic members")
            out = []
            for x in v.items:
                if x not in out:
                    out.append(x)
            return out
        if isinstance(v, dict):
            return list(v.keys())
        if isinstance(v, SUnion):
            return self.to_seq(self.choose(v))
        if isinstance(v, SMap):
            if v.keys_seq is not None and not v.writes:
                return v.keys_seq
            raise Unsupported("iteration over symbolic map")
        if isinstance(v, str):
            return list(v)
        from . import models, loops
        if isinstance(v, models.Iter):
            if v.pos == 0:
                return v.seq
            return self.seq_slice(v.seq, v.pos, None)
        if isinstance(v, loops.SFilter):
            return loops.filter_to_seq(self, v)
        if isinstance(v, loops.SCat):
            if all(not (isinstance(p, tuple) and p and isinstance(p[0], loops.SFlat)) for p in v.parts):
                out = []
                for p in v.parts:
                    out = self.seq_concat(out, p)
                return out
            return v
        if isinstance(v, SObj):
            cname = self.resolve_cls(v)
            m = self.find_method(cname, "__iter__")
            if m is not None:
                return self.to_seq(self.call_closure(m, [v], {}))
        if v is None:
            raise PyExc(self.mk_exc("TypeError", "'NoneType' object is not iterable"))
        raise Unsupported(f"iteration over {type(v).__name__}")

    def seq_concat(self, a, b):
        a, b = self.to_seq(a), self.to_seq(b)
        if isinstance(a, (list, tuple)) and isinstance(b, (list, tuple)):
            return list(a) + list(b)
        la, lb = self.seq_len(a), self.seq_len(b)
        if isinstance(la, int) and la == 0:
            return b
        if isinstance(lb, int) and lb == 0:
            return a
        zla = zint(la)

        def at(i, a=a, b=b, zla=zla):
            zi = zint(i)
            c = z3.simplify(zi < zla)
            if z3.is_true(c):
                return self.seq_at(a, i)
            if z3.is_false(c):
                return self.seq_at(b, mk_int(zi - zla))
            return self.merge_alts([(c, self.seq_at(a, i)), (z3.Not(c), self.seq_at(b, mk_int(zi - zla)))])
        return SSeq(mk_int(zla + zint(lb)), at, tag="concat")

    def seq_reversed(self, a):
        a = self.to_seq(a)
        if isinstance(a, (list, tuple)):
            return list(reversed(a))
        n = zint(a.len)
        return SSeq(a.len, lambda i, a=a, n=n: self.seq_at(a, mk_int(n - 1 - zint(i))), tag="reversed")

    def seq_map(self, a, f, tag="map"):
        a = self.to_seq(a)
        if isinstance(a, (list, tuple)):
            return [f(x) for x in a]
        return SSeq(a.len, lambda i, a=a: f(self.seq_at(a, i)), tag=tag)

    def seq_zip_longest(self, seqs, fill):
        seqs = [self.to_seq(s) for s in seqs]
        if all(isinstance(s, (list, tuple)) for s in seqs):
            return [tuple(t) for t in itertools.zip_longest(*seqs, fillvalue=fill)]
        lens = [zint(self.seq_len(s)) for s in seqs]
        n = lens[0]
        for l in lens[1:]:
            n = z3.If(l > n, l, n)

        def at(i):
            zi = zint(i)
            out = []
            for s, l in zip(seqs, lens):
                c = z3.simplify(zi < l)
                if isinstance(s, (list, tuple)) and len(s) == 0:
                    out.append(fill)
                elif z3.is_true(c):
                    out.append(self.seq_at(s, i))
                elif z3.is_false(c):
                    out.append(fill)
                else:
                    out.append(self.merge_alts([(c, self.seq_at(s, i)), (z3.Not(c), fill)]))
            return tuple(out)
        return SSeq(mk_int(n), at, tag="zip_longest")

    def seq_zip(self, seqs):
        seqs = [self.to_seq(s) for s in seqs]
        if all(isinstance(s, (list, tuple)) for s in seqs):
            return [tuple(t) for t in zip(*seqs)]
        lens = [zint(self.seq_len(s)) for s in seqs]
        n = lens[0]
        for l in lens[1:]:
            n = z3.If(l < n, l, n)
        return SSeq(mk_int(n), lambda i: tuple(self.seq_at(s, i) for s in seqs), tag="zip")

    def seq_enumerate(self, a, start=0):
        a = self.to_seq(a)
        if isinstance(a, (list, tuple)) and isinstance(start, int):
            return [(i + start, x) for i, x in enumerate(a)]
        return SSeq(self.seq_len(a), lambda i: (mk_int(zint(i) + zint(start)), self.seq_at(a, i)), tag="enumerate")

    def seq_slice(self, a, lo, hi):
        """a[lo:hi] with step 1; lo/hi None|int|SInt."""
        a = self.to_seq(a)
        n = self.seq_len(a)
        if isinstance(a, (list, tuple)) and (lo is None or isinstance(lo, int)) and (hi is None or isinstance(hi, int)):
            return a[lo:hi]
        zn = zint(n)

        def norm(x, default):
            if x is None:
                return default
            zx = zint(x)
            zx = z3.If(zx < 0, z3.If(zx + zn < 0, z3.IntVal(0), zx + zn), z3.If(zx > zn, zn, zx))
            return zx
        zlo, zhi = norm(lo, z3.IntVal(0)), norm(hi, zn)
        ln = z3.If(zhi > zlo, zhi - zlo, z3.IntVal(0))
        kind = "tuple" if isinstance(a, tuple) or (isinstance(a, SSeq) and a.kind == "tuple") else "list"
        return SSeq(mk_int(ln), lambda i: self.seq_at(a, mk_int(zlo + zint(i))), kind=kind, tag="slice")

    def concretize_len(self, s, maxn=8):
        """Fork on the length of a symbolic sequence up to maxn; returns a Python list."""
        if isinstance(s, (list, tuple)):
            return list(s)
        n = s.len
        if isinstance(n, int):
            return [s.at(i) for i in range(n)]
        for k in range(maxn + 1):
            if self.branch(zint(n) == k):
                return [s.at(i) for i in range(k)]
        raise Unsupported(f"sequence longer than bound {maxn}")

    # ------------------------------------------------------------------ classes / attribute lookup
    def class_mro(self, clsname):
        key = ("mro", clsname)
        if key not in self.gcache:
            try:
                self.gcache[key] = self.index.mro(clsname)
            except ValueError:
                self.gcache[key] = [clsname]
        return self.gcache[key]

    def is_subclass(self, clsname, base):
        if clsname == base:
            return True
        if clsname in EXC_BUILTINS and base in EXC_BUILTINS:
            return issubclass(EXC_BUILTINS[clsname], EXC_BUILTINS[base])
        mro = self.class_mro(clsname)
        if base in mro:
            return True
        # source-defined exception deriving from a builtin exception
        for c in mro:
            if c in EXC_BUILTINS and base in EXC_BUILTINS and issubclass(EXC_BUILTINS[c], EXC_BUILTINS[base]):
                return True
        if base == "object":
            return True
        return False

    def find_class_member(self, clsname, name):
        """-> (kind, payload) searching the MRO in the real source.
        kind in 'method','property','setter','const','classmethod','staticmethod'."""
        key = ("member", clsname, name)
        if key in self.gcache:
            return self.gcache[key]
        res = None
        for c in self.class_mro(clsname):
            ci = self.index.class_info(c)
            if ci is None:
                continue
            mi, node = ci
            found = None
            for st in node.body:
                if isinstance(st, (ast.FunctionDef, ast.AsyncFunctionDef)) and st.name == name:
                    decos = [ast.unparse(d) for d in st.decorator_list]
                    if any(d.endswith(".setter") or d.endswith(".deleter") for d in decos):
                        continue
                    clo = Closure(st, mi, None, f"{c}.{name}", c)
                    if any(d in ("property", "cached_property", "functools.cached_property") for d in decos):
                        found = ("property", clo)
                    elif "classmethod" in decos:
                        found = ("classmethod", clo)
                    elif "staticmethod" in decos:
                        found = ("staticmethod", clo)
                    else:
                        found = ("method", clo)
                elif isinstance(st, ast.Assign) and any(isinstance(t, ast.Name) and t.id == name for t in st.targets):
                    found = ("const", (mi, st.value))
                elif isinstance(st, ast.AnnAssign) and isinstance(st.target, ast.Name) and st.target.id == name and st.value is not None:
                    found = ("const", (mi, st.value))
            if found:
                res = found
                break
        self.gcache[key] = res
        return res

    def find_setter(self, clsname, name):
        for c in self.class_mro(clsname):
            ci = self.index.class_info(c)
            if ci is None:
                continue
            mi, node = ci
            for st in node.body:
                if isinstance(st, ast.FunctionDef) and st.name == name:
                    decos = [ast.unparse(d) for d in st.decorator_list]
                    if any(d == f"{name}.setter" for d in decos):
                        return Closure(st, mi, None, f"{c}.{name}@setter", c)
        return None

    def find_method(self, clsname, name):
        m = self.find_class_member(clsname, name)
        if m and m[0] == "method":
            return m[1]
        return None

    def resolve_cls(self, o: SObj):
        """Make the class of o concrete on this path (forks over candidates)."""
        if isinstance(o.cls, str):
            return o.cls
        sc: SCls = o.cls
        for k, c in enumerate(sc.cands[:-1]):
            if self.branch(sc.z == k):
                o.cls = c
                return c
        self.assume(sc.z == len(sc.cands) - 1)
        o.cls = sc.cands[-1]
        return o.cls

    def getattr(self, o, name):
        if isinstance(o, SUnion):
            o = self.choose(o)
        if isinstance(o, SObj):
            return self.obj_getattr(o, name)
        if o is None:
            raise PyExc(self.mk_exc("AttributeError", f"'NoneType' object has no attribute '{name}'"))
        if isinstance(o, (EnumVal, SEnum)):
            if name == "value":
                return self.enum_value(o)
            if name == "name" and isinstance(o, EnumVal):
                return o.name
            m = self.find_class_member(o.cls, name)
            if m and m[0] == "property":
                return self.call_closure(m[1], [o], {})
            if m and m[0] == "method":
                return BoundMethod(o, m[1])
            raise Unsupported(f"enum attr {name}")
        if isinstance(o, ClassRef):
            return self.class_getattr(o, name)
        if isinstance(o, ModuleRef):
            return self.module_getattr(o, name)
        from . import models
        if isinstance(o, models.SuperProxy):
            return models.super_getattr(self, o, name)
        if isinstance(o, SAny):
            return models.any_getattr(self, o, name)
        if isinstance(o, Opaque) and str(o.tag).startswith("lenient:"):
            return Opaque(f"{o.tag}.{name}")
        r = models.value_getattr(self, o, name)
        if r is not models.NOATTR:
            return r
        raise Unsupported(f"getattr {type(o).__name__}.{name}")

    def obj_getattr(self, o: SObj, name):
        hf = getattr(o, "hook_first", None)
        if hf and name in hf:
            # a fixture may declare that reading this field goes through the class's hook (e.g. forwarding properties of Alias that can raise)
            for c in self.class_mro(self.resolve_cls(o)):
                h0 = self.attr_hooks.get((c, name))
                if h0:
                    r0 = h0(self, o)
                    from . import models as _m0
                    if r0 is not _m0.NOATTR:
                        return r0
                    break
        if name in o.fields:
            return o.fields[name]
        if name in o.lazy:
            v = o.lazy[name](self, o)
            o.fields[name] = v
            return v
        if name == "__class__":
            return ClassRef(self.resolve_cls(o))
        cname = o.cls if isinstance(o.cls, str) else None
        # hooks keyed on any class in the candidate set are applied before forking on the class
        if cname is None:
            for c in o.cls.cands:
                h = self.attr_hooks.get((c, name)) or self.attr_hooks.get(("*", name))
                if h:
                    break
            else:
                h = None
            if h is None:
                cname = self.resolve_cls(o)
        if cname is not None:
            h = None
            for c in self.class_mro(cname):
                h = self.attr_hooks.get((c, name))
                if h:
                    break
            h = h or self.attr_hooks.get(("*", name))
        if h:
            r_ = h(self, o)
            from . import models as _m
            if r_ is not _m.NOATTR:     # a hook may decline (fall through to the real member)
                return r_
        m = self.find_class_member(cname, name)
        if m is None:
            dflt = self.find_method(cname, "__getattr__")
            if dflt is not None:
                return self.call_closure(dflt, [o, name], {})
            if self.index.class_info(cname) is None and not o.frozen:
                raise Unsupported(f"attribute {name} of external class {cname} not declared in the contract shape")
            raise PyExc(self.mk_exc("AttributeError", f"'{cname}' object has no attribute '{name}'"))
        kind, payload = m
        if kind == "property":
            return self.call_closure(payload, [o], {})
        if kind == "method":
            return BoundMethod(o, payload)
        if kind == "classmethod":
            return BoundMethod(ClassRef(cname), payload)
        if kind == "staticmethod":
            return payload
        if kind == "const":
            mi, expr = payload
            return self.eval_in_module(mi, expr)
        raise Unsupported(f"attr kind {kind}")

    def setattr(self, o, name, value):
        if isinstance(o, SUnion):
            o = self.choose(o)
        if isinstance(o, ModuleRef):
            ext = self.ghost.setdefault("ext", {})
            full = f"{o.name}.{name}"
            writer = self.frame.func.qualname if self.frame.func else "<module>"
            self.trace.append(("write", full, writer, value))
            ext[full] = value
            return
        if isinstance(o, SAny):
            self.ghost.setdefault("any_writes", []).append((o, name))
            return
        if isinstance(o, Opaque) and str(o.tag).startswith("lenient:"):
            self.trace.append(("opaque-write", o.tag, name))
            return
        if not isinstance(o, SObj):
            raise Unsupported(f"setattr on {type(o).__name__}")
        has_setter = (not isinstance(o.cls, str)) and any(self.find_setter(c, name) is not None for c in o.cls.cands)
        if isinstance(o.cls, str) or name not in o.fields or has_setter:
            # (a class that defines a setter for this name decides what the assignment does, whatever the fixture stored in the field)
            cname = self.resolve_cls(o)
            st = self.find_setter(cname, name)
            if st is not None:
                self.call_closure(st, [o, value], {})
                return
            m = self.find_class_member(cname, name)
            if m and m[0] == "property":
                # cached_property-style assignment or read-only property
                decos = [ast.unparse(d) for d in m[1].node.decorator_list]
                if "property" in decos:
                    raise PyExc(self.mk_exc("AttributeError", f"property '{name}' has no setter"))
        if o.frozen:
            raise Unsupported("write to frozen input object " + name)
        self.ex.stats["field_writes"] += 1
        w = self.ghost.setdefault("writes", [])
        w.append((o, name))
        o.fields[name] = value

    def class_getattr(self, c: ClassRef, name):
        if self.is_enum_class(c.name):
            for m in self.enum_members(c.name):
                if m.name == name:
                    return m
        m = self.find_class_member(c.name, name)
        if m:
            kind, payload = m
            if kind == "const":
                return self.eval_in_module(*payload)
            if kind in ("method", "staticmethod", "property"):
                return payload
            if kind == "classmethod":
                return BoundMethod(c, payload)
        if name == "__name__":
            return c.name
        raise Unsupported(f"class attr {c.name}.{name}")

    def module_getattr(self, m: ModuleRef, name):
        from . import models
        full = f"{m.name}.{name}"
        ext = self.ghost.get("ext")
        if ext is not None and full in ext:
            self.trace.append(("read", full))
            return ext[full]
        if m.name.startswith("_griffe"):
            mi = self.index.module(m.name)
            if mi is not None:
                return self.resolve_global(mi, name)
        r = models.external(self, full)
        if r is not models.NOATTR:
            return r
        raise Unsupported(f"external {full}")

    # ------------------------------------------------------------------ exceptions
    def mk_exc(self, clsname, *args):
        return SObj(clsname, {"args": tuple(args)})

    def exc_matches(self, exc: SObj, handler_type) -> bool:
        """Does exception object match `except handler_type`?"""
        if handler_type is None:
            return True
        if isinstance(handler_type, (tuple, list)):
            return any(self.exc_matches(exc, h) for h in handler_type)
        if isinstance(handler_type, ClassRef):
            return self.is_subclass(self.resolve_cls(exc), handler_type.name)
        raise Unsupported(f"except clause type {handler_type!r}")

    # ------------------------------------------------------------------ name resolution
    def resolve_global(self, mi: ModuleInfo, name: str):
        key = ("g", mi.name, name)
        if key in self.gcache:
            return self.gcache[key]
        v = self._resolve_global(mi, name)
        self.gcache[key] = v
        return v

    def _resolve_global(self, mi, name):
        from . import models
        gv = self.ghost.get("global_values")
        if gv is not None and f"{mi.name}:{name}" in gv:
            return gv[f"{mi.name}:{name}"]      # contract-supplied abstraction of a module-level table (stated in its trusted base)
        hook = self.opaque_hooks.get(f"{mi.name}:{name}")
        if hook is not None:
            return Builtin(f"{mi.name}:{name}", hook)
        if name in ("logger", "_logger"):
            return Opaque("lenient:logger")
        if name in mi.functions:
            return Closure(mi.functions[name], mi, None, name, None)
        if name in mi.classes:
            return ClassRef(name, mi, mi.classes[name])
        if name in mi.assigns:
            return self.eval_in_module(mi, mi.assigns[name])
        if name in mi.imports:
            mod, attr = mi.imports[name]
            if mod.startswith("_griffe") or mod.startswith("griffe"):
                if attr is None:
                    return ModuleRef(mod)
                tmi = self.index.module(mod)
                if tmi is None:
                    raise Unsupported(f"module {mod}")
                sub = self.index.module(f"{mod}.{attr}")
                if attr not in tmi.functions and attr not in tmi.classes and attr not in tmi.assigns and attr not in tmi.imports and sub:
                    return ModuleRef(f"{mod}.{attr}")
                return self.resolve_global(tmi, attr)
            full = mod if attr is None else f"{mod}.{attr}"
            hook = self.opaque_hooks.get(full)
            if hook is not None:
                return Builtin(full, hook)
            r = models.external(self, full)
            if r is not models.NOATTR:
                return r
            if attr is None:
                return ModuleRef(mod)
            raise Unsupported(f"external import {full}")
        r = models.builtin(self, name)
        if r is not models.NOATTR:
            return r
        raise PyExc(self.mk_exc("NameError", f"name '{name}' is not defined"))

    def eval_in_module(self, mi, expr):
        fr = Frame(None, mi)
        self.frames.append(fr)
        try:
            return self.eval(expr)
        finally:
            self.frames.pop()

    @property
    def frame(self) -> Frame:
        return self.frames[-1]

    def load_name(self, name):
        f, v = self.frame.lookup(name)
        if f is not None:
            return v
        fr = self.frame
        # function-local name that is assigned somewhere but not yet bound -> UnboundLocalError
        if fr.func is not None and name in self.assigned_names(fr.func.node) and name not in fr.globals_decl:
            raise PyExc(self.mk_exc("UnboundLocalError", name))
        return self.resolve_global(fr.module, name)

    def assigned_names(self, fnode):
        key = ("assigned", id(fnode))
        if key in self.gcache:
            return self.gcache[key]
        names = set()
        for a in fnode.args.posonlyargs + fnode.args.args + fnode.args.kwonlyargs:
            names.add(a.arg)
        if fnode.args.vararg:
            names.add(fnode.args.vararg.arg)
        if fnode.args.kwarg:
            names.add(fnode.args.kwarg.arg)

        class V(ast.NodeVisitor):
            def visit_Name(s, n):
                if isinstance(n.ctx, (ast.Store, ast.Del)):
                    names.add(n.id)

            def visit_FunctionDef(s, n):
                names.add(n.name)

            def visit_ClassDef(s, n):
                names.add(n.name)

            def visit_Lambda(s, n):
                pass

            def visit_ListComp(s, n):
                pass
            visit_SetComp = visit_DictComp = visit_GeneratorExp = visit_ListComp

            def visit_ExceptHandler(s, n):
                if n.name:
                    names.add(n.name)
                s.generic_visit(n)

            def visit_Import(s, n):
                for a in n.names:
                    names.add(a.asname or a.name.split(".")[0])
            visit_ImportFrom = visit_Import

        if isinstance(fnode, ast.Lambda):
            pass
        else:
            for st in fnode.body:
                V().visit(st)
        self.gcache[key] = names
        return names

    def store_name(self, name, value):
        fr = self.frame
        if name in fr.nonlocals:
            f, _ = fr.parent_env.lookup(name) if fr.parent_env else (None, None)
            if f is not None:
                f.locals[name] = value
                return
        fr.locals[name] = value

    # ------------------------------------------------------------------ calls
    def is_generator(self, fnode):
        key = ("isgen", id(fnode))
        if key in self.gcache:
            return self.gcache[key]

        found = [False]

        class V(ast.NodeVisitor):
            def visit_Yield(s, n):
                found[0] = True

            def visit_YieldFrom(s, n):
                found[0] = True

            def visit_FunctionDef(s, n):
                pass

            def visit_Lambda(s, n):
                pass
            visit_AsyncFunctionDef = visit_FunctionDef
        if not isinstance(fnode, ast.Lambda):
            for st in fnode.body:
                V().visit(st)
        self.gcache[key] = found[0]
        return found[0]

    def bind_args(self, clo: Closure, args, kwargs):
        a = clo.node.args
        fr_locals = {}
        params = a.posonlyargs + a.args
        n_pos = len(params)
        args = list(args)
        kwargs = dict(kwargs)
        defaults = [None] * (n_pos - len(a.defaults)) + list(a.defaults)
        for i, p in enumerate(params):
            if i < len(args):
                fr_locals[p.arg] = args[i]
            elif p.arg in kwargs and p not in a.posonlyargs:
                fr_locals[p.arg] = kwargs.pop(p.arg)
            elif defaults[i] is not None:
                fr_locals[p.arg] = self.eval_in_module(clo.module, defaults[i])
            else:
                raise PyExc(self.mk_exc("TypeError", f"missing argument {p.arg} in call to {clo.qualname}"))
        extra = args[n_pos:]
        if a.vararg and len(extra) == 1 and isinstance(extra[0], StarArgs):
            fr_locals[a.vararg.arg] = extra[0].seq
        elif a.vararg:
            fr_locals[a.vararg.arg] = tuple(extra)
        elif extra:
            raise PyExc(self.mk_exc("TypeError", f"too many positional arguments to {clo.qualname}"))
        for p, d in zip(a.kwonlyargs, a.kw_defaults):
            if p.arg in kwargs:
                fr_locals[p.arg] = kwargs.pop(p.arg)
            elif d is not None:
                fr_locals[p.arg] = self.eval_in_module(clo.module, d)
            else:
                raise PyExc(self.mk_exc("TypeError", f"missing keyword-only argument {p.arg} in call to {clo.qualname}"))
        if a.kwarg:
            fr_locals[a.kwarg.arg] = kwargs
        elif kwargs:
            raise PyExc(self.mk_exc("TypeError", f"unexpected keyword arguments {list(kwargs)} to {clo.qualname}"))
        return fr_locals

    def call_closure(self, clo: Closure, args, kwargs, yield_handler=None):
        hook = self.opaque_hooks.get(self.qual_of(clo))
        if hook is not None and not getattr(clo, "_nohook", False):
            return hook(self, list(args), dict(kwargs))
        self.call_depth += 1
        if self.call_depth > self.ex.max_call_depth:
            self.call_depth -= 1
            raise Unsupported(f"call depth exceeded at {clo.qualname}")
        fr = Frame(clo, clo.module, clo.env)
        fr.locals = self.bind_args(clo, args, kwargs)
        self.frames.append(fr)
        try:
            if isinstance(clo.node, ast.Lambda):
                return self.eval(clo.node.body)
            gen = self.is_generator(clo.node)
            if gen:
                if yield_handler is not None:
                    fr.yield_handler = yield_handler
                else:
                    fr.yields = []
            try:
                self.exec_block(clo.node.body)
                ret = None
            except ReturnSig as r:
                ret = r.value
            if gen and yield_handler is None:
                return self.finish_generator(fr)
            return ret
        finally:
            self.frames.pop()
            self.call_depth -= 1

    def finish_generator(self, fr):
        """Eager generator semantics: the generator's value is the sequence of its yields."""
        from . import loops
        segs = fr.yields
        if any(s[0] == "flat" or (s[0] == "from" and isinstance(s[1], loops.SCat)) for s in segs):
            parts = []
            for s in segs:
                if s[0] == "item":
                    if parts and isinstance(parts[-1], list):
                        parts[-1].append(s[1])
                    else:
                        parts.append([s[1]])
                elif s[0] == "flat":
                    parts.append((s[1], "yield"))
                elif isinstance(s[1], loops.SCat):
                    parts.extend(s[1].parts)
                else:
                    parts.append(s[1])
            return loops.SCat(parts)
        out = []
        for s in segs:
            if isinstance(s, tuple) and s and s[0] == "item":
                if isinstance(out, list):
                    out.append(s[1])
                else:
                    out = self.seq_concat(out, [s[1]])
            else:  # ("from", seq)
                out = self.seq_concat(out, s[1])
        return out

    def qual_of(self, clo: Closure):
        return f"{clo.module.name}:{clo.qualname}"

    def call(self, f, args, kwargs):
        self.steps += 1
        if isinstance(f, SUnion):
            f = self.choose(f)
        if isinstance(f, Closure):
            return self.call_closure(f, args, kwargs)
        if isinstance(f, BoundMethod):
            if isinstance(f.func, Closure):
                return self.call_closure(f.func, [f.self_obj] + list(args), kwargs)
            return f.func(self, f.self_obj, list(args), kwargs)
        if isinstance(f, Builtin):
            return f.fn(self, list(args), kwargs)
        if isinstance(f, ClassRef):
            return self.instantiate(f, args, kwargs)
        if isinstance(f, SAny):
            from . import models as _m
            return _m.any_call(self, f, args, kwargs)
        if isinstance(f, Opaque) and str(f.tag).startswith("lenient:"):
            return Opaque(f"{f.tag}()")
        if isinstance(f, SObj):
            cname = self.resolve_cls(f)
            m = self.find_method(cname, "__call__")
            if m is not None:
                return self.call_closure(m, [f] + list(args), kwargs)
        raise Unsupported(f"call of {f!r}")

    def instantiate(self, c: ClassRef, args, kwargs):
        from . import models
        hook = self.opaque_hooks.get(f"new:{c.name}")
        if hook is not None:
            return hook(self, list(args), dict(kwargs))
        r = models.instantiate_builtin(self, c, args, kwargs)
        if r is not models.NOATTR:
            return r
        if c.name in EXC_BUILTINS:
            return SObj(c.name, {"args": tuple(args)})
        ci = self.index.class_info(c.name)
        if ci is None:
            raise Unsupported(f"instantiate {c.name}")
        if self.is_enum_class(c.name):
            # Enum(value) lookup
            (val,) = args
            ms = self.enum_members(c.name)
            if isinstance(val, (EnumVal, SEnum)):
                return val
            if isinstance(val, str):
                for m in ms:
                    if m.value == val:
                        return m
                raise PyExc(self.mk_exc("ValueError", f"{val!r} is not a valid {c.name}"))
            if isinstance(val, SStr):
                z = self.fresh_z("enum_of", z3.IntSort())
                conds = [z3.And(z == m.index, val.z == z3.StringVal(m.value)) for m in ms]
                if self.branch(z3.Or(*[val.z == z3.StringVal(m.value) for m in ms])):
                    self.assume(z3.Or(*conds))
                    return SEnum(c.name, z)
                raise PyExc(self.mk_exc("ValueError", f"not a valid {c.name}"))
            raise Unsupported("enum call")
        o = SObj(c.name, {}, ident=self.new_ident())
        self.ex.stats["allocs"] += 1
        init = self.find_class_member(c.name, "__init__")
        decos = [ast.unparse(d) for d in ci[1].decorator_list]
        if init is not None and init[0] == "method":
            self.call_closure(init[1], [o] + list(args), kwargs)
        elif any(d.startswith("dataclass") or d.startswith("dataclasses.dataclass") for d in decos):
            self.dataclass_init(o, c.name, args, kwargs)
        elif any(self.is_subclass(c.name, e) for e in ("Exception", "BaseException")) or self.is_exception_class(c.name):
            o.fields["args"] = tuple(args)
        elif args or kwargs:
            raise Unsupported(f"instantiate {c.name} with args but no __init__")
        return o

    def is_exception_class(self, clsname):
        return any(c in EXC_BUILTINS for c in self.class_mro(clsname))

    def dataclass_init(self, o, clsname, args, kwargs):
        fields = []
        for c in reversed(self.class_mro(clsname)):
            ci = self.index.class_info(c)
            if ci is None:
                continue
            for st in ci[1].body:
                if isinstance(st, ast.AnnAssign) and isinstance(st.target, ast.Name):
                    fields = [f for f in fields if f[0] != st.target.id]
                    fields.append((st.target.id, st.value, ci[0]))
        args = list(args)
        kwargs = dict(kwargs)
        for i, (n, dflt, mi) in enumerate(fields):
            if i < len(args):
                o.fields[n] = args[i]
            elif n in kwargs:
                o.fields[n] = kwargs.pop(n)
            elif dflt is not None:
                if isinstance(dflt, ast.Call) and isinstance(dflt.func, ast.Name) and dflt.func.id == "field":
                    kw = {k.arg: k.value for k in dflt.keywords}
                    if "default_factory" in kw:
                        fac = self.eval_in_module(mi, kw["default_factory"])
                        v = self.call(fac, [], {})
                        o.fields[n] = v    # a fresh container per instance
                    elif "default" in kw:
                        o.fields[n] = self.eval_in_module(mi, kw["default"])
                    else:
                        raise PyExc(self.mk_exc("TypeError", f"missing {n}"))
                else:
                    o.fields[n] = self.eval_in_module(mi, dflt)
            else:
                raise PyExc(self.mk_exc("TypeError", f"missing {n}"))

    def new_ident(self):
        n = self.counters.get("@alloc", 0) + 1
        self.counters["@alloc"] = n
        return z3.IntVal(-n)  # allocated objects: negative identities, inputs: positive/uninterpreted

    # ------------------------------------------------------------------ statements
    def exec_block(self, body):
        for st in body:
            self.exec(st)

    def exec(self, st):
        self.steps += 1
        if self.steps > self.ex.max_steps:
            raise Unsupported("step budget exceeded")
        m = getattr(self, "x_" + type(st).__name__, None)
        if m is None:
            raise Unsupported(f"statement {type(st).__name__}@{getattr(st, 'lineno', '?')}")
        return m(st)

    def x_Pass(self, st):
        pass

    def x_Expr(self, st):
        if isinstance(st.value, ast.Constant):
            return
        self.eval(st.value)

    def x_Return(self, st):
        raise ReturnSig(self.eval(st.value) if st.value is not None else None)

    def x_Break(self, st):
        raise BreakSig()

    def x_Continue(self, st):
        raise ContinueSig()

    def x_Global(self, st):
        self.frame.globals_decl.update(st.names)

    def x_Nonlocal(self, st):
        self.frame.nonlocals.update(st.names)

    def x_Assert(self, st):
        if not self.is_true(self.eval(st.test)):
            raise PyExc(self.mk_exc("AssertionError"))

    def x_Import(self, st):
        from . import models
        for a in st.names:
            nm = a.asname or a.name.split(".")[0]
            self.store_name(nm, ModuleRef(a.name if a.asname else a.name.split(".")[0]))

    def x_ImportFrom(self, st):
        from . import models
        mod = st.module or ""
        for a in st.names:
            if mod.startswith("_griffe"):
                tmi = self.index.module(mod)
                v = self.resolve_global(tmi, a.name)
            else:
                v = models.external(self, f"{mod}.{a.name}")
                if v is models.NOATTR:
                    raise Unsupported(f"import {mod}.{a.name}")
            self.store_name(a.asname or a.name, v)

    def x_FunctionDef(self, st):
        clo = Closure(st, self.frame.module, self.frame, st.name, None)
        decos = [ast.unparse(d) for d in st.decorator_list]
        v = clo
        for d in decos:
            if d in ("contextmanager", "contextlib.contextmanager", "staticmethod", "cache", "functools.cache"):
                continue
            raise Unsupported(f"decorator {d} on nested function")
        self.store_name(st.name, v)

    def x_Assign(self, st):
        v = self.eval(st.value)
        for t in st.targets:
            self.assign(t, v)

    def x_AnnAssign(self, st):
        if st.value is not None:
            self.assign(st.target, self.eval(st.value))

    def x_AugAssign(self, st):
        load = ast.copy_location(_to_load(st.target), st.target)
        cur = self.eval(load)
        rhs = self.eval(st.value)
        from . import models
        if isinstance(st.op, ast.BitOr) and isinstance(cur, models.SymSet):
            models.call_method(self, cur, "update", [rhs], {})
            return
        from . import loops as _lp
        if isinstance(st.op, ast.Add) and isinstance(rhs, _lp.SFilter) and isinstance(cur, (list, SSeq, _lp.SCat)):
            # list += [x for x in xs if p(x)]: kept as a concatenation with the filter summary (contracts inspect its structure)
            if isinstance(cur, _lp.SCat):
                cur.parts.append(rhs)
                return
            self.assign(st.target, _lp.SCat([cur, rhs]))
            return
        if isinstance(st.op, ast.Add) and isinstance(cur, list) and not isinstance(cur, tuple):
            # list += iterable mutates in place
            rs = self.to_seq(rhs)
            if isinstance(rs, (list, tuple)):
                cur.extend(rs)
                return
            v = self.seq_concat(cur, rs)
        else:
            v = models.binop(self, st.op, cur, rhs)
        self.assign(st.target, v)

    def x_Delete(self, st):
        from . import models
        for t in st.targets:
            if isinstance(t, ast.Subscript):
                c = self.eval(t.value)
                k = self.eval(t.slice)
                models.delitem(self, c, k)
            elif isinstance(t, ast.Name):
                f, _ = self.frame.lookup(t.id)
                if f is None:
                    raise PyExc(self.mk_exc("NameError", t.id))
                del f.locals[t.id]
            elif isinstance(t, ast.Attribute):
                o = self.eval(t.value)
                if isinstance(o, SObj) and t.attr in o.fields:
                    del o.fields[t.attr]
                else:
                    raise Unsupported("del attribute")
            else:
                raise Unsupported("del target")

    def assign(self, target, v):
        from . import models
        if isinstance(target, ast.Name):
            self.store_name(target.id, v)
        elif isinstance(target, (ast.Tuple, ast.List)):
            star = [i for i, e in enumerate(target.elts) if isinstance(e, ast.Starred)]
            if isinstance(v, SUnion):
                v = self.choose(v)
            seq = self.to_seq(v)
            n = self.seq_len(seq)
            k = len(target.elts)
            if star:
                if not isinstance(n, int):
                    raise Unsupported("star-unpack of symbolic-length sequence")
                si = star[0]
                if n < k - 1:
                    raise PyExc(self.mk_exc("ValueError", "not enough values to unpack"))
                items = [self.seq_at(seq, i) for i in range(n)]
                after = k - si - 1
                for e, x in zip(target.elts[:si], items[:si]):
                    self.assign(e, x)
                self.assign(target.elts[si].value, list(items[si:n - after]))
                for e, x in zip(target.elts[si + 1:], items[n - after:]):
                    self.assign(e, x)
                return
            if isinstance(n, int):
                if n != k:
                    raise PyExc(self.mk_exc("ValueError", f"unpack: expected {k}, got {n}"))
            else:
                if not self.branch(zint(n) == k):
                    raise PyExc(self.mk_exc("ValueError", f"unpack: expected {k}"))
            for i, e in enumerate(target.elts):
                self.assign(e, self.seq_at(seq, i))
        elif isinstance(target, ast.Attribute):
            o = self.eval(target.value)
            self.setattr(o, target.attr, v)
        elif isinstance(target, ast.Subscript):
            c = self.eval(target.value)
            k = self.eval_slice(target.slice)
            models.setitem(self, c, k, v)
        else:
            raise Unsupported(f"assign target {type(target).__name__}")

    def x_If(self, st):
        if self.is_true(self.eval(st.test)):
            self.exec_block(st.body)
        else:
            self.exec_block(st.orelse)

    def x_Raise(self, st):
        if st.exc is None:
            cur = self.ghost.get("handling")
            if not cur:
                raise PyExc(self.mk_exc("RuntimeError", "No active exception to reraise"))
            raise PyExc(cur[-1])
        e = self.eval(st.exc)
        if isinstance(e, ClassRef):
            e = self.instantiate(e, [], {})
        if isinstance(e, SUnion):
            e = self.choose(e)
        if not isinstance(e, SObj):
            raise Unsupported(f"raise of {e!r}")
        if st.cause is not None:
            e.fields["__cause__"] = self.eval(st.cause)
        raise PyExc(e)

    def x_Try(self, st):
        try:
            try:
                self.exec_block(st.body)
            except PyExc as pe:
                handled = False
                for h in st.handlers:
                    ht = self.eval(h.type) if h.type is not None else None
                    if self.exc_matches(pe.obj, ht):
                        if h.name:
                            self.store_name(h.name, pe.obj)
                        self.ghost.setdefault("handling", []).append(pe.obj)
                        try:
                            self.exec_block(h.body)
                        finally:
                            self.ghost["handling"].pop()
                        handled = True
                        break
                if not handled:
                    raise
            else:
                self.exec_block(st.orelse)
        except (PyExc, ReturnSig, BreakSig, ContinueSig):
            self.exec_block(st.finalbody)
            raise
        else:
            self.exec_block(st.finalbody)

    def x_With(self, st):
        self.exec_with(st.items, st.body)

    def exec_with(self, items, body):
        from . import models
        if not items:
            self.exec_block(body)
            return
        item, rest = items[0], items[1:]
        cm = self.eval_cm(item.context_expr)

        def run_body(val):
            if item.optional_vars is not None:
                self.assign(item.optional_vars, val)
            self.exec_with(rest, body)
        models.run_context_manager(self, cm, run_body)

    def eval_cm(self, expr):
        """Evaluate a context-manager expression; generator-based ones are kept unevaluated."""
        if isinstance(expr, ast.Call):
            f = self.eval(expr.func)
            args, kwargs = self.eval_args(expr)
            if isinstance(f, Closure) and any(
                ast.unparse(d) in ("contextmanager", "contextlib.contextmanager") for d in f.node.decorator_list
            ) and self.opaque_hooks.get(self.qual_of(f)) is None:
                return ("gen_cm", f, args, kwargs)
            return self.call(f, args, kwargs)
        return self.eval(expr)

    # loops ------------------------------------------------------------
    def loop_key(self, st):
        fr = self.frame
        fn = fr.func
        if fn is None:
            return None
        key = ("loops", id(fn.node))
        if key not in self.gcache:
            loops = [n for n in ast.walk(fn.node) if isinstance(n, (ast.For, ast.While))]
            loops.sort(key=lambda n: (n.lineno, n.col_offset))
            self.gcache[key] = {id(n): i for i, n in enumerate(loops)}
        return (self.qual_of(fn), self.gcache[key].get(id(st)))

    def loop_spec_for(self, st):
        """The contract's specification of a loop: by (function, ordinal of the loop in the function), else -- robust to loops added, removed or moved into
        a helper -- by what the loop iterates over / tests: (function or "*", "iter:<source of the iterable>") / (.., "test:<source of the condition>")."""
        key = self.loop_key(st)
        spec = self.loop_specs.get(key)
        if spec is None and self.loop_specs:
            text = ("iter:" + ast.unparse(st.iter)) if isinstance(st, ast.For) else ("test:" + ast.unparse(st.test))
            qual = key[0] if key else None
            spec = self.loop_specs.get((qual, text)) or self.loop_specs.get(("*", text))
        return spec

    def x_For(self, st):
        from . import loops
        it = self.eval(st.iter)
        if isinstance(it, SUnion):
            it = self.choose(it)
        spec = self.loop_spec_for(st)
        seq = self.to_seq(it)
        from . import loops as _loops
        if isinstance(seq, _loops.SCat):
            raise Unsupported(f"iteration over a flat-map summary at line {st.lineno}")
        if isinstance(seq, (list, tuple)) and spec is None:
            broke = False
            for x in list(seq):
                self.assign(st.target, x)
                try:
                    self.exec_block(st.body)
                except BreakSig:
                    broke = True
                    break
                except ContinueSig:
                    continue
            if not broke:
                self.exec_block(st.orelse)
            return
        loops.exec_for(self, st, seq, spec)

    def x_While(self, st):
        from . import loops
        spec = self.loop_spec_for(st)
        if spec is None:
            # concrete unrolling while the condition is decided without forking; else need a spec
            n = 0
            while True:
                c = self.truth(self.eval(st.test))
                if not isinstance(c, bool):
                    c = z3.simplify(c)
                    if z3.is_true(c):
                        c = True
                    elif z3.is_false(c):
                        c = False
                    else:
                        raise Unsupported(f"while loop without invariant at line {st.lineno} ({self.loop_key(st)})")
                if not c:
                    self.exec_block(st.orelse)
                    return
                try:
                    self.exec_block(st.body)
                except BreakSig:
                    return
                except ContinueSig:
                    pass
                n += 1
                if n > self.ex.max_unroll:
                    raise Unsupported("unroll bound")
        loops.exec_while(self, st, spec)

    # ------------------------------------------------------------------ expressions
    def eval(self, e):
        m = getattr(self, "e_" + type(e).__name__, None)
        if m is None:
            raise Unsupported(f"expression {type(e).__name__}@{getattr(e, 'lineno', '?')}")
        return m(e)

    def e_Constant(self, e):
        return e.value

    def e_Name(self, e):
        return self.load_name(e.id)

    def e_Attribute(self, e):
        return self.getattr(self.eval(e.value), e.attr)

    def e_Tuple(self, e):
        r = self.eval_elts(e.elts)
        if isinstance(r, SSeq):
            return SSeq(r.len, r.at, kind="tuple", tag=r.tag)
        return tuple(r)

    def e_List(self, e):
        r = self.eval_elts(e.elts)
        return r if isinstance(r, SSeq) else list(r)

    def e_Set(self, e):
        from . import models
        return models.make_set(self, self.eval_elts(e.elts))

    def eval_elts(self, elts):
        out = []
        for x in elts:
            if isinstance(x, ast.Starred):
                s = self.to_seq(self.eval(x.value))
                if isinstance(out, list) and isinstance(s, (list, tuple)):
                    out.extend(s)
                else:
                    out = self.seq_concat(out, s)
            else:
                v = self.eval(x)
                if isinstance(out, list):
                    out.append(v)
                else:
                    out = self.seq_concat(out, [v])
        if isinstance(out, SSeq):
            return out
        return out

    def e_Dict(self, e):
        d = {}
        for k, v in zip(e.keys, e.values):
            if k is None:
                src = self.eval(v)
                if isinstance(src, dict):
                    from . import models as _mm
                    for kk, vv in src.items():
                        _mm.setitem(self, d, kk, vv)
                else:
                    raise Unsupported("dict ** of symbolic map")
            else:
                kk = self.eval(k)
                if is_sym(kk):
                    raise Unsupported("dict literal with symbolic key")
                d[kk] = self.eval(v)
        return d

    def e_JoinedStr(self, e):
        from . import models
        parts = []
        for v in e.values:
            if isinstance(v, ast.Constant):
                parts.append(v.value)
            else:
                x = self.eval(v.value)
                parts.append(models.to_str(self, x, conv=v.conversion, spec=v.format_spec))
        return models.str_concat(self, parts)

    def e_IfExp(self, e):
        if self.is_true(self.eval(e.test)):
            return self.eval(e.body)
        return self.eval(e.orelse)

    def e_Lambda(self, e):
        return Closure(e, self.frame.module, self.frame, "<lambda>", None)

    def e_NamedExpr(self, e):
        v = self.eval(e.value)
        self.store_name(e.target.id, v)
        return v

    def e_Starred(self, e):
        raise Unsupported("starred outside call/display")

    def e_Yield(self, e):
        v = self.eval(e.value) if e.value is not None else None
        fr = self.frame
        if fr.yield_handler is not None:
            return fr.yield_handler(v)
        if fr.yields is None:
            raise Unsupported("yield outside generator frame")
        fr.yields.append(("item", v))
        return None

    def e_YieldFrom(self, e):
        v = self.eval(e.value)
        fr = self.frame
        if fr.yields is None:
            raise Unsupported("yield from in context manager")
        from . import loops
        fr.yields.append(("from", v if isinstance(v, loops.SCat) else self.to_seq(v)))
        return None

    def e_Await(self, e):
        raise Unsupported("await")

    def e_UnaryOp(self, e):
        from . import models
        v = self.eval(e.operand)
        if isinstance(e.op, ast.Not):
            t = self.truth(v)
            return (not t) if isinstance(t, bool) else mk_bool(z3.Not(t))
        if isinstance(e.op, ast.USub):
            return mk_int(-zint(v)) if is_sym(v) else -v
        if isinstance(e.op, ast.UAdd):
            return v
        raise Unsupported("unary op")

    def e_BinOp(self, e):
        from . import models
        return models.binop(self, e.op, self.eval(e.left), self.eval(e.right))

    def e_BoolOp(self, e):
        # try a merged (non-forking) evaluation when every operand is a pure boolean
        merged = self.try_pure_boolop(e)
        if merged is not NOTPURE:
            return merged
        is_and = isinstance(e.op, ast.And)
        v = None
        for i, x in enumerate(e.values):
            v = self.eval(x)
            if isinstance(v, SUnion) and i < len(e.values) - 1:
                v = self.choose(v)     # the operand value itself may be returned: resolve the alternative first
            if i == len(e.values) - 1:
                return v
            t = self.is_true(v)
            if is_and and not t:
                return v
            if not is_and and t:
                return v
        return v

    def e_Compare(self, e):
        from . import models
        left = self.eval(e.left)
        result = None
        for op, rhs in zip(e.ops, e.comparators):
            right = self.eval(rhs)
            r = models.compare(self, op, left, right)
            if result is None:
                result = r
            else:
                # chained comparison: a < b < c  (operands here are side-effect free in the contracted code)
                result = mk_bool(z3.And(zbool(result), zbool(r))) if not (isinstance(result, bool) and isinstance(r, bool)) else (result and r)
            left = right
        return result

    def eval_args(self, call: ast.Call):
        args = []
        for a in call.args:
            if isinstance(a, ast.Starred):
                s = self.to_seq(self.eval(a.value))
                if not isinstance(s, (list, tuple)):
                    if a is call.args[-1]:
                        args.append(StarArgs(SSeq(s.len, s.at, kind="tuple", tag=s.tag)))
                        continue
                    s = self.concretize_len(s)
                args.extend(s)
            else:
                args.append(self.eval(a))
        kwargs = {}
        for k in call.keywords:
            if k.arg is None:
                d = self.eval(k.value)
                if isinstance(d, dict):
                    kwargs.update(d)
                else:
                    raise Unsupported("** of non-concrete mapping")
            else:
                kwargs[k.arg] = self.eval(k.value)
        return args, kwargs

    def e_Call(self, e):
        from . import models
        # method calls on modelled builtin types are dispatched by name
        if isinstance(e.func, ast.Attribute):
            recv = self.eval(e.func.value)
            if isinstance(recv, SUnion):
                recv = self.choose(recv)
            args, kwargs = self.eval_args(e)
            if isinstance(recv, SSeq) and isinstance(e.func.value, ast.Name) and e.func.attr in ("append", "insert", "pop", "extend"):
                return self.local_seq_mutation(e.func.value.id, recv, e.func.attr, args)
            if isinstance(recv, list) and not recv and isinstance(e.func.value, ast.Name) and e.func.attr == "extend" and len(args) == 1:
                # a still-empty local list extended by a symbolic-length sequence: the local now denotes that sequence
                from . import loops as _lp
                src = args[0]
                seq = _lp.scat_to_seq(self, src) if isinstance(src, _lp.SCat) else self.to_seq(src)
                if not isinstance(seq, (list, tuple)):
                    f_, cur_ = self.frame.lookup(e.func.value.id)
                    if f_ is not None and cur_ is recv:
                        f_.locals[e.func.value.id] = SSeq(seq.len, seq.at, kind="list", tag=seq.tag)
                        return None
            from . import models as _m
            if isinstance(recv, _m.SuperProxy):
                f = _m.super_getattr(self, recv, e.func.attr)
                return self.call(f, args, kwargs)
            if isinstance(recv, Opaque) and str(recv.tag).startswith("lenient:"):
                return Opaque(f"{recv.tag}.{e.func.attr}()")
            if not isinstance(recv, (SObj, ClassRef, ModuleRef, EnumVal, SEnum)):
                return models.call_method(self, recv, e.func.attr, args, kwargs)
            f = self.getattr(recv, e.func.attr)
            return self.call(f, args, kwargs)
        f = self.eval(e.func)
        # super().method(...) pattern
        args, kwargs = self.eval_args(e)
        return self.call(f, args, kwargs)

    def local_seq_mutation(self, name, seq, method, args):
        """list mutators on a symbolic-length list held by a local variable (no other alias can observe it)."""
        f, cur = self.frame.lookup(name)
        if f is None or cur is not seq:
            raise Unsupported(f"mutation of aliased symbolic list {name}")
        n = zint(seq.len)
        if method == "append":
            f.locals[name] = self.seq_concat(seq, [args[0]])
            return None
        if method == "extend":
            f.locals[name] = self.seq_concat(seq, self.to_seq(args[0]))
            return None
        if method == "insert":
            if isinstance(args[0], int) and args[0] == 0:
                f.locals[name] = self.seq_concat([args[1]], seq)
                return None
            raise Unsupported("insert at non-zero index into symbolic list")
        if method == "pop":
            idx = args[0] if args else -1
            if not self.branch(n > 0):
                raise PyExc(self.mk_exc("IndexError", "pop from empty list"))
            if idx == -1:
                v = self.seq_at(seq, mk_int(n - 1))
                f.locals[name] = self.seq_slice(seq, None, mk_int(n - 1))
                return v
            if idx == 0:
                v = self.seq_at(seq, 0)
                f.locals[name] = self.seq_slice(seq, 1, None)
                return v
            raise Unsupported("pop at symbolic index")
        raise Unsupported(method)

    def eval_slice(self, s):
        if isinstance(s, ast.Slice):
            return slice(self.eval(s.lower) if s.lower else None,
                         self.eval(s.upper) if s.upper else None,
                         self.eval(s.step) if s.step else None)
        return self.eval(s)

    def e_Subscript(self, e):
        from . import models
        c = self.eval(e.value)
        k = self.eval_slice(e.slice)
        return models.getitem(self, c, k)

    def e_ListComp(self, e):
        from . import loops
        return loops.comprehension(self, e, "list")

    def e_GeneratorExp(self, e):
        from . import loops
        return loops.comprehension(self, e, "gen")

    def e_SetComp(self, e):
        from . import loops
        return loops.comprehension(self, e, "set")

    def e_DictComp(self, e):
        from . import loops
        return loops.comprehension(self, e, "dict")

    # ------------------------------------------------------------------ pure boolean evaluation
    def try_pure_boolop(self, e):
        saved = (len(self.decisions), len(self.pc), len(self.obligations), self.steps)
        try:
            vals = [self.pure(x) for x in e.values]
        except _NotPure:
            return NOTPURE
        if not all(isinstance(v, (bool, SBool)) for v in vals):
            return NOTPURE
        zs = [zbool(v) for v in vals]
        return mk_bool(z3.And(*zs) if isinstance(e.op, ast.And) else z3.Or(*zs))

    def pure(self, e, depth=0):
        """Evaluate e only if this needs no fork, no side effect and cannot raise."""
        from . import models
        if depth > 6:
            raise _NotPure()
        if isinstance(e, ast.Constant):
            return e.value
        if isinstance(e, ast.Name):
            f, v = self.frame.lookup(e.id)
            if f is not None:
                return v
            try:
                return self.resolve_global(self.frame.module, e.id)
            except (PyExc, Unsupported):
                raise _NotPure()
        if isinstance(e, ast.Attribute):
            o = self.pure(e.value, depth + 1)
            if isinstance(o, (EnumVal, SEnum)) and e.attr == "value":
                return self.enum_value(o)
            if isinstance(o, ClassRef) and self.is_enum_class(o.name):
                for m in self.enum_members(o.name):
                    if m.name == e.attr:
                        return m
            if not isinstance(o, SObj):
                raise _NotPure()
            if e.attr in o.fields:
                return o.fields[e.attr]
            if e.attr in o.lazy or not isinstance(o.cls, str):
                raise _NotPure()
            for c in self.class_mro(o.cls):
                if (c, e.attr) in self.attr_hooks:
                    raise _NotPure()
            m = self.find_class_member(o.cls, e.attr)
            if m and m[0] == "property":
                body = [s for s in m[1].node.body if not (isinstance(s, ast.Expr) and isinstance(s.value, ast.Constant))]
                if len(body) == 1 and isinstance(body[0], ast.Return) and body[0].value is not None:
                    fr = Frame(m[1], m[1].module, None)
                    fr.locals = {m[1].node.args.args[0].arg: o}
                    self.frames.append(fr)
                    try:
                        return self.pure(body[0].value, depth + 1)
                    finally:
                        self.frames.pop()
            raise _NotPure()
        if isinstance(e, ast.UnaryOp) and isinstance(e.op, ast.Not):
            v = self.pure(e.operand, depth + 1)
            if isinstance(v, (bool, SBool)):
                return mk_bool(z3.Not(zbool(v)))
            raise _NotPure()
        if isinstance(e, ast.BoolOp):
            vals = [self.pure(x, depth + 1) for x in e.values]
            if all(isinstance(v, (bool, SBool)) for v in vals):
                zs = [zbool(v) for v in vals]
                return mk_bool(z3.And(*zs) if isinstance(e.op, ast.And) else z3.Or(*zs))
            raise _NotPure()
        if isinstance(e, ast.Compare) and len(e.ops) == 1:
            a = self.pure(e.left, depth + 1)
            b = self.pure(e.comparators[0], depth + 1)
            op = e.ops[0]
            if isinstance(a, (SUnion, Opaque)) or isinstance(b, (SUnion, Opaque)):
                if not isinstance(op, (ast.Is, ast.IsNot)):
                    raise _NotPure()
            if isinstance(a, SObj) or isinstance(b, SObj):
                if not isinstance(op, (ast.Is, ast.IsNot)):
                    raise _NotPure()
            try:
                if isinstance(op, (ast.In, ast.NotIn)) and not isinstance(b, (frozenset, set, tuple, list)):
                    raise _NotPure()
                r = models.compare(self, op, a, b)
            except (Unsupported, PyExc):
                raise _NotPure()
            if isinstance(r, (bool, SBool)):
                return r
            raise _NotPure()
        raise _NotPure()


class StarArgs:
    """Marker: bind the callee's *args parameter to this (possibly symbolic-length) sequence."""

    def __init__(self, seq):
        self.seq = seq


def _has_quantifier(e, _depth=0):
    if z3.is_quantifier(e):
        return True
    if _depth > 40:
        return False
    return any(_has_quantifier(c, _depth + 1) for c in e.children())


class _NotPure(Exception):
    pass


NOTPURE = object()


def _to_load(t):
    import copy
    t2 = copy.copy(t)
    t2.ctx = ast.Load()
    return t2


# --------------------------------------------------------------------------- explorer
class Explorer:
    """Runs a driver over all feasible paths (fork by replaying decision prefixes)."""

    def __init__(self, index: SourceIndex, max_paths=20000, feas_timeout_ms=250,
                 max_call_depth=40, max_steps=200000, max_unroll=64, shard=(0, 0), initial_work=None, split_until=None, id_base=0, time_budget_s=None):
        self.time_budget_s = time_budget_s
        self.shard = shard
        self.index = index
        self.work: list[list] = [list(p) for p in initial_work] if initial_work is not None else [[]]
        self.split_until = split_until   # breadth-first until this many pending prefixes exist, then stop (they go to sub-tasks)
        self.id_base = id_base
        self.max_paths = max_paths
        self.feas_timeout_ms = feas_timeout_ms
        self.max_call_depth = max_call_depth
        self.max_steps = max_steps
        self.max_unroll = max_unroll
        self.stats = {"feas_checks": 0, "field_writes": 0, "allocs": 0}
        self.covers: dict = {}
        self.paths: list = []
        self.unsupported: list = []
        self.opaque_eq = None

    def push(self, prefix):
        self.work.append(prefix)

    def run(self, driver):
        """driver(P) -> None.  Returns list of (Path, outcome)."""
        results = []
        n = 0
        import time as _time
        t_start = _time.time()
        while self.work:
            if self.time_budget_s is not None and _time.time() - t_start > self.time_budget_s:
                break   # leftover prefixes are handed back to the scheduler
            if self.split_until is not None:
                if len(self.work) >= self.split_until:
                    break
                prefix = self.work.pop(0)
            else:
                prefix = self.work.pop()
            n += 1
            if n > self.max_paths:
                self.unsupported.append(("<explorer>", f"path budget {self.max_paths} exceeded"))
                break
            P = Path(self, prefix, self.id_base + n)
            try:
                driver(P)
                status = "ok"
            except PathEnd:
                status = "cut"
            except Unsupported as u:
                status = "unsupported:" + str(u)
            k, D = self.shard
            if P.nforks < D and (k >> P.nforks) != 0:
                continue  # duplicate of a path owned by a lower shard
            if status.startswith("unsupported:"):
                self.unsupported.append((P.path_id, status[12:]))
            results.append((P, status))
        self.paths = results
        return results
