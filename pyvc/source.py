"""Index of the real source tree (re-read on every run)."""
from __future__ import annotations

import ast
import hashlib
import os
from pathlib import Path

REPO_SRC = Path(os.environ.get("VERIF_REPO_SRC", "/repo/src"))


class ModuleInfo:
    def __init__(self, name: str, path: Path):
        self.name = name
        self.path = path
        self.text = path.read_text(encoding="utf8")
        self.tree = ast.parse(self.text)
        self.functions: dict[str, ast.FunctionDef] = {}
        self.classes: dict[str, ast.ClassDef] = {}
        self.assigns: dict[str, ast.AST] = {}  # name -> value expr (last top-level assignment)
        self.imports: dict[str, tuple[str, str | None]] = {}  # local name -> (module, attr|None)
        self._index(self.tree.body)

    def _index(self, body):
        for st in body:
            if isinstance(st, (ast.FunctionDef, ast.AsyncFunctionDef)):
                self.functions[st.name] = st
            elif isinstance(st, ast.ClassDef):
                self.classes[st.name] = st
            elif isinstance(st, ast.Assign):
                for t in st.targets:
                    if isinstance(t, ast.Name):
                        self.assigns[t.id] = st.value
            elif isinstance(st, ast.AnnAssign):
                if isinstance(st.target, ast.Name) and st.value is not None:
                    self.assigns[st.target.id] = st.value
            elif isinstance(st, ast.Import):
                for a in st.names:
                    if a.asname:
                        self.imports[a.asname] = (a.name, None)
                    else:
                        self.imports[a.name.split(".")[0]] = (a.name.split(".")[0], None)
            elif isinstance(st, ast.ImportFrom):
                mod = st.module or ""
                for a in st.names:
                    self.imports[a.asname or a.name] = (mod, a.name)
            elif isinstance(st, ast.If):
                # `if TYPE_CHECKING:` imports are indexed too (only used for name lookup);
                # version checks: index both arms (later wins)
                self._index(st.body)
                self._index(st.orelse)
            elif isinstance(st, ast.Try):
                self._index(st.body)
                for h in st.handlers:
                    self._index(h.body)


class SourceIndex:
    def __init__(self, root: Path | None = None):
        self.root = Path(root) if root else REPO_SRC
        self.modules: dict[str, ModuleInfo] = {}

    def module(self, name: str) -> ModuleInfo | None:
        if name in self.modules:
            return self.modules[name]
        rel = name.replace(".", "/")
        for cand in (self.root / (rel + ".py"), self.root / rel / "__init__.py"):
            if cand.exists():
                mi = ModuleInfo(name, cand)
                self.modules[name] = mi
                return mi
        return None

    def find_function(self, spec: str):
        """spec = 'pkg.mod:func' or 'pkg.mod:Class.method' -> (ModuleInfo, node, classname|None)."""
        modname, qual = spec.split(":")
        mi = self.module(modname)
        if mi is None:
            raise KeyError(f"unbound anchor: module {modname}")
        parts = qual.split(".")
        if len(parts) == 1:
            if parts[0] not in mi.functions:
                raise KeyError(f"unbound anchor: {spec}")
            return mi, mi.functions[parts[0]], None
        cls = mi.classes.get(parts[0])
        if cls is None:
            raise KeyError(f"unbound anchor: {spec}")
        want = parts[1]
        kind = None
        if "@" in want:  # 'name@setter'
            want, kind = want.split("@")
        for st in cls.body:
            if isinstance(st, (ast.FunctionDef, ast.AsyncFunctionDef)) and st.name == want:
                decos = [ast.unparse(d) for d in st.decorator_list]
                if kind is None and not any(d.endswith(".setter") or d.endswith(".deleter") for d in decos):
                    return mi, st, parts[0]
                if kind and any(d.endswith("." + kind) for d in decos):
                    return mi, st, parts[0]
        raise KeyError(f"unbound anchor: {spec}")

    def class_info(self, name: str):
        """Find class by bare name across loaded _griffe modules -> (ModuleInfo, ClassDef) or None."""
        for mi in list(self.modules.values()):
            if name in mi.classes:
                return mi, mi.classes[name]
        return None

    def load_all(self, package="_griffe"):
        base = self.root / package
        for p in sorted(base.rglob("*.py")):
            rel = p.relative_to(self.root).with_suffix("")
            parts = list(rel.parts)
            if parts[-1] == "__init__":
                parts = parts[:-1]
            self.module(".".join(parts))

    def mro(self, clsname: str) -> list[str]:
        """Linearised ancestor names (C3 over source-defined classes; unknown bases kept as leaves)."""
        seen = {}

        def bases_of(n):
            ci = self.class_info(n)
            if ci is None:
                return []
            out = []
            for b in ci[1].bases:
                if isinstance(b, ast.Name):
                    out.append(b.id)
                elif isinstance(b, ast.Attribute):
                    out.append(b.attr)
                elif isinstance(b, ast.Subscript) and isinstance(b.value, ast.Name):
                    out.append(b.value.id)
            return out

        def lin(n):
            if n in seen:
                return seen[n]
            bs = bases_of(n)
            seqs = [lin(b)[:] for b in bs] + [bs[:]]
            res = [n]
            while any(seqs):
                for s in seqs:
                    if not s:
                        continue
                    h = s[0]
                    if not any(h in t[1:] for t in seqs):
                        break
                else:
                    raise ValueError("inconsistent MRO for " + n)
                res.append(h)
                for s in seqs:
                    if s and s[0] == h:
                        del s[0]
            seen[n] = res
            return res

        return lin(clsname)


def func_hash(node: ast.AST) -> str:
    return hashlib.sha256(ast.dump(node, include_attributes=False).encode()).hexdigest()[:16]
