"""Native bounded tier / replay for C11: generated packages x edit catalogue (two-version histories), real loader + find_breaking_changes."""
import itertools
import json
import logging
import sys
import tempfile
import time
from pathlib import Path

logging.disable(logging.CRITICAL)

from _griffe.diff import find_breaking_changes  # noqa: E402
from _griffe.loader import GriffeLoader  # noqa: E402

BASE = {
    "pkg/__init__.py": "from pkg._impl import Foo, helper\nfrom pkg.api import *\nfrom pkg import api\n__all__ = ['Foo', 'helper', 'api', 'public_func', 'CONST']\n",
    "pkg/api.py": "from pkg._core import Base\n__all__ = ['public_func', 'CONST', 'Child', 'Base']\nCONST = 1\n_private_const = 2\n"
                  "def public_func(a, b=1):\n    return a\ndef _private_func(a):\n    return a\nclass Child(Base):\n    own = 1\n    def method(self, x):\n        return x\n",
    "pkg/_core.py": "class Mixin:\n    mixed = 0\nclass Base(Mixin):\n    inherited_attr = 1\n    def inherited_method(self, y):\n        return y\n",
    "pkg/_impl.py": "class Foo:\n    attr = 1\n    def meth(self):\n        pass\ndef helper(x):\n    return x\n_hidden = 3\n",
    "pkg/plain.py": "value = 10\ndef func(p, q=2):\n    return p\nclass Klass:\n    member = 5\n",
}

# (description, file, old text, new text, breaking?, public path fragments one of which must be reported)
EDITS = [
    ("identical", None, None, None, False, []),
    ("add public function", "pkg/plain.py", "value = 10\n", "value = 10\ndef added():\n    pass\n", False, []),
    ("add optional keyword parameter", "pkg/plain.py", "def func(p, q=2):", "def func(p, q=2, *, extra=None):", False, []),
    ("change private function", "pkg/api.py", "def _private_func(a):", "def _private_func(a, b, c):", False, []),
    ("remove private constant", "pkg/api.py", "_private_const = 2\n", "", False, []),
    ("change private module attribute", "pkg/_impl.py", "_hidden = 3", "_hidden = 4", False, []),
    ("add public class member", "pkg/plain.py", "    member = 5\n", "    member = 5\n    other = 6\n", False, []),
    ("remove public function", "pkg/plain.py", "def func(p, q=2):\n    return p\n", "", True, ["pkg.plain.func"]),
    ("remove public attribute", "pkg/plain.py", "value = 10\n", "", True, ["pkg.plain.value"]),
    ("remove public class", "pkg/plain.py", "class Klass:\n    member = 5\n", "", True, ["pkg.plain.Klass"]),
    ("remove public module", "pkg/plain.py", None, None, True, ["pkg.plain"]),
    ("change kind function->attribute", "pkg/plain.py", "def func(p, q=2):\n    return p\n", "func = 1\n", True, ["pkg.plain.func"]),
    ("change kind class->function", "pkg/plain.py", "class Klass:\n    member = 5\n", "def Klass():\n    pass\n", True, ["pkg.plain.Klass"]),
    ("change public attribute value", "pkg/plain.py", "value = 10", "value = 11", True, ["pkg.plain.value"]),
    ("change exported attribute value", "pkg/api.py", "CONST = 1", "CONST = 2", True, ["pkg.api.CONST", "pkg.CONST"]),
    ("remove base class", "pkg/api.py", "class Child(Base):", "class Child:", True, ["pkg.api.Child"]),
    ("replace base class (the old base is removed, another one takes its place)", "pkg/api.py", "class Child(Base):", "class Child(Exception):", True, ["pkg.api.Child"]),
    ("remove re-exported object (only reachable through __all__)", "pkg/__init__.py", "from pkg._impl import Foo, helper\nfrom pkg.api import *\nfrom pkg import api\n__all__ = ['Foo', 'helper', ",
     "from pkg._impl import Foo\nfrom pkg.api import *\nfrom pkg import api\n__all__ = ['Foo', ", True, ["pkg.helper", "pkg._impl.helper"]),
    ("remove member of re-exported class", "pkg/_impl.py", "    def meth(self):\n        pass\n", "", True, ["pkg.Foo.meth", "pkg._impl.Foo.meth"]),
    ("change value of member of re-exported class", "pkg/_impl.py", "    attr = 1", "    attr = 2", True, ["pkg.Foo.attr", "pkg._impl.Foo.attr"]),
    ("remove inherited member (base in private module)", "pkg/_core.py", "    def inherited_method(self, y):\n        return y\n", "", True, ["inherited_method"]),
    ("change value of inherited member (base in private module)", "pkg/_core.py", "    inherited_attr = 1", "    inherited_attr = 2", True, ["inherited_attr"]),
    ("change value of member inherited through two levels", "pkg/_core.py", "    mixed = 0", "    mixed = 9", True, ["mixed"]),
    ("unresolvable re-export on both sides (skipped, not aborted)", "pkg/__init__.py", "from pkg import api\n", "from pkg import api\nfrom nowhere_pkg import ghost\n", False, []),
]
# old version exports a name whose import cannot be resolved; the new version drops it: must not abort (reporting it or not is left open)
UNRESOLVABLE_OLD = dict(BASE)
UNRESOLVABLE_OLD["pkg/__init__.py"] = BASE["pkg/__init__.py"].replace("__all__ = [", "from nowhere_pkg import ghost\n__all__ = ['ghost', ")
CYCLE = {"pkg/__init__.py": "from pkg.a import x\n__all__ = ['x']\n", "pkg/a.py": "from pkg.b import x\n", "pkg/b.py": "from pkg.a import x\n"}


def write(root, files):
    for rel, text in files.items():
        p = Path(root) / rel
        p.parent.mkdir(parents=True, exist_ok=True)
        p.write_text(text)


def load(root):
    ld = GriffeLoader(search_paths=[str(root)], allow_inspection=False)
    pkg = ld.load("pkg")
    ld.resolve_aliases(implicit=False, external=False)
    return pkg


def run_edit(desc, rel, old_text, new_text, breaking, paths):
    problems = []
    with tempfile.TemporaryDirectory() as t1, tempfile.TemporaryDirectory() as t2:
        write(t1, BASE)
        files = dict(BASE)
        if rel is not None:
            if old_text is None:
                del files[rel]
            else:
                if old_text not in files[rel]:
                    return [f"edit '{desc}' does not apply to the fixture"]
                files[rel] = files[rel].replace(old_text, new_text, 1)
        write(t2, files)
        try:
            old, new = load(t1), load(t2)
            brs = list(find_breaking_changes(old, new))
        except BaseException as e:  # noqa: BLE001
            return [f"'{desc}': comparison aborted with {type(e).__name__}: {str(e)[:80]}"]
        reported = [(type(b).__name__, b.obj.path) for b in brs]
        if not breaking and brs:
            problems.append(f"'{desc}' is compatible but reported {reported}")
        if breaking:
            if not brs:
                problems.append(f"'{desc}' not reported at all")
            elif not any(any(frag in path for frag in paths) for _, path in reported):
                problems.append(f"'{desc}' reported only against {reported}, none of {paths}")
        for kind, path in reported:
            parts = path.split(".")
            if any(p.startswith("_") and not p.startswith("__") for p in parts) and not any(frag in path for frag in paths):
                problems.append(f"'{desc}': private object reported: {kind} {path}")
    return problems


def sweep(budget_s=120):
    t0 = time.time()
    bad, n = [], 0
    for e in EDITS:
        if time.time() - t0 > budget_s:
            break
        n += 1
        pr = run_edit(*e)
        if pr:
            bad.append({"edit": e[0], "problems": pr, "signature": "edit:" + e[0]})
    with tempfile.TemporaryDirectory() as t1, tempfile.TemporaryDirectory() as t2:
        write(t1, UNRESOLVABLE_OLD)
        write(t2, BASE)
        n += 1
        try:
            list(find_breaking_changes(load(t1), load(t2)))
        except BaseException as ex:  # noqa: BLE001
            bad.append({"edit": "dropped unresolvable re-export", "problems": [f"comparison aborted with {type(ex).__name__}"], "signature": "edit:dropped unresolvable re-export"})
    # cyclic re-export: must be skipped, not abort
    with tempfile.TemporaryDirectory() as t1, tempfile.TemporaryDirectory() as t2:
        write(t1, CYCLE)
        write(t2, CYCLE)
        n += 1
        try:
            list(find_breaking_changes(load(t1), load(t2)))
        except BaseException as ex:  # noqa: BLE001
            bad.append({"edit": "cyclic re-export", "problems": [f"comparison aborted with {type(ex).__name__}"], "signature": "edit:cyclic re-export"})
    return {"cases": n, "bad": bad}


# ----------------------------------------------------------------------------- generated packages x edits at random public / private locations
def gen_package(rnd):
    """-> (files, catalogue of objects): modules pub0/pub1 (public) and _impl (private); every module lists its public names in __all__;
    pkg/__init__ re-exports some objects (listed in its __all__) and merely imports others."""
    import random  # noqa: F401
    mods, objects = {}, []
    for mname in ("pub0", "pub1", "_impl"):
        lines, exported = [], []
        n_obj = rnd.randint(2, 4)
        for i in range(n_obj):
            private = rnd.random() < 0.3
            name = ("_" if private else "") + f"{rnd.choice(['alpha', 'beta', 'gamma', 'delta'])}{i}"
            kind = rnd.choice(["attribute", "function", "class", "class_with_base"])
            if kind == "attribute":
                text = f"{name} = {rnd.randint(1, 9)}\n"
            elif kind == "function":
                text = f"def {name}(a, b=1):\n    return a\n"
            else:
                base = "(Root)" if kind == "class_with_base" else ""
                text = f"class {name}{base}:\n    member = {rnd.randint(1, 9)}\n    _hidden = 0\n    def method(self, x):\n        return x\n"
            lines.append(text)
            if not private:
                exported.append(name)
            objects.append({"module": mname, "name": name, "kind": "class" if kind.startswith("class") else kind, "has_base": kind == "class_with_base",
                            "private_name": private, "text": text})
        head = "class Root:\n    root_member = 0\n" if any(o["has_base"] and o["module"] == mname for o in objects) else ""
        mods[mname] = (head, lines, exported)
    # re-exports from the package __init__
    reexp, imported_only = [], []
    for o in objects:
        if o["private_name"]:
            continue
        r = rnd.random()
        if r < 0.35:
            reexp.append(o)
        elif r < 0.5:
            imported_only.append(o)
    seen_names = set()
    init = []
    for o in reexp + imported_only:
        if o["name"] in seen_names:
            continue
        seen_names.add(o["name"])
        init.append(f"from pkg.{o['module']} import {o['name']}\n")
        o["reexported"] = o in reexp
        o["imported_in_init"] = True
    init.append("__all__ = [" + ", ".join(repr(o["name"]) for o in reexp if o.get("imported_in_init") and o.get("reexported")) + "]\n")
    files = {"pkg/__init__.py": "".join(init)}
    for mname, (head, lines, exported) in mods.items():
        files[f"pkg/{mname}.py"] = head + "".join(lines) + "__all__ = [" + ", ".join(repr(n) for n in exported + (["Root"] if head else [])) + "]\n"
    for o in objects:
        module_public = not o["module"].startswith("_")
        o["public"] = (not o["private_name"]) and (module_public or bool(o.get("reexported")))
    return files, objects


def gen_edit(rnd, files, objects):
    """-> (description, new files, breaking?, object) for one edit at a random location."""
    o = rnd.choice(objects)
    rel = f"pkg/{o['module']}.py"
    new = dict(files)
    kinds = ["remove", "rekind", "add_object", "add_optional_parameter"]
    if o["kind"] == "attribute":
        kinds.append("change_value")
    if o["kind"] == "class":
        kinds += ["remove_member", "change_member_value", "change_hidden_member"] + (["remove_base", "replace_base", "add_base"] if o["has_base"] else [])
    e = rnd.choice(kinds)
    src = files[rel]
    drop_from_all = lambda text: text.replace(repr(o["name"]) + ", ", "").replace(", " + repr(o["name"]), "").replace(repr(o["name"]), "")  # noqa: E731
    breaking = o["public"]
    if e == "remove":
        new[rel] = drop_from_all(src.replace(o["text"], "", 1))
        if o.get("imported_in_init"):
            new["pkg/__init__.py"] = drop_from_all(files["pkg/__init__.py"].replace(f"from pkg.{o['module']} import {o['name']}\n", ""))
    elif e == "rekind":
        repl = f"def {o['name']}():\n    pass\n" if o["kind"] != "function" else f"{o['name']} = 0\n"
        new[rel] = src.replace(o["text"], repl, 1)
    elif e == "change_value":
        new[rel] = src.replace(o["text"], f"{o['name']} = 'changed'\n", 1)
    elif e == "remove_base":
        new[rel] = src.replace(o["text"], o["text"].replace("(Root)", "", 1), 1)
    elif e == "replace_base":
        # another base takes the place of the old one: the old base is removed all the same
        new[rel] = "class OtherRoot:\n    pass\n" + src.replace(o["text"], o["text"].replace("(Root)", "(OtherRoot)", 1), 1)
    elif e == "add_base":
        new[rel] = "class OtherRoot:\n    pass\n" + src.replace(o["text"], o["text"].replace("(Root)", "(Root, OtherRoot)", 1), 1)
        breaking = False
    elif e == "remove_member":
        new[rel] = src.replace(o["text"], o["text"].replace("    def method(self, x):\n        return x\n", "", 1), 1)
    elif e == "change_member_value":
        new[rel] = src.replace(o["text"], o["text"].replace("    member = ", "    member = 7", 1), 1)
    elif e == "change_hidden_member":
        new[rel] = src.replace(o["text"], o["text"].replace("    _hidden = 0", "    _hidden = 1", 1), 1)
        breaking = False
    elif e == "add_object":
        new[rel] = f"brand_new_{rnd.randint(0, 99)} = 1\n" + src
        breaking = False
    else:
        if o["kind"] != "function":
            return None
        new[rel] = src.replace(o["text"], o["text"].replace("(a, b=1)", "(a, b=1, *, extra=None)"), 1)
        breaking = False
    if new == files:
        return None
    return f"{e} {o['module']}.{o['name']} ({'public' if o['public'] else 'not public'})", new, breaking, o


def random_histories(seed, n, budget_s):
    import random
    rnd = random.Random(seed)
    t0 = time.time()
    bad, cases, sigs = [], 0, set()
    for _ in range(n):
        if time.time() - t0 > budget_s or len(bad) >= 5:
            break
        files, objects = gen_package(rnd)
        ed = None
        for _try in range(5):
            ed = gen_edit(rnd, files, objects)
            if ed:
                break
        if not ed:
            continue
        desc, new_files, breaking, o = ed
        with tempfile.TemporaryDirectory() as t1, tempfile.TemporaryDirectory() as t2:
            write(t1, files)
            write(t2, new_files)
            cases += 1
            try:
                brs = list(find_breaking_changes(load(t1), load(t2)))
            except BaseException as e:  # noqa: BLE001
                pr = [f"comparison aborted with {type(e).__name__}: {str(e)[:80]}"]
            else:
                reported = [(type(b).__name__, b.obj.path) for b in brs]
                pr = []
                if breaking and not any(o["name"] in path.split(".") for _, path in reported):
                    pr.append(f"'{desc}' is incompatible for users but nothing is reported against {o['name']}: {reported}")
                if not breaking and reported:
                    pr.append(f"'{desc}' changes nothing users can rely on but is reported: {reported}")
            if pr:
                sig = "history:" + desc.split(" ")[0] + (":public" if o["public"] else ":not-public") + (":reexported" if o.get("reexported") else "") + (":private-module" if o["module"].startswith("_") else "")
                if sig not in sigs:
                    sigs.add(sig)
                    bad.append({"edit": desc, "problems": pr, "old": files, "new": {k: v for k, v in new_files.items() if files.get(k) != v}, "signature": sig})
    return {"cases": cases, "bad": bad}


def replay_edit_scripts(w, obligation, expects):
    r = sweep(90)
    b = r["bad"]
    return {"reproduced": bool(b), "detail": (json.dumps(b[0])[:600] if b else f"statement holds on {r['cases']} two-version histories"), "signature": b[0]["signature"] if b else "ok"}


if __name__ == "__main__":
    if len(sys.argv) > 1 and sys.argv[1] == "random":
        print(json.dumps(random_histories(int(sys.argv[2]), int(sys.argv[3]), float(sys.argv[4]))))
    else:
        print(json.dumps(sweep(int(sys.argv[1]) if len(sys.argv) > 1 else 120)))


from replay.C01 import replay_visibility  # noqa: E402,F401  (replay of the table.is_public obligation shared with C01)
