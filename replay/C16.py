"""Native replays for C16: scenario sweeps on the real object API, checking the statement's invariants after every step."""
import itertools

from _griffe.collections import ModulesCollection
from _griffe.exceptions import CyclicAliasError
from _griffe.models import Alias, Attribute, Class, Function, Module


def walk(obj, seen=None):
    seen = seen if seen is not None else set()
    if id(obj) in seen:
        return
    seen.add(id(obj))
    yield obj
    if getattr(obj, "is_alias", False):
        return
    for m in obj.members.values():
        yield from walk(m, seen)


def invariants(coll):
    """Violations of the C16 statement on the current state of the collection."""
    bad = []
    for top_name, top in coll.members.items():
        if top._modules_collection is not coll and top.parent is None:
            bad.append(f"top-level {top_name} not linked to the collection")
        for obj in walk(top):
            if not obj.is_alias:
                for n, m in obj.members.items():
                    if m.parent is not obj:
                        bad.append(f"{obj.path}.members[{n!r}].parent is not its container")
                    if m.name != n and not n.endswith("/*"):
                        bad.append(f"member keyed {n!r} is named {m.name!r}")
            try:
                got = coll.get_member(obj.path)
            except KeyError:
                bad.append(f"{obj.path} not retrievable from the collection by its own path")
            else:
                if got is not obj:
                    bad.append(f"lookup of {obj.path} returns another object")
                parts = obj.path.split(".")
                cur = coll
                for p in parts:
                    cur = cur.get_member(p)
                if cur is not got:
                    bad.append(f"dotted lookup differs from chained lookup for {obj.path}")
            if obj.is_alias and obj.resolved:
                t = obj._target
                if t is obj:
                    bad.append(f"alias {obj.path} targets itself")
                elif t.aliases.get(obj.path) is not obj:
                    bad.append(f"resolved alias {obj.path} is not listed among its target's aliases under its current path (keys: {sorted(t.aliases)})")
    return bad


def mk(kind, name):
    return {"Module": Module, "Class": Class, "Function": Function, "Attribute": Attribute}[kind](name)


def scenarios():
    """(description, callable(coll) performing operations) -- small but covering every operation and key form."""
    out = []
    for setter, kind_new, kind_old in itertools.product(("set_member", "__setitem__"), ("Function", "Attribute", "Class"), (None, "Function", "Class")):
        def sc(coll, setter=setter, kind_new=kind_new, kind_old=kind_old):
            m = Module("m")
            coll.set_member("m", m)
            c = Class("C")
            m.set_member("C", c)
            if kind_old:
                old = mk(kind_old, "x")
                c.set_member("x", old)
                al = Alias("y", old)        # resolved alias pointing at the member to be replaced
                m.set_member("y", al)
                assert al.target is old
            new = mk(kind_new, "x")
            if setter == "set_member":
                m.set_member("C.x", new)
            else:
                m["C.x"] = new
            extra = []
            if kind_old and setter == "set_member":
                if m.members["y"].target is not new:
                    extra.append("alias pointing at a replaced object did not follow the replacement")
            if coll.get_member("m.C.x") is not new or coll.get_member(("m", "C", "x")) is not new:
                extra.append("inserted value not retrievable under its key")
            return extra
        out.append((f"{setter} {kind_new} over {kind_old}", sc))
    for how, where in itertools.product(("del_member", "__delitem__"), ("module", "class", "collection", "dotted", "tuple")):
        def sc(coll, how=how, where=where):
            m = Module("m")
            coll.set_member("m", m)
            c = Class("C")
            m.set_member("C", c)
            c.set_member("meth", Function("meth"))
            m.set_member("f", Function("f"))
            extra = []
            tgt, key, holder, name = {
                "module": (m, "f", m, "f"), "class": (c, "meth", c, "meth"), "collection": (coll, "m", coll, "m"),
                "dotted": (m, "C.meth", c, "meth"), "tuple": (coll, ("m", "C", "meth"), c, "meth")}[where]
            if how == "del_member":
                tgt.del_member(key)
            else:
                del tgt[key]
            if name in holder.members:
                extra.append(f"{how}({key!r}) left the member in place")
            try:
                tgt.del_member(key)
                extra.append("deleting a missing member did not raise KeyError")
            except KeyError:
                pass
            return extra
        out.append((f"{how} in {where}", sc))

    def alias_parent(coll):
        # alias built under a detached parent, parent attached later, alias (re)inserted
        m = Module("m")
        coll.set_member("m", m)
        t = Function("t")
        m.set_member("t", t)
        c = Class("C")
        al = Alias("x", t, parent=c)
        m.set_member("C", c)
        c.set_member("x", al)
        return []
    out.append(("alias parent set before the container is attached", alias_parent))

    def bottom_up(coll):
        # bottom-up construction: the class already holds a resolved alias when it is attached to its module
        m = Module("m")
        coll.set_member("m", m)
        t = Function("t")
        m.set_member("t", t)
        c = Class("C")
        c.set_member("x", Alias("x", t))
        m.set_member("C", c)
        return []
    out.append(("alias parent set before the container is attached (no re-insertion)", bottom_up))

    def alias_self(coll):
        m = Module("m")
        coll.set_member("m", m)
        al = Alias("a", "m.b")
        m.set_member("a", al)
        extra = []
        for val in (al, Alias("a", "zzz", parent=m)):
            try:
                al.target = val
                extra.append("alias was made to target itself / its own path")
            except CyclicAliasError:
                pass
        al._target = None
        return extra
    out.append(("alias self-target guard", alias_self))

    def retarget(coll):
        m = Module("m")
        coll.set_member("m", m)
        f = Function("f")
        m.set_member("f", f)
        al = Alias("g", "m.f")
        m.set_member("g", al)
        assert al.target is f
        f2 = Function("f")
        m.set_member("f", f2)
        extra = []
        if al.target is not f2:
            extra.append("alias did not follow replacement through set_member")
        n = Function("h")
        m.set_member("h", n)
        al.target = n
        if al.target_path != "m.h" or n.aliases.get("m.g") is not al:
            extra.append("target setter did not update target_path / aliases listing")
        return extra
    out.append(("retarget on replacement", retarget))
    return out


def run_all(filter_words=()):
    problems = []
    for desc, sc in scenarios():
        coll = ModulesCollection()
        try:
            extra = sc(coll)
            bad = extra + invariants(coll)
        except Exception as e:  # noqa: BLE001
            bad = [f"raised {type(e).__name__}: {e}"]
        problems.extend(f"[{desc}] {b}" for b in bad)
    return problems


KNOWN_SIG = "alias-parent-before-attach"


def _result(problems):
    # the bottom-up construction case is a recorded finding on the pinned tree (C16-F1); report others first
    new = [p for p in problems if "(no re-insertion)" not in p]
    use = new or problems
    return {"reproduced": bool(use), "detail": "; ".join(use[:3]) or "all tree invariants hold on the scenario sweep",
            "signature": (KNOWN_SIG if not new and problems else "tree:" + (use[0] if use else "ok"))}


def replay_tree_ops(w, obligation, expects):
    return _result(run_all())


def replay_alias_links(w, obligation, expects):
    return _result(run_all())


def replay_get_parts(w, obligation, expects):
    from _griffe.mixins import _get_parts
    problems = []
    for key, exp in (("", ValueError), ((), ValueError), ([], ValueError), ("a", ["a"]), ("a.b", ["a", "b"]), (("a", "b"), ["a", "b"]), (["x"], ["x"])):
        try:
            r = list(_get_parts(key))
        except Exception as e:  # noqa: BLE001
            r = type(e)
        if r != exp:
            problems.append(f"_get_parts({key!r}) = {r!r}, expected {exp!r}")
    return {"reproduced": bool(problems), "detail": "; ".join(problems) or "ok", "signature": "get_parts:" + (problems[0] if problems else "ok")}


if __name__ == "__main__":
    import json
    probs = run_all()
    print(json.dumps({"scenarios": len(scenarios()), "problems": [
        {"problem": p, "signature": KNOWN_SIG if "(no re-insertion)" in p else "tree:" + p} for p in probs]}))
