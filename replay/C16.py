"""Native replays for C16: scenario sweeps on the real object API, checking the statement's invariants after every step."""
import itertools
import re

from _griffe.collections import ModulesCollection
from _griffe.exceptions import CyclicAliasError
from _griffe.models import Alias, Attribute, Class, Function, Module


def walk(obj, seen=None):
    seen = seen if seen is not None else set()
    if id(obj) in seen:
        return
    seen.add(id(obj))
    yield obj
    if getattr(obj, "is_alias", False):
        return
    for m in obj.members.values():
        yield from walk(m, seen)


def invariants(coll):
    """Violations of the C16 statement on the current state of the collection."""
    bad = []
    for top_name, top in coll.members.items():
        if top._modules_collection is not coll and top.parent is None:
            bad.append(f"top-level {top_name} not linked to the collection")
        for obj in walk(top):
            if not obj.is_alias:
                for n, m in obj.members.items():
                    if m.parent is not obj:
                        bad.append(f"{obj.path}.members[{n!r}].parent is not its container")
                    if m.name != n and not n.endswith("/*"):
                        bad.append(f"member keyed {n!r} is named {m.name!r}")
            try:
                got = coll.get_member(obj.path)
            except KeyError:
                bad.append(f"{obj.path} not retrievable from the collection by its own path")
            else:
                if got is not obj:
                    bad.append(f"lookup of {obj.path} returns another object")
                parts = obj.path.split(".")
                cur = coll
                for p in parts:
                    cur = cur.get_member(p)
                if cur is not got:
                    bad.append(f"dotted lookup differs from chained lookup for {obj.path}")
            if obj.is_alias and obj.resolved:
                t = obj._target
                if t is obj:
                    bad.append(f"alias {obj.path} targets itself")
                elif t.aliases.get(obj.path) is not obj:
                    other = t.aliases.get(obj.path)
                    holder = ""
                    if other is not None:
                        try:
                            detached = coll.get_member(other.path) is not other
                        except Exception:  # noqa: BLE001
                            detached = True
                        holder = " [slot held by a detached alias]" if detached else " [slot held by another live alias]"
                    bad.append(f"resolved alias {obj.path} is not listed among its target's aliases under its current path (keys: {sorted(t.aliases)}){holder}")
    return bad


def mk(kind, name):
    return {"Module": Module, "Class": Class, "Function": Function, "Attribute": Attribute}[kind](name)


def scenarios():
    """(description, callable(coll) performing operations) -- small but covering every operation and key form."""
    out = []
    for setter, kind_new, kind_old in itertools.product(("set_member", "__setitem__"), ("Function", "Attribute", "Class"), (None, "Function", "Class")):
        def sc(coll, setter=setter, kind_new=kind_new, kind_old=kind_old):
            m = Module("m")
            coll.set_member("m", m)
            c = Class("C")
            m.set_member("C", c)
            if kind_old:
                old = mk(kind_old, "x")
                c.set_member("x", old)
                al = Alias("y", old)        # resolved alias pointing at the member to be replaced
                m.set_member("y", al)
                assert al.target is old
            new = mk(kind_new, "x")
            if setter == "set_member":
                m.set_member("C.x", new)
            else:
                m["C.x"] = new
            extra = []
            if kind_old and setter == "set_member":
                if m.members["y"].target is not new:
                    extra.append("alias pointing at a replaced object did not follow the replacement")
            if coll.get_member("m.C.x") is not new or coll.get_member(("m", "C", "x")) is not new:
                extra.append("inserted value not retrievable under its key")
            return extra
        out.append((f"{setter} {kind_new} over {kind_old}", sc))
    for how, where in itertools.product(("del_member", "__delitem__"), ("module", "class", "collection", "dotted", "tuple")):
        def sc(coll, how=how, where=where):
            m = Module("m")
            coll.set_member("m", m)
            c = Class("C")
            m.set_member("C", c)
            c.set_member("meth", Function("meth"))
            m.set_member("f", Function("f"))
            extra = []
            tgt, key, holder, name = {
                "module": (m, "f", m, "f"), "class": (c, "meth", c, "meth"), "collection": (coll, "m", coll, "m"),
                "dotted": (m, "C.meth", c, "meth"), "tuple": (coll, ("m", "C", "meth"), c, "meth")}[where]
            if how == "del_member":
                tgt.del_member(key)
            else:
                del tgt[key]
            if name in holder.members:
                extra.append(f"{how}({key!r}) left the member in place")
            try:
                tgt.del_member(key)
                extra.append("deleting a missing member did not raise KeyError")
            except KeyError:
                pass
            return extra
        out.append((f"{how} in {where}", sc))

    def alias_parent(coll):
        # alias built under a detached parent, parent attached later, alias (re)inserted
        m = Module("m")
        coll.set_member("m", m)
        t = Function("t")
        m.set_member("t", t)
        c = Class("C")
        al = Alias("x", t, parent=c)
        m.set_member("C", c)
        c.set_member("x", al)
        return []
    out.append(("alias parent set before the container is attached", alias_parent))

    def bottom_up(coll):
        # bottom-up construction: the class already holds a resolved alias when it is attached to its module
        m = Module("m")
        coll.set_member("m", m)
        t = Function("t")
        m.set_member("t", t)
        c = Class("C")
        c.set_member("x", Alias("x", t))
        m.set_member("C", c)
        return []
    out.append(("alias parent set before the container is attached (no re-insertion)", bottom_up))

    def alias_self(coll):
        m = Module("m")
        coll.set_member("m", m)
        al = Alias("a", "m.b")
        m.set_member("a", al)
        extra = []
        for val in (al, Alias("a", "zzz", parent=m)):
            try:
                al.target = val
                extra.append("alias was made to target itself / its own path")
            except CyclicAliasError:
                pass
        al._target = None
        return extra
    out.append(("alias self-target guard", alias_self))

    def retarget(coll):
        m = Module("m")
        coll.set_member("m", m)
        f = Function("f")
        m.set_member("f", f)
        al = Alias("g", "m.f")
        m.set_member("g", al)
        assert al.target is f
        f2 = Function("f")
        m.set_member("f", f2)
        extra = []
        if al.target is not f2:
            extra.append("alias did not follow replacement through set_member")
        n = Function("h")
        m.set_member("h", n)
        al.target = n
        if al.target_path != "m.h" or n.aliases.get("m.g") is not al:
            extra.append("target setter did not update target_path / aliases listing")
        return extra
    out.append(("retarget on replacement", retarget))
    return out


def run_all(filter_words=()):
    problems = []
    for desc, sc in scenarios():
        coll = ModulesCollection()
        try:
            extra = sc(coll)
            bad = extra + invariants(coll)
        except Exception as e:  # noqa: BLE001
            bad = [f"raised {type(e).__name__}: {e}"]
        problems.extend(f"[{desc}] {b}" for b in bad)
    return problems


class History:
    """One history on the real API next to a reference dictionary (dotted path -> object expected there).  Top-down construction only
    (containers are attached before they are filled: the bottom-up case is the recorded finding C16-F1)."""

    def __init__(self, names):
        self.names = names
        self.coll = ModulesCollection()
        self.ref = {}
        top = Module("m")
        self.coll.set_member("m", top)
        self.ref["m"] = top
        self.trace = ["coll['m'] = Module"]

    def containers(self):
        return [p for p, o in self.ref.items() if not o.is_alias and (o.is_module or o.is_class)]

    def ops(self, kinds=("Class", "Function", "Attribute", "Module"), hows=("name", "dotted", "tuple", "item")):
        """Every operation applicable in the current state, as replayable descriptors."""
        out = []
        for cpath in self.containers():
            for name in self.names:
                path = f"{cpath}.{name}"
                for kind in kinds:
                    if kind == "Module" and not self.ref[cpath].is_module:
                        continue
                    out.extend(("set", cpath, name, how, kind) for how in hows)
                if path in self.ref:
                    out.extend(("del", cpath, name, how, None) for how in hows)
                for tp, o in self.ref.items():
                    if not o.is_alias and tp != "m" and tp != path and not path.startswith(tp + ".") and not tp.startswith(path + "."):
                        out.append(("alias", cpath, name, "object", tp))
                        out.append(("alias", cpath, name, "path", tp))
        out.extend(("selftarget", ap, None, None, None) for ap, o in self.ref.items() if o.is_alias)
        return out

    def _drop(self, path):
        for k in [k for k in self.ref if k == path or k.startswith(path + ".")]:
            del self.ref[k]

    def apply(self, desc):
        """Apply one operation; return the problems seen right after it (list of {problem, signature})."""
        op, cpath, name, how, arg = desc
        coll, ref, problems = self.coll, self.ref, []
        path = f"{cpath}.{name}" if name else cpath

        def note(problem, signature):
            problems.append({"problem": problem + " | " + "; ".join(self.trace[-7:]), "signature": signature})
        try:
            if op == "set":
                obj = mk(arg, name)
                old = ref.get(path)
                if how == "name":
                    ref[cpath].set_member(name, obj)
                elif how == "dotted":
                    coll.set_member(path, obj)
                elif how == "tuple":
                    coll.set_member(tuple(path.split(".")), obj)
                else:
                    coll[path] = obj
                self._drop(path)
                ref[path] = obj
                self.trace.append(f"{how}: {path} = {arg}")
                if old is not None and not old.is_alias and how != "item":
                    # aliases that pointed at the replaced object follow the replacement (tree-building API only)
                    for apath, a in list(ref.items()):
                        if a.is_alias and a.resolved and a._target is old and apath != path:
                            note(f"alias {apath} still targets the replaced object {path}", "tree:alias-did-not-follow-replacement")
            elif op == "del":
                if how == "name":
                    ref[cpath].del_member(name)
                elif how == "dotted":
                    coll.del_member(path)
                elif how == "tuple":
                    coll.del_member(tuple(path.split(".")))
                else:
                    del coll[path]
                self._drop(path)
                self.trace.append(f"{how}: del {path}")
            elif op == "alias":
                al = Alias(name, ref[arg] if how == "object" else arg)
                ref[cpath].set_member(name, al)
                self._drop(path)
                ref[path] = al
                self.trace.append(f"alias {path} -> {arg}")
                try:
                    al.target
                except Exception as e:  # noqa: BLE001
                    note(f"alias {path} -> {arg} cannot be resolved: {type(e).__name__}", "tree:alias-unresolvable")
            else:  # an alias can never be made to target itself
                try:
                    ref[cpath].target = ref[cpath]
                    note(f"alias {cpath} accepted itself as target", "tree:alias-self-target")
                except CyclicAliasError:
                    pass
                self.trace.append(f"self-target {cpath} refused")
        except Exception as e:  # noqa: BLE001
            note(f"raised {type(e).__name__}: {e} during {desc}", f"tree:raised-{type(e).__name__}")
            return problems
        bad = invariants(coll)
        for pth, o in ref.items():
            try:
                if coll.get_member(pth) is not o:
                    bad.append(f"{pth} holds another object than the one put there")
            except KeyError:
                bad.append(f"{pth} was put there but is gone")
        for pth in [f"{c}.{n}" for c in self.containers() for n in self.names]:
            if pth not in ref:
                try:
                    coll.get_member(pth)
                    bad.append(f"{pth} was deleted (or never set) but is still there")
                except KeyError:
                    pass
        for b in bad[:2]:
            # C16-F2: an alias member that was replaced or deleted stays registered in its old target's aliases; when that target is later
            # replaced through set_member the detached alias is retargeted too and takes the live alias' slot.  Identified by: the slot is
            # held by a detached alias AND the step that broke it is a set_member replacement at ANOTHER path (the live alias was listed
            # correctly after its own insertion -- the invariant held at every earlier step).
            m = re.match(r"resolved alias (\S+) is not listed", b)
            stale = bool(m) and "[slot held by a detached alias]" in b and m.group(1) != path and (op == "alias" or (op == "set" and how != "item"))
            note(b, STALE_SIG if stale else "tree:" + b.split(" (keys")[0])
        return problems


def _keep(problems, new):
    for q in new:
        if q["signature"] == STALE_SIG and sum(1 for x in problems if x["signature"] == STALE_SIG) >= 2:
            continue
        problems.append(q)


def random_histories(seed, n_hist, max_len, budget_s=40):
    """Random operation sequences over a small universe, every invariant and the reference dictionary checked after each step."""
    import random
    import time
    rnd = random.Random(seed)
    t0 = time.time()
    problems, done = [], 0
    for _h in range(n_hist):
        if time.time() - t0 > budget_s or sum(1 for q in problems if q["signature"] != STALE_SIG) >= 3:
            break
        h = History(["a", "b", "c"])
        for _step in range(rnd.randint(1, max_len)):
            ops = h.ops()
            # replacements and aliases are what the statement is about: do not let the many plain insertions drown them
            weights = [1 if o[0] == "set" else 4 if o[0] == "del" else 2 for o in ops]
            new = h.apply(rnd.choices(ops, weights)[0])
            done += 1
            if new:
                _keep(problems, new)
                break
    return done, problems


def exhaustive_histories(length, budget_s=600, shard=0, shards=1):
    """EVERY operation sequence of exactly `length` steps over the universe {m} x names {a, b} x kinds {Class, Function, Attribute} x all four key
    forms x deletions x aliases (by object and by path) x self-target attempts; shorter sequences are its prefixes."""
    import time
    t0 = time.time()
    problems, count = [], [0, 0]
    kinds = ("Class", "Function", "Attribute")

    def rec(prefix):
        if time.time() - t0 > budget_s:
            count[1] = 1
            return
        h = History(["a", "b"])
        for d in prefix:
            if h.apply(d):
                return      # reported when this prefix was the current sequence
        if len(prefix) == length:
            return
        for i, d in enumerate(h.ops(kinds=kinds)):
            if len(prefix) == 1 and i % shards != shard:      # shards split the second operation (the first step offers too few to balance)
                continue
            if not prefix and shard and length > 1:
                rec([d])                                        # the one-step sequences themselves are counted by shard 0
                continue
            h2 = History(["a", "b"])
            for e in prefix:
                h2.apply(e)
            new = h2.apply(d)
            count[0] += 1
            if new:
                _keep(problems, new)
                if sum(1 for q in problems if q["signature"] != STALE_SIG) >= 3:
                    return
            else:
                rec(prefix + [d])
    rec([])
    return count[0], bool(count[1]), problems


KNOWN_SIG = "alias-parent-before-attach"
STALE_SIG = "stale-alias-retargeted-over-live-alias"


def _result(problems):
    # the bottom-up construction case is a recorded finding on the pinned tree (C16-F1); report others first
    new = [p for p in problems if "(no re-insertion)" not in p]
    use = new or problems
    return {"reproduced": bool(use), "detail": "; ".join(use[:3]) or "all tree invariants hold on the scenario sweep",
            "signature": (KNOWN_SIG if not new and problems else "tree:" + (use[0] if use else "ok"))}


def replay_tree_ops(w, obligation, expects):
    return _result(run_all())


def replay_alias_links(w, obligation, expects):
    return _result(run_all())


def replay_get_parts(w, obligation, expects):
    from _griffe.mixins import _get_parts
    problems = []
    for key, exp in (("", ValueError), ((), ValueError), ([], ValueError), ("a", ["a"]), ("a.b", ["a", "b"]), (("a", "b"), ["a", "b"]), (["x"], ["x"])):
        try:
            r = list(_get_parts(key))
        except Exception as e:  # noqa: BLE001
            r = type(e)
        if r != exp:
            problems.append(f"_get_parts({key!r}) = {r!r}, expected {exp!r}")
    return {"reproduced": bool(problems), "detail": "; ".join(problems) or "ok", "signature": "get_parts:" + (problems[0] if problems else "ok")}


if __name__ == "__main__":
    import json
    import sys
    if len(sys.argv) > 1 and sys.argv[1] == "random":
        seed, n_hist, max_len, budget = (int(x) for x in sys.argv[2:6])
        done, probs = random_histories(seed, n_hist, max_len, budget)
        print(json.dumps({"steps": done, "problems": probs}))
        sys.exit(0)
    if len(sys.argv) > 1 and sys.argv[1] == "exhaustive":
        n, cut, probs = exhaustive_histories(int(sys.argv[2]), int(sys.argv[3]), *(int(x) for x in sys.argv[4:6]))
        print(json.dumps({"sequences": n, "cut_short": cut, "problems": probs}))
        sys.exit(0)
    probs = run_all()
    print(json.dumps({"scenarios": len(scenarios()), "problems": [
        {"problem": p, "signature": KNOWN_SIG if "(no re-insertion)" in p else "tree:" + p} for p in probs]}))
