"""Native bounded tier / replay for C04: a fixture package importing through every form; CPython's own name binding is the oracle
(annotations are evaluated by CPython at class/module creation; the bound object's __module__/__qualname__ gives the expected path)."""
import importlib
import json
import logging
import sys
import tempfile
import types
from pathlib import Path

logging.disable(logging.CRITICAL)

from _griffe.loader import GriffeLoader  # noqa: E402

FILES = {
    "c4pkg/__init__.py": "from c4pkg.shared import Top\nfrom . import shared\n",
    "c4pkg/shared.py": "class Top:\n    pass\nclass X:\n    pass\ndef fn():\n    pass\nVALUE = 1\n",
    "c4pkg/a/__init__.py": "from .shared import X as AX\nfrom .. import shared as top_shared\nfrom ..shared import Top\nclass InA:\n    one: AX\n    two: Top\n    three: top_shared.X\n",
    "c4pkg/a/shared.py": "class X:\n    pass\nclass Y:\n    pass\n",
    "c4pkg/a/b/__init__.py": "from ..shared import X\nfrom .. import shared\nfrom ... import shared as root_shared\nfrom ...shared import Top as RootTop\n"
                             "class InB:\n    one: X\n    two: shared.Y\n    three: root_shared.X\n    four: RootTop\n",
    "c4pkg/a/b/leaf.py": "from . import sibling\nfrom .sibling import S\nfrom .. import shared as a_shared\nfrom ..shared import Y\nfrom ...shared import fn as root_fn\nimport c4pkg.shared\nimport c4pkg.a.shared as deep\n"
                         "import json\nimport os.path as osp\nfrom typing import List\n"
                         "class Leaf:\n    Local = 1\n    class Nested:\n        pass\n    one: S\n    two: sibling.S\n    three: a_shared.X\n    four: Y\n    five: c4pkg.shared.Top\n"
                         "    six: deep.Y\n    seven: json.JSONEncoder\n    eight: List\n    nine: int\n    ten: Nested\n"
                         "    def method(self, p: S, q: 'Leaf') -> Y:\n        pass\nmodule_level: S = None\nother: root_fn = None\n",
    "c4pkg/a/b/sibling.py": "class S:\n    pass\n",
    "c4pkg/json.py": "import json\nclass Enc:\n    e: json.JSONEncoder\nm: json.JSONDecoder = None\n",
    # a sub-module named like a builtin: it does not capture the builtin in its sibling modules (a module's globals are the last scope)
    "c4pkg/int.py": "zero = 0\n",
    "c4pkg/shapes.py": "from c4pkg.a import shared as shapes2\nclass Sh:\n    s: shapes2.Y\n",
    # base classes are evaluated where the class statement stands: a member of the class body named like the first name of a base expression
    # (or like the base itself) must not capture it
    "c4pkg/bases.py": "from c4pkg import shared\nfrom c4pkg.a.b import sibling\nfrom c4pkg.shared import Top\n"
                      "class Plain(shared.Top):\n    pass\n"
                      "class Shadow(shared.X):\n    shared = 'a member named like the first name of the base expression'\n"
                      "class Same(Top):\n    class Top:\n        pass\n"
                      "class Outer:\n    class S:\n        pass\n    class Uses(sibling.S):\n        sibling = 1\n",
    # a class body sees its own names, then the module's globals -- not the names of the class it is nested in
    "c4pkg/nested.py": "class Hidden:\n    pass\nclass Outer:\n    class Hidden:\n        pass\n    class Inner:\n        own = 1\n        one: Hidden\n",
}


def expected_path(obj):
    if isinstance(obj, types.ModuleType):
        return obj.__name__
    mod = getattr(obj, "__module__", None)
    qn = getattr(obj, "__qualname__", None)
    if mod == "builtins":
        return qn            # names with no static binding are returned unchanged
    if mod == "typing":
        return "typing." + (getattr(obj, "_name", None) or qn or "")
    if mod and qn:
        return f"{mod}.{qn}"
    return None


def py_object(path):
    """The Python object a dotted path denotes for CPython (import the longest module prefix, then getattr), or a unique sentinel."""
    parts = path.split(".")
    for i in range(len(parts), 0, -1):
        try:
            obj = importlib.import_module(".".join(parts[:i]))
        except Exception:  # noqa: BLE001
            continue
        try:
            for p in parts[i:]:
                obj = getattr(obj, p)
        except AttributeError:
            return object()
        return obj
    return object()


def sweep():
    problems, n = [], 0
    with tempfile.TemporaryDirectory() as tmp:
        for rel, text in FILES.items():
            p = Path(tmp) / rel
            p.parent.mkdir(parents=True, exist_ok=True)
            p.write_text(text)
        sys.path.insert(0, tmp)
        try:
            ld = GriffeLoader(search_paths=[tmp], allow_inspection=False)
            pkg = ld.load("c4pkg")
            for modname in ["c4pkg.a", "c4pkg.a.b", "c4pkg.a.b.leaf", "c4pkg.json", "c4pkg.shapes", "c4pkg.bases", "c4pkg.nested"]:
                pymod = importlib.import_module(modname)
                gmod = pkg[modname.split(".", 1)[1]]
                scopes = [(pymod, gmod)]
                for cname, cobj in vars(pymod).items():
                    if isinstance(cobj, type) and cobj.__module__ == modname:
                        scopes.append((cobj, gmod[cname]))
                        for inner_name, inner in vars(cobj).items():
                            if isinstance(inner, type) and inner.__module__ == modname and inner.__qualname__.startswith(cobj.__qualname__ + "."):
                                scopes.append((inner, gmod[cname][inner_name]))
                # base classes: the expression stored for each base resolves to the class CPython put in __bases__
                for pyscope, gscope in scopes[1:]:
                    pybases = [b for b in pyscope.__bases__ if b is not object]
                    if len(pybases) != len(gscope.bases):
                        problems.append(f"{gscope.path}: {len(gscope.bases)} base expressions, CPython has {len(pybases)} bases")
                        continue
                    for bexpr, pybase in zip(gscope.bases, pybases):
                        n += 1
                        exp = expected_path(pybase)
                        try:
                            got = bexpr.canonical_path
                            tgt = ld.modules_collection.get_member(got)
                            final = tgt.final_target.path if tgt.is_alias else tgt.path
                        except BaseException:  # noqa: BLE001
                            final = got if "got" in dir() else None
                        if final != exp and py_object(final or "") is not pybase:
                            problems.append(f"{gscope.path}: base {bexpr} resolves to {got!r} (-> {final!r}), CPython's base is {exp!r}")
                for pyscope, gscope in scopes:
                    anns = getattr(pyscope, "__annotations__", {})
                    for attr, bound in anns.items():
                        if attr not in gscope.members:
                            continue
                        n += 1
                        exp = expected_path(bound)
                        ann = gscope.members[attr].annotation
                        try:
                            got = ann.canonical_path
                        except BaseException as e:  # noqa: BLE001
                            problems.append(f"{gscope.path}.{attr}: resolution raised {type(e).__name__}")
                            continue
                        # griffe reports the path through which the name was imported; CPython the defining object: compare final targets
                        if exp is not None and got != exp:
                            # resolve griffe's path through aliases when it points inside the loaded package
                            try:
                                tgt = ld.modules_collection.get_member(got)
                                final = tgt.final_target.path if tgt.is_alias else tgt.path
                            except BaseException:  # noqa: BLE001
                                final = got
                            if final != exp and py_object(final) is not bound:
                                problems.append(f"{gscope.path}.{attr}: annotation resolves to {got!r} (-> {final!r}), CPython binds {exp!r}")
        finally:
            sys.path.remove(tmp)
            for m in [m for m in sys.modules if m == "c4pkg" or m.startswith("c4pkg.")]:
                del sys.modules[m]
    return {"cases": n, "bad": [{"problem": p, "signature": "scoping:" + p} for p in problems]}


def replay_scoping(w, obligation, expects):
    r = sweep()
    b = r["bad"]
    if "a_nested_class_body_does_not_see" in (obligation or ""):
        # this obligation is about one scoping rule: its native witness is the nested-class fixture, whatever else fails
        b = [x for x in b if x["problem"].startswith("c4pkg.nested.")]
    return {"reproduced": bool(b), "detail": ("; ".join(x["problem"] for x in b[:3]) if b else f"{r['cases']} annotated names resolve to what CPython binds"),
            "signature": b[0]["signature"] if b else "ok"}


if __name__ == "__main__":
    print(json.dumps(sweep()))
