"""Native bounded tier / replay for C05: generated acyclic packages; CPython's importer is the oracle for the names visible in each
module and for the object each name ultimately refers to."""
import importlib
import itertools
import json
import logging
import random
import sys
import tempfile
import time
from pathlib import Path

logging.disable(logging.CRITICAL)

from _griffe.loader import GriffeLoader  # noqa: E402


def statements(i, others=None):
    """Statements available to module m{i}; by default imports only from earlier modules (acyclic by construction);
    with `others`, from any listed module (CPython decides whether the package is importable)."""
    me = f"pkg.m{i}"
    out = [f"x = '{me}.x'", f"y = '{me}.y'", f"_p = '{me}._p'", f"class K:\n    origin = '{me}.K'", "__all__ = ['x']", "__all__ = ['x', '_p']", "__all__ = []"]
    for j in (range(i) if others is None else others):
        out += [f"from pkg.m{j} import x", f"from pkg.m{j} import x as y", f"from pkg.m{j} import *", f"from .m{j} import *", f"from pkg.m{j} import K",
                f"from . import m{j}", f"import pkg.m{j}", f"from pkg import m{j}\n__all__ = m{j}.__all__ + ['y']", f"from pkg.m{j} import _p"]
    return out


def cpython_view(tmp, k, modnames=None):
    sys.path.insert(0, tmp)
    view = {}
    try:
        for name in (modnames or [f"pkg.m{i}" for i in range(k)]):
            try:
                mod = importlib.import_module(name)
            except Exception as e:  # noqa: BLE001
                return None       # not importable by CPython: outside the domain
            names = {}
            for n, v in vars(mod).items():
                if n.startswith("__") and n != "__all__":
                    continue
                if n == "__all__":
                    # what __all__ exposes is a set of names: order and repetitions change nothing for `from m import *`
                    names[n] = ("all", tuple(sorted(set(v))))
                elif isinstance(v, str):
                    names[n] = ("obj", v)
                elif isinstance(v, type):
                    names[n] = ("obj", v.origin)
                elif hasattr(v, "__path__") or hasattr(v, "__spec__"):
                    names[n] = ("obj", v.__name__)
            view[name] = names
    finally:
        sys.path.remove(tmp)
        for m in [m for m in sys.modules if m == "pkg" or m.startswith("pkg.")]:
            del sys.modules[m]
    return view


def griffe_view(tmp, k, modnames=None):
    ld = GriffeLoader(search_paths=[tmp], allow_inspection=False)
    pkg = ld.load("pkg")
    ld.resolve_aliases(implicit=True, external=False)
    view = {}
    for name in (modnames or [f"pkg.m{i}" for i in range(k)]):
        mod = pkg[name.split(".", 1)[1]]
        names = {}
        for n, m in mod.members.items():
            if "/" in n:
                names[n] = ("unexpanded-wildcard", m.target_path)
                continue
            if n == "__all__":
                continue
            try:
                t = m.final_target if m.is_alias else m
                names[n] = ("obj", t.path)
            except Exception as e:  # noqa: BLE001
                names[n] = ("unresolved", type(e).__name__)
        if mod.exports is not None:
            names["__all__"] = ("all", tuple(sorted({str(e) for e in mod.exports})))
        view[mod.path] = names
    return view


def compare(c, g):
    pr = []
    for modname, cn in c.items():
        gn = g.get(modname, {})
        for n, v in cn.items():
            if n not in gn:
                pr.append(f"{modname}: name {n} visible for CPython ({v[1]}) but absent")
            elif gn[n] != v:
                pr.append(f"{modname}.{n}: griffe {gn[n]} != cpython {v}")
        for n, v in gn.items():
            if n not in cn:
                pr.append(f"{modname}: name {n} ({v}) present but CPython binds no such name")
    return pr


def acyclic(mods):
    import re
    edges = {i: {int(j) for j in re.findall(r"m(\d)", "\n".join(l for l in src.splitlines() if "import" in l or "__all__ = m" in l))} - {i} for i, src in enumerate(mods)}

    def reach(a, b, seen=()):
        return any(n == b or (n not in seen and reach(n, b, seen + (n,))) for n in edges.get(a, ()))
    return not any(reach(i, i) for i in edges)


def check(mods):
    k = len(mods)
    if not acyclic(mods):
        return None          # the property quantifies over acyclic import graphs
    with tempfile.TemporaryDirectory() as tmp:
        pkg = Path(tmp) / "pkg"
        pkg.mkdir()
        (pkg / "__init__.py").write_text("")
        for i, src in enumerate(mods):
            (pkg / f"m{i}.py").write_text(src + "\n")
        c = cpython_view(tmp, k)
        if c is None:
            return None
        try:
            g = griffe_view(tmp, k)
        except BaseException as e:  # noqa: BLE001
            return [f"loading raised {type(e).__name__}: {str(e)[:60]}"]
        return compare(c, g)


def nested_scenarios():
    """Sub-packages: the same module text reached at different levels (`from .m0 import *` / `from ..m0 import *`), several wildcard imports in one module, in
    both orders, re-exported further; compared with CPython like the flat graphs."""
    bad, n = [], 0
    base = {"pkg/__init__.py": "", "pkg/m0.py": "x = 'pkg.m0.x'\na = 'pkg.m0.a'\nclass K:\n    origin = 'pkg.m0.K'\n",
            "pkg/sub/__init__.py": "", "pkg/sub/m0.py": "x = 'pkg.sub.m0.x'\nb = 'pkg.sub.m0.b'\n_p = 'pkg.sub.m0._p'\n",
            "pkg/sub/deep/__init__.py": "from ..m0 import *\nfrom ...m0 import a as c\n", "pkg/m2.py": "from pkg.sub.m1 import *\nfrom .sub.deep import *\n"}
    names = ["pkg.m0", "pkg.sub.m0", "pkg.sub.m1", "pkg.sub.deep", "pkg.m2"]
    for m1 in ("from ..m0 import *\nfrom .m0 import *", "from .m0 import *\nfrom ..m0 import *", "from .m0 import *\nfrom pkg.m0 import *\nb = 'pkg.sub.m1.b'",
               "from . import m0\nfrom .. import m0 as top\nfrom ..m0 import *", "from .m0 import *\nfrom .deep import *\n__all__ = ['x', 'c']"):
        n += 1
        with tempfile.TemporaryDirectory() as tmp:
            for rel, src in dict(base, **{"pkg/sub/m1.py": m1 + "\n"}).items():
                f = Path(tmp) / rel
                f.parent.mkdir(parents=True, exist_ok=True)
                f.write_text(src)
            c = cpython_view(tmp, 0, names)
            if c is None:
                bad.append({"graph": [m1], "problems": ["the nested scenario is not importable by CPython (harness error)"], "signature": "nested:harness", "root_cause": []})
                continue
            try:
                pr = compare(c, griffe_view(tmp, 0, names))
            except BaseException as e:  # noqa: BLE001
                pr = [f"loading raised {type(e).__name__}: {str(e)[:60]}"]
            if pr:
                bad.append({"graph": ["pkg/sub/m1.py: " + m1], "problems": pr[:3], "signature": "nested:" + m1, "root_cause": []})
    return n, bad


def root_cause(mods, problems):
    """C05-F2: a definition and a wildcard import of the same name written on ONE line (`x = 1; from m import *`): Griffe orders statements by line number
    only, CPython runs them left to right."""
    import re
    culprit = [i for i, src in enumerate(mods) if any(re.search(r";\s*from \S+ import \*", line) for line in src.splitlines())]
    if culprit and all(re.search(r"pkg\.m\d\.(\w+): griffe \('obj'", p) for p in problems):
        return ["C05-F2"]
    return []


def sweep(seed=0, n_random=300, budget_s=120, stop_after=5):
    rnd = random.Random(seed)
    t0 = time.time()
    k = 3
    graphs = []
    st = [statements(i) for i in range(k)]
    # exhaustive: m0 one definition-ish statement, m1 one statement, m2 one statement
    for a in st[0][:7]:
        for b in st[1]:
            for c in st[2][7:]:
                graphs.append((f"x = 'pkg.m0.x'\n_p = 'pkg.m0._p'\nclass K:\n    origin = 'pkg.m0.K'\n" + (a if a.startswith("__all__") else ""), b, c))
    rnd.shuffle(graphs)
    graphs = graphs[:400]
    for _ in range(n_random):
        graphs.append(tuple("\n".join(rnd.sample(st[i], rnd.choice((1, 2, 3)))) for i in range(k)))
    # override chains: a name defined locally and then overridden by a later wildcard, re-exported through a chain of
    # explicit imports, with the module load order (names) permuted against the dependency order
    for perm in itertools.permutations(range(4)):
        a, m, z, w = (f"m{i}" for i in perm)
        srcs = {a: f"from .{m} import x\nfrom .{w} import *", m: f"from .{z} import x", z: f"x = 'pkg.{z}.x'\nfrom .{w} import *", w: f"x = 'pkg.{w}.x'\ny = 'pkg.{w}.y'"}
        graphs.insert(0, tuple(srcs[f"m{i}"] for i in range(4)))
    # __all__ assembled with augmented assignments from other modules' __all__ (attribute form), incl. the same reference twice and strings already there
    d0, d1 = "x = 'pkg.m0.x'\ny = 'pkg.m0.y'\n__all__ = ['x']", "y = 'pkg.m1.y'\nclass K:\n    origin = 'pkg.m1.K'\n__all__ = ['y', 'K']"
    imp = "from pkg import m0, m1\nfrom pkg.m0 import *\nfrom pkg.m1 import *\n"
    for body in ("__all__ = m0.__all__\n__all__ += m1.__all__", "__all__ = []\n__all__ += m0.__all__\n__all__ += m1.__all__", "__all__ = ['x']\n__all__ += m0.__all__ + m1.__all__",
                 "__all__ = m0.__all__ + ['K']\n__all__ += m1.__all__\n__all__ += ['x']", "__all__ = m1.__all__\n__all__ += m1.__all__\n__all__ += m0.__all__"):
        graphs.insert(0, (d0, d1, imp + body, "from pkg.m2 import *"))
    # two statements on one line (the property quantifies over any placement of wildcard statements relative to local definitions)
    graphs.insert(0, ("x = 'pkg.m0.x'", "x = 'pkg.m1.x'; from pkg.m0 import *", "from pkg.m1 import x"))
    graphs.insert(0, ("x = 'pkg.m0.x'", "from pkg.m0 import *; x = 'pkg.m1.x'", "from pkg.m1 import x"))
    # 4 modules, imports in any direction (load order differs from dependency order); cycles are rejected by CPython
    st4 = [statements(i, [j for j in range(4) if j != i]) for i in range(4)]
    for _ in range(n_random):
        graphs.append(tuple("\n".join(rnd.sample(st4[i], rnd.choice((1, 2, 2)))) for i in range(4)))
    n, skipped, bad = 0, 0, []
    for g in graphs:
        if time.time() - t0 > budget_s or sum(1 for b in bad if not b["root_cause"]) >= stop_after:
            break
        pr = check(list(g))
        if pr is None:
            skipped += 1
            continue
        n += 1
        if pr:
            bad.append({"modules": list(g), "problems": pr[:3], "signature": "package:" + json.dumps(list(g)), "root_cause": root_cause(list(g), pr)})
    n_nested, bad_nested = nested_scenarios()
    return {"cases": n + n_nested, "not_importable": skipped, "bad": bad_nested + bad}


def replay_packages(w, obligation, expects):
    r = sweep(0, 150, 60)
    b = [x for x in r["bad"] if not x["root_cause"]]
    return {"reproduced": bool(b), "detail": (json.dumps(b[0])[:700] if b else f"agrees with CPython's importer on {r['cases']} generated packages"),
            "signature": b[0]["signature"] if b else "ok"}


if __name__ == "__main__":
    print(json.dumps(sweep(int(sys.argv[1]), int(sys.argv[2]), int(sys.argv[3]), int(sys.argv[4]) if len(sys.argv) > 4 else 5)))
