"""Native tier for C12 (run under /venv/bin/python with PYTHONPATH=<tree>/src): replays and the bounded docstring corpus.

The deductive obligations talk about abstract lines (blank / indent / regex outcomes).  A refuted obligation is replayed by a
*guided search*: docstrings assembled from line kinds (the ones the refuted function distinguishes), all reader offsets, option
valuations and parent kinds, against the real function; the first failing input is reported.
"""
from __future__ import annotations

import itertools
import json
import signal
import sys
import time

import _griffe.docstrings.google as G
import _griffe.docstrings.numpy as N
import _griffe.docstrings.sphinx as S
from _griffe.docstrings import models as DM
from _griffe.enumerations import Parser
from _griffe.expressions import ExprName
from _griffe.models import Attribute, Class, Docstring, Function, Module, Parameter, Parameters

SUR = "\ud800"

GOOGLE_LINES = [
    "", "Summary.", "Args:", "Args: ", "Returns:", "Yields:", "Receives:", "Raises:", "Attributes:", "Examples:", "Note:", "Note: title", "Other Parameters:",
    "Functions:", "Classes:", "Modules:", "Warns:",
    "    x: desc", "    x : desc", "    x (int): desc", "    y (" + SUR + "): desc", "    (int): desc", "    z (await w): desc", "    int: desc", "    : desc", "    nocolon", "        continuation",
    "      odd indent", "  two", "    ", "```", "    >>> print(1)  # doctest: +SKIP", "    text", ":", "a:",
]
NUMPY_LINES = [
    "", "Summary.", "Parameters", "Returns", "Returns ", "Yields", "Receives", "Raises", "Warns", "Attributes", "Examples", "Other Parameters", "Deprecated",
    "Functions", "Classes", "Modules", "Note", "----------", "---", "x : int", "x, y : int, optional", "x : {1, 2}", "z : await w", "x", "int", "y : " + SUR, ": int",
    "    description", "  odd", "```", ">>> print(1)  # doctest: +SKIP", "1.0", "f(a, b)", ":", "    ",
]
SPHINX_LINES = [
    "", "Summary.", ":param x: desc", ":param int x: desc", ":type x: int", ":type x: " + SUR, ":returns: desc", ":rtype: int", ":raises ValueError: desc",
    ":var x: desc", ":vartype x: int", ":param", ":param:", ":param x y z w: d", ":type:", ":rtype:", ":raises:", "    continuation", ":unknown: x", ":",
    ":ivar x: d", ":return: d", ":type x", ":vartype x", ":rtype",
]
LINES = {"google": GOOGLE_LINES, "numpy": NUMPY_LINES, "sphinx": SPHINX_LINES}
MODS = {"google": G, "numpy": N, "sphinx": S}
OPTIONS = {
    "google": ["ignore_init_summary", "trim_doctest_flags", "returns_multiple_items", "returns_named_value", "returns_type_in_property_summary",
               "receives_multiple_items", "receives_named_value", "warn_unknown_params"],
    "numpy": ["ignore_init_summary", "trim_doctest_flags", "warn_unknown_params"],
    "sphinx": ["warn_unknown_params"],
}


class Timeout(Exception):
    pass


def signature(style, failure):
    head = failure.split(":")[0]
    for exc in ("AliasResolutionError", "CyclicAliasError"):
        if head == f"raises {exc}":
            return f"parent-read:{exc}"
    return f"{style}:{head}"


def _alarm(signum, frame):
    raise Timeout()


def parents():
    """Parent objects of every kind (none, module, class, function, property attribute, generator function)."""
    def ann(text):
        from _griffe.docstrings.utils import parse_docstring_annotation
        return parse_docstring_annotation(text, Docstring("", parent=Module("m")))
    mod = Module("m")
    cls = Class("C")
    mod.set_member("C", cls)
    init = Function("__init__", parameters=Parameters(Parameter("self"), Parameter("x", annotation="int", default="0")))
    cls.set_member("__init__", init)
    fn = Function("f", parameters=Parameters(Parameter("x", annotation="int", default="1"), Parameter("*args"), Parameter("**kwargs")), returns=ann("tuple[int, str]"))
    mod.set_member("f", fn)
    gen = Function("g", parameters=Parameters(Parameter("y")), returns=ann("Generator[tuple[int, str], float, tuple[bool, int]]"))
    mod.set_member("g", gen)
    it = Function("it", returns=ann("Iterator[int]"))
    mod.set_member("it", it)
    prop = Attribute("p", annotation=ann("int"))
    prop.labels.add("property")
    cls.set_member("p", prop)
    attr = Attribute("a", annotation=None)
    mod.set_member("a", attr)
    # members that are unresolvable / cyclic aliases (imports of packages that are not loaded, import cycles)
    from _griffe.collections import ModulesCollection
    from _griffe.models import Alias
    mc = ModulesCollection()
    amod = Module("am", modules_collection=mc)
    mc["am"] = amod
    acls = Class("A")
    amod.set_member("A", acls)
    for nm in ("x", "y", "__init__"):
        acls.set_member(nm, Alias(nm, "not_loaded.thing"))
    ccls = Class("B")
    amod.set_member("B", ccls)
    ccls.set_member("x", Alias("x", "am.B.y"))
    ccls.set_member("y", Alias("y", "am.B.x"))
    ccls.set_member("__init__", Alias("__init__", "am.B.x"))
    return {"alias_members": acls, "cyclic_members": ccls, "none": None, "module": mod, "class": cls, "init": init, "function": fn, "generator": gen, "iterator": it, "property": prop, "attribute": attr}


PARENTS = None


def snapshot(parent):
    if parent is None:
        return None
    try:
        return json.dumps(parent.as_dict(full=False), default=str, sort_keys=True)
    except Exception as e:  # noqa: BLE001
        return f"<as_dict raised {type(e).__name__}>"


def check_parse(style, text, options, parent_kind, timeout_s=5):
    """-> None | failure description (the statement's clauses, natively)."""
    global PARENTS
    if PARENTS is None:
        PARENTS = parents()
    parent = PARENTS[parent_kind]
    doc = Docstring(text, parent=parent, lineno=3)
    ls = doc.lines
    if not (len(ls) >= 1 and (len(ls) == 1 or ls[-1].strip()) and "\n".join(ls) == doc.value):
        return "Docstring invariant violated: lines are not the newline-separated pieces of the value, or the last line is blank"
    value0, snap0 = doc.value, snapshot(parent)
    signal.signal(signal.SIGALRM, _alarm)
    signal.setitimer(signal.ITIMER_REAL, timeout_s)
    try:
        sections = doc.parse(Parser(style), **options)
    except Timeout:
        return f"does not terminate within {timeout_s}s"
    except RecursionError:
        return None  # not modelled (pathological nesting)
    except BaseException as e:  # noqa: BLE001
        return f"raises {type(e).__name__}: {str(e)[:80]}"
    finally:
        signal.setitimer(signal.ITIMER_REAL, 0)
    if not isinstance(sections, list):
        return "does not return a list"
    for s in sections:
        if not isinstance(s, DM.DocstringSection):
            return f"returns a {type(s).__name__} among the sections"
        try:
            s.as_dict()
        except Exception as e:  # noqa: BLE001
            return f"section {s.kind} is not well-formed: as_dict raises {type(e).__name__}"
    if doc.value != value0 or snapshot(parent) != snap0:
        return "modifies the docstring or its parent"
    return None


def plain_text_problem(style, text, options, parent_kind):
    """Text without section syntax comes back as one text section equal to the cleaned docstring (blank-line whitespace aside)."""
    global PARENTS
    if PARENTS is None:
        PARENTS = parents()
    doc = Docstring(text, parent=PARENTS[parent_kind])
    if not doc.value.strip():
        return None
    try:
        sections = doc.parse(Parser(style), **options)
    except BaseException:  # noqa: BLE001
        return None  # reported by check_parse
    norm = lambda t: "\n".join("" if not l.strip() else l for l in t.split("\n"))  # noqa: E731
    if len(sections) != 1 or sections[0].kind.value != "text" or norm(sections[0].value) != norm(doc.value):
        return f"plain text is not returned as one text section: {[s.kind.value for s in sections]}"
    return None


PLAIN = ["Summary.", "", "Some text, with words", "  indented prose", "a - b", "x = 1", "    more indented prose", "Trailing words",
         "form\x0cfeed", "carriage\rreturn", "line\u2028separator", "unit\x1fseparator\x1c."]


def option_valuations(style, thorough=False):
    names = OPTIONS[style]
    if thorough or len(names) <= 3:
        for bits in itertools.product([False, True], repeat=len(names)):
            yield dict(zip(names, bits))
    else:
        yield {}
        yield {n: True for n in names}
        yield {n: False for n in names}
        for n in names:
            yield {n: n not in ("trim_doctest_flags", "returns_multiple_items", "returns_named_value", "receives_multiple_items", "receives_named_value", "warn_unknown_params")}


def corpus(style, max_lines, kinds=None):
    kinds = kinds or LINES[style]
    for n in range(1, max_lines + 1):
        for combo in itertools.product(kinds, repeat=n):
            yield "\n".join(combo)


def reader_failures(style, fname, text, timeout_s=5):
    """Call the real reader with every in-protocol offset; -> list of failure descriptions."""
    mod = MODS[style]
    fn = getattr(mod, fname)
    doc = Docstring(text, parent=None)
    lines = doc.lines
    n = len(lines)
    out = []
    for offset in range(0, n + 2):
        if not (offset >= n or lines[n - 1].strip()):
            continue
        signal.signal(signal.SIGALRM, _alarm)
        signal.setitimer(signal.ITIMER_REAL, timeout_s)
        try:
            if style == "sphinx":
                if offset >= n:
                    continue
                if fname == "_consolidate_continuation_lines":
                    res = fn(lines, offset)
                elif fname == "_parse_directive":
                    res = fn(doc, offset)
                    res = (res, res.next_index)
                else:
                    res = (None, fn(doc, offset, S._ParsedValues()))
                ok = res[1] >= offset
            else:
                res = fn(doc, offset=offset)
                ok = isinstance(res, tuple) and len(res) == 2 and res[1] >= offset - 1
                if ok and fname == "_read_block_items":
                    ok = all(len(it[1] if style == "google" else it) >= 1 for it in res[0])
            if not ok:
                out.append(f"{fname}(offset={offset}) breaks the reader protocol: returned {res[1]!r}")
        except Timeout:
            out.append(f"{fname}(offset={offset}) does not terminate")
        except RecursionError:
            pass
        except BaseException as e:  # noqa: BLE001
            out.append(f"{fname}(offset={offset}) raises {type(e).__name__}: {str(e)[:60]}")
        finally:
            signal.setitimer(signal.ITIMER_REAL, 0)
    return out


def replay_parsers(witness, obligation, expects):
    """Guided search for a concrete failing input for a refuted obligation `C12.<style>.<function>.<clause>`."""
    parts = (obligation or "").split(".")
    style = parts[1] if len(parts) > 1 and parts[1] in LINES else None
    fname = parts[2] if len(parts) > 2 else None
    if style is None and len(parts) > 1 and parts[1] in ("utils", "parsers"):
        style, fname = "google", "parse_google"
    if style is None and len(parts) > 1 and parts[1] == "models":
        style, fname = "google", "lines"
    if style is None:
        return {"reproduced": False, "detail": "no native search for this obligation"}
    want = (expects or {}).get("exc")
    t0, budget = time.time(), 100
    if len(parts) > 1 and parts[1] == "models":
        # Docstring.lines / Docstring.__init__: the statement's observable is the plain-text clause
        for n in range(1, 4):
            for combo in itertools.product(PLAIN, repeat=n):
                if not combo[0].strip() or not combo[-1].strip():
                    continue
                for st in ("google", "numpy", "sphinx"):
                    f = plain_text_problem(st, "\n".join(combo), {}, "none") or check_parse(st, "\n".join(combo), {}, "none")
                    if f:
                        return {"reproduced": True, "detail": f"{st} parser: {f}", "input": {"style": st, "text": "\n".join(combo)}, "signature": f"{st}:lines"}
        for st in ("numpy", "google", "sphinx"):
            for text in corpus(st, 3):
                if time.time() - t0 > budget:
                    break
                f = check_parse(st, text, {}, "none")
                if f:
                    return {"reproduced": True, "detail": f"{st} parser: {f}", "input": {"style": st, "text": text}, "signature": f"{st}:docstring-invariant"}
        return {"reproduced": False, "detail": "no failing docstring found"}
    top = fname in ("parse_google", "parse_numpy", "parse_sphinx") or not hasattr(MODS[style], fname or "")
    is_reader = not top and (fname.startswith("_read_block") or fname in ("_consolidate_continuation_lines", "_parse_directive") or style == "sphinx")
    tried = 0
    for maxn in (2, 3, 4):
        for text in corpus(style, maxn):
            if text.count("\n") + 1 < maxn and maxn > 2:
                continue
            tried += 1
            if time.time() - t0 > budget:
                return {"reproduced": False, "detail": f"no failing input among {tried} docstrings (<= {maxn} lines) within {budget}s"}
            if is_reader and style != "sphinx":
                fails = [f for f in reader_failures(style, fname, text) if not want or f" raises {want}" in f or "raises" not in f]
                if fails:
                    return {"reproduced": True, "detail": fails[0], "input": {"style": style, "text": text}, "signature": f"{style}:{fname}:{fails[0].split(':')[0]}"}
                continue
            if is_reader and style == "sphinx" and fname in ("_consolidate_continuation_lines", "_parse_directive"):
                fails = reader_failures(style, fname, text)
                if fails:
                    return {"reproduced": True, "detail": fails[0], "input": {"style": style, "text": text}, "signature": f"{style}:{fname}"}
                continue
            for opts in option_valuations(style):
                for pk in ("none", "function", "generator", "property", "init", "class", "alias_members", "cyclic_members"):
                    f = check_parse(style, text, opts, pk)
                    if f and want and f.startswith("raises ") and not f.startswith(f"raises {want}"):
                        continue
                    if f:
                        return {"reproduced": True, "detail": f"{style} parser {f}", "input": {"style": style, "text": text, "options": opts, "parent": pk},
                                "signature": signature(style, f)}
    return {"reproduced": False, "detail": f"no failing input among {tried} docstrings"}


def bounded(seed, max_lines, budget_s, thorough):
    """Bounded corpus: every docstring of <= max_lines lines over the style's line kinds x option valuations x parent kinds."""
    import random
    rnd = random.Random(seed)
    t0 = time.time()
    bad, cases = [], 0
    sigs = set()
    for style in ("google", "numpy", "sphinx"):
        kinds = LINES[style]
        per_style_budget = budget_s / 3
        ts = time.time()
        opts_all = list(option_valuations(style, thorough))
        pks = ["none", "module", "class", "init", "function", "generator", "iterator", "property", "attribute", "alias_members", "cyclic_members"]
        # exhaustive up to max_lines - 1, sampled at max_lines and beyond
        def texts():
            yield from corpus(style, max_lines - 1)
            while True:
                n = rnd.choice([max_lines, max_lines + 1, max_lines + 3, 12])
                yield "\n".join(rnd.choice(kinds) for _ in range(n))
        for text in texts():
            if time.time() - ts > per_style_budget:
                break
            o = rnd.choice(opts_all)
            pk = rnd.choice(pks)
            cases += 1
            f = check_parse(style, text, o, pk)
            if f:
                sig = signature(style, f)
                if sig not in sigs:
                    sigs.add(sig)
                    bad.append({"style": style, "text": text, "options": o, "parent": pk, "failure": f, "signature": sig})
        # plain text clause
        for n in range(1, 5):
            for combo in itertools.product(PLAIN, repeat=n):
                if not combo[0].strip() or not combo[-1].strip():
                    continue
                text = "\n".join(combo)
                o = rnd.choice(opts_all)
                o = dict(o, returns_type_in_property_summary=False) if style == "google" else o
                o = dict(o, ignore_init_summary=False) if "ignore_init_summary" in o else o
                cases += 1
                f = plain_text_problem(style, text, o, rnd.choice(pks))
                if f:
                    sig = f"{style}:plain-text"
                    if sig not in sigs:
                        sigs.add(sig)
                        bad.append({"style": style, "text": text, "options": o, "failure": f, "signature": sig})
    return {"cases": cases, "bad": bad, "wall_s": round(time.time() - t0, 1)}


if __name__ == "__main__":
    import logging
    logging.disable(logging.CRITICAL)
    seed, max_lines, budget, thorough = int(sys.argv[1]), int(sys.argv[2]), float(sys.argv[3]), sys.argv[4] == "1"
    print(json.dumps(bounded(seed, max_lines, budget, thorough)))
