"""Native replay driver: run under /venv/bin/python with PYTHONPATH=/repo/src.

stdin: {"fn": name, "witness": ..., "obligation": ...}; argv[1] = property id.
Prints one JSON line {"reproduced": bool, "detail": str, "signature": optional str, "spurious": optional bool}.
"""
import importlib
import json
import sys
import traceback
from pathlib import Path

sys.path.insert(0, str(Path(__file__).resolve().parent.parent))


def main():
    import logging
    logging.disable(logging.CRITICAL)
    prop = sys.argv[1]
    req = json.loads(sys.stdin.read())
    try:
        mod = importlib.import_module(f"replay.{prop}")
        fn = getattr(mod, req["fn"])
        res = fn(req["witness"], req.get("obligation"), req.get("expects") or {})
    except Exception:
        res = {"reproduced": False, "detail": "replay driver crashed:\n" + traceback.format_exc(), "driver_error": True}
    print(json.dumps(res, default=str))


if __name__ == "__main__":
    main()
