"""Native bounded tier / replay for C18: generated dataclass hierarchies; CPython's dataclasses module is the oracle."""
import inspect
import itertools
import json
import logging
import sys
import tempfile
import time
from pathlib import Path

logging.disable(logging.CRITICAL)

from _griffe.loader import GriffeLoader  # noqa: E402

HEADER = "from dataclasses import dataclass, field, KW_ONLY, InitVar\nfrom typing import ClassVar\nimport dataclasses\nimport typing\n\n"
FORMS = [
    "{n}: int", "{n}: int = 1", "{n}: int = field(default=2)", "{n}: list = field(default_factory=list)", "{n}: int = field(init=False, default=3)",
    "{n}: int = field(kw_only=True)", "{n}: int = field(kw_only=True, default=4)", "{n}: ClassVar[int] = 5", "{n}: InitVar[int]", "_: KW_ONLY",
    "{n} = 6", "@property\n    def {n}(self) -> int: return 7", "{n}: int = dataclasses.field(default=8)", "{n}: int = field()", "{n}: int = field(kw_only=False)",
    "{n}: ClassVar = 9", "{n}: typing.ClassVar = 10",
]
DECOS = ["@dataclass", "@dataclass()", "@dataclass(init=False)", "@dataclass(kw_only=True)", "@dataclasses.dataclass(kw_only=True, init=True)"]


def class_src(name, base, deco, fields, extra=""):
    body = "\n".join("    " + f for f in fields) or "    pass"
    return f"{deco}\nclass {name}{'(' + base + ')' if base else ''}:\n{body}\n{extra}\n"


def cases():
    names = ["a", "b"]
    # single class, 1-2 fields
    for deco in DECOS:
        for f1 in FORMS:
            yield class_src("C", None, deco, [f1.format(n="a")]), ["C"]
            for f2 in FORMS:
                yield class_src("C", None, deco, [f1.format(n="a"), f2.format(n="b")]), ["C"]
    # inheritance: base with 2 fields, child re-declares one of them or adds one; also plain (non-dataclass) classes around
    for bd, cd in itertools.product(DECOS[:4], DECOS[:4]):
        for bf, cf in itertools.product(FORMS[:7], FORMS[:7]):
            base = class_src("B", None, bd, [bf.format(n="a"), "b: int = 0"])
            yield base + class_src("C", "B", cd, [cf.format(n="a")]), ["B", "C"]
            yield base + class_src("C", "B", cd, [cf.format(n="c")]), ["B", "C"]
    # init-only variables and class variables of a base, under every pair of decorator arguments (a base without generated __init__ still contributes them)
    for bd, cd in itertools.product(DECOS[:4], DECOS[:4]):
        for bf in ("a: InitVar[int]", "a: InitVar[int] = 7", "a: ClassVar[int] = 5", "a: ClassVar = 5"):
            yield class_src("B", None, bd, [bf, "b: int = 0"]) + class_src("C", "B", cd, ["c: int = 1"]), ["B", "C"]
    # hand-written __init__, non-dataclass classes, subclass of a dataclass without decorator, two children of one base
    yield class_src("C", None, "@dataclass", ["a: int"], "    def __init__(self, z): self.a = z"), ["C"]
    yield "class P:\n    a: int = 1\n", ["P"]
    yield class_src("B", None, "@dataclass", ["a: int"]) + "class C(B):\n    b: int = 0\n", ["B", "C"]
    yield class_src("S", None, "@dataclass", ["name: str", "visible: bool = True"]) + class_src("C1", "S", "@dataclass", ["radius: float = 1.0"]) \
        + class_src("C2", "S", "@dataclass", ["side: float = 1.0"]) + class_src("G", "C2", "@dataclass", ["depth: int = 0"]), ["S", "C1", "C2", "G"]
    # a plain class between two dataclasses: its annotated attributes are no fields of the grandchild
    yield class_src("A", None, "@dataclass", ["a: int", "b: int = 0"]) + "class Mid(A):\n    x: float = 1.0\n    y: int = 3\n" + class_src("C", "Mid", "@dataclass", ["c: int = 5"]), ["A", "Mid", "C"]
    yield class_src("A", None, "@dataclass", ["a: int = 1"]) + "class Mid(A):\n    x: float\n" + "class Low(Mid):\n    z: int = 0\n" + class_src("C", "Low", "@dataclass", ["c: int = 5"]), ["A", "Low", "C"]
    yield class_src("B", None, "@dataclass", ["ident: int", "name: str = ''", "tags: int = 0"]) + class_src("C", "B", "@dataclass", ["ident: int = 1", "extra: int = 2"]), ["B", "C"]


KMAP = {inspect.Parameter.POSITIONAL_ONLY: "positional-only", inspect.Parameter.POSITIONAL_OR_KEYWORD: "positional or keyword",
        inspect.Parameter.KEYWORD_ONLY: "keyword-only", inspect.Parameter.VAR_POSITIONAL: "variadic positional", inspect.Parameter.VAR_KEYWORD: "variadic keyword"}


def check(src, classes):
    code = HEADER + src
    ns = {"__name__": "dcmod"}
    try:
        exec(compile(code, "dcmod.py", "exec"), ns)  # noqa: S102
    except Exception:  # noqa: BLE001
        return None      # not a valid dataclass definition for CPython: outside the domain
    problems = []
    with tempfile.TemporaryDirectory() as tmp:
        (Path(tmp) / "dcmod.py").write_text(code)
        try:
            mod = GriffeLoader(search_paths=[tmp], allow_inspection=False).load("dcmod")
        except BaseException as e:  # noqa: BLE001
            return [f"static loading raised {type(e).__name__}"]
        for cn in classes:
            pycls = ns[cn]
            g = mod[cn]
            has_own_init = "__init__" in pycls.__dict__
            is_dc = hasattr(pycls, "__dataclass_fields__")
            if "dataclass" in g.labels and not is_dc and False:
                problems.append(f"{cn}: labelled dataclass but CPython disagrees")
            if is_dc and any("dataclass(" in d or d.endswith("dataclass") for d in [str(x.value) for x in g.decorators]) is False and "dataclass" not in g.labels:
                problems.append(f"{cn}: inherits a dataclass but is not labelled as one")
            ginit = g.members.get("__init__")
            if not has_own_init:
                if ginit is not None:
                    problems.append(f"{cn}: griffe synthesised an __init__ but CPython generated none")
                continue
            if ginit is None:
                problems.append(f"{cn}: CPython has an __init__ in the class, griffe presents none")
                continue
            exp = [(p.name, KMAP[p.kind], p.default is inspect.Parameter.empty) for p in inspect.signature(pycls.__init__).parameters.values()]
            got = [(p.name, p.kind.value, p.required) for p in ginit.parameters]
            if exp != got:
                problems.append(f"{cn}.__init__: griffe {got} != cpython {exp}")
    return problems


def root_cause(src, problems):
    """Known disagreements of the pinned tree (C18 known findings), else []."""
    import re
    c = set()
    parts = src.split("class C(B):")
    redeclared = len(parts) == 2 and re.search(r"^    a: ", parts[1], re.M) and re.search(r"^    a: ", parts[0], re.M)
    for p in problems:
        if redeclared and "C.__init__" in p and "init=False" in src:
            c.add("C18-F3")
        elif redeclared and "C.__init__" in p and re.search(r"^    a: int$", parts[1], re.M) and re.search(r"^    a: \w+ = ", parts[0], re.M):
            c.add("C18-F4")
        else:
            return []
    return sorted(c)


def sweep(budget_s=60):
    t0 = time.time()
    n, skipped, bad = 0, 0, []
    for src, classes in cases():
        if time.time() - t0 > budget_s or sum(1 for b in bad if not b["root_cause"]) >= 5:
            break
        pr = check(src, classes)
        if pr is None:
            skipped += 1
            continue
        n += 1
        if pr:
            bad.append({"source": src, "problems": pr[:2], "signature": "dataclass:" + src, "root_cause": root_cause(src, pr)})
    return {"cases": n, "rejected_by_cpython": skipped, "bad": bad}


def replay_dataclasses(w, obligation, expects):
    r = sweep(60)
    b = [x for x in r["bad"] if not x["root_cause"]]
    return {"reproduced": bool(b), "detail": (f"{b[0]['problems']} for\n{b[0]['source']}" if b else f"agrees with CPython's dataclasses on {r['cases']} generated definitions (known findings aside)"),
            "signature": b[0]["signature"] if b else "ok"}


if __name__ == "__main__":
    print(json.dumps(sweep(int(sys.argv[1]) if len(sys.argv) > 1 else 60)))
