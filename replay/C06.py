"""Native bounded search / replay for C06: generated import graphs, loaded and resolved with the real loader."""
import itertools
import json
import logging
import random
import signal
import sys
import tempfile
from pathlib import Path

logging.disable(logging.CRITICAL)

from _griffe.exceptions import AliasResolutionError, CyclicAliasError  # noqa: E402
from _griffe.loader import GriffeLoader  # noqa: E402


class Timeout(Exception):
    pass


def _alarm(signum, frame):
    raise Timeout()


def statements(k):
    """Statement alphabet for a module in a package of k modules m0..m{k-1}."""
    out = ["x = 1", "y = 2", "from missing_pkg import x", "from pkg.nowhere import x", "import pkg", "__all__ = ['x']"]
    for j in range(k):
        out += [f"from pkg.m{j} import x", f"from pkg.m{j} import *", f"from pkg.m{j} import y as x", f"from pkg.m{j} import x as y",
                f"from . import m{j}", f"from .m{j} import x"]
    return out


def walk_aliases(obj, seen=None):
    seen = seen if seen is not None else set()
    if id(obj) in seen:
        return
    seen.add(id(obj))
    if obj.is_alias:
        yield obj
        return
    for m in list(obj.members.values()):
        yield from walk_aliases(m, seen)


def check_graph(mods, tmproot):
    """mods: list of module sources. Returns list of problems."""
    problems = []
    pkg = Path(tmproot) / "pkg"
    pkg.mkdir()
    (pkg / "__init__.py").write_text("")
    for i, src in enumerate(mods):
        (pkg / f"m{i}.py").write_text(src + "\n")
    signal.signal(signal.SIGALRM, _alarm)
    signal.alarm(5)
    try:
        ld = GriffeLoader(search_paths=[tmproot])
        try:
            top = ld.load("pkg")
            r1 = ld.resolve_aliases(implicit=True, external=False)
        except Timeout:
            return ["load/resolve_aliases did not terminate within 10 s"]
        except BaseException as e:  # noqa: BLE001
            return [f"load/resolve_aliases raised {type(e).__name__}: {str(e)[:80]}"]
        state1 = {a.path: (a.resolved, a.target_path) for a in walk_aliases(top)}
        signal.alarm(5)
        try:
            r2 = ld.resolve_aliases(implicit=True, external=False)
        except Timeout:
            return ["second resolve_aliases did not terminate"]
        except BaseException as e:  # noqa: BLE001
            return [f"second resolve_aliases raised {type(e).__name__}"]
        state2 = {a.path: (a.resolved, a.target_path) for a in walk_aliases(top)}
        if state1 != state2:
            problems.append("resolving again changed the tree (no fixpoint)")
        for a in walk_aliases(top):
            if any("loops" in p_ or "terminate" in p_ for p_ in problems):
                break
            signal.alarm(3)
            try:
                ft = a.final_target
                if ft.is_alias:
                    problems.append(f"{a.path}.final_target is an alias")
            except (AliasResolutionError, CyclicAliasError):
                pass
            except Timeout:
                problems.append(f"{a.path}.final_target loops")
                break
            except BaseException as e:  # noqa: BLE001
                problems.append(f"{a.path}.final_target raised {type(e).__name__}")
            # chain never partially resolved
            if a.resolved:
                t = a._target
                n = 0
                while t is not None and t.is_alias and n < 50:
                    if not t.resolved:
                        problems.append(f"chain of {a.path} left partially resolved at {t.path}")
                        break
                    t = t._target
                    n += 1
            for attr in ("kind", "has_docstring"):
                if any("loops" in p_ for p_ in problems):
                    break
                signal.alarm(3)
                try:
                    getattr(a, attr)
                except Timeout:
                    problems.append(f"{a.path}.{attr} loops")
                except BaseException as e:  # noqa: BLE001
                    problems.append(f"{a.path}.{attr} raised {type(e).__name__}")
            if any("loops" in p_ for p_ in problems):
                break
            signal.alarm(3)
            try:
                a.lineno  # a proxy: may raise only the alias errors
            except (AliasResolutionError, CyclicAliasError):
                pass
            except Timeout:
                problems.append(f"{a.path}.lineno loops")
            except BaseException as e:  # noqa: BLE001
                problems.append(f"{a.path}.lineno raised {type(e).__name__}")
    except Timeout:
        problems.append("access loops (timeout)")
    finally:
        signal.alarm(0)
    return problems


def pkg_statements(k):
    """Statement alphabet for top-level package q{i} among k packages (no wildcards: those are the single-package tier's business)."""
    out = ["x = 1", "y = 2", "from missing_pkg import x", "__all__ = ['x']", "__all__ = ['x', 'y']"]
    for j in range(k):
        out += [f"from q{j} import x", f"from q{j} import y", f"from q{j} import y as x", f"from q{j} import x as y", f"import q{j}"]
    return out


def check_packages(mods, order, external, implicit, tmproot):
    """Several top-level packages q0.. in one collection: those in `order` are loaded (in that order), the others may be loaded by alias resolution
    (external=True); then resolve_aliases twice. Returns the list of problems."""
    problems = []
    for i, src in enumerate(mods):
        d = Path(tmproot) / f"q{i}"
        d.mkdir()
        (d / "__init__.py").write_text(src + "\n")
    signal.signal(signal.SIGALRM, _alarm)
    signal.alarm(8)
    try:
        ld = GriffeLoader(search_paths=[tmproot])
        try:
            for i in order:
                ld.load(f"q{i}")
            r1 = ld.resolve_aliases(implicit=implicit, external=external)
        except Timeout:
            return ["load/resolve_aliases did not terminate within 8 s"]
        except BaseException as e:  # noqa: BLE001
            return [f"load/resolve_aliases raised {type(e).__name__}: {str(e)[:80]}"]

        def state():
            return {a.path: (a.resolved, a.target_path) for top in list(ld.modules_collection.members.values()) for a in walk_aliases(top)}
        state1, loaded1 = state(), sorted(ld.modules_collection.members)
        signal.alarm(8)
        try:
            r2 = ld.resolve_aliases(implicit=implicit, external=external)
        except Timeout:
            return ["second resolve_aliases did not terminate"]
        except BaseException as e:  # noqa: BLE001
            return [f"second resolve_aliases raised {type(e).__name__}"]
        state2, loaded2 = state(), sorted(ld.modules_collection.members)
        if loaded1 != loaded2:
            problems.append(f"resolving again loaded further packages (no fixpoint): {loaded1} -> {loaded2}")
        elif state1 != state2:
            ch = sorted(k for k in state2 if state1.get(k) != state2[k])
            problems.append(f"resolving again changed the tree (no fixpoint): {ch[:3]} (first call reported {sorted(r1[0])[:3]} unresolved, second {sorted(r2[0])[:3]})")
        for top in list(ld.modules_collection.members.values()):
            for a in walk_aliases(top):
                signal.alarm(3)
                try:
                    ft = a.final_target
                    if ft.is_alias:
                        problems.append(f"{a.path}.final_target is an alias")
                except (AliasResolutionError, CyclicAliasError):
                    pass
                except Timeout:
                    problems.append(f"{a.path}.final_target loops")
                    return problems
                except BaseException as e:  # noqa: BLE001
                    problems.append(f"{a.path}.final_target raised {type(e).__name__}")
    except Timeout:
        problems.append("access loops (timeout)")
    finally:
        signal.alarm(0)
    return problems


def pkg_root_cause(mods, problems):
    """C06-G6 (the cross-package form of C06-G5): wildcard imports that form a cycle through several packages, and the only thing wrong is that a second
    resolve_aliases() still changes the tree (copies of the temporary wildcard members travel with the expansion)."""
    import re
    edges = {i: {int(j) for j in re.findall(r"from q(\d) import \*", src)} for i, src in enumerate(mods)}

    def reach(a, b, seen=()):
        return any(n == b or (n not in seen and reach(n, b, seen + (n,))) for n in edges.get(a, ()))
    if any(reach(i, i) for i in edges) and all(p.startswith("resolving again changed the tree") for p in problems):
        return ["C06-G6"]
    return []


def sweep_packages(k, n_random, seed, budget_s=60):
    """Directed re-export chains across packages + seeded random package sets; every load order prefix, external in (True, False, None), implicit in (True, False)."""
    import time
    st = pkg_statements(k)
    rnd = random.Random(seed)
    sets = [
        ("from q1 import x", "x = 1\nfrom q2 import y", "from q3 import y", "y = 2"),                                  # chain discovered package by package
        ("from q1 import y\n__all__ = ['y']", "from q2 import y", "from q3 import y", "y = 2"),                          # the same through aliases that are not exported
        ("from q1 import x", "from q2 import x", "from q3 import x", "from q0 import x"),                                # a cycle through four packages
        ("from q1 import x\nfrom q2 import y", "from q2 import y as x", "from q3 import x as y", "x = 1"),
        ("from q3 import x", "x = 1", "from q1 import x", "from q2 import x\nfrom missing_pkg import y"),
        # wildcard imports across packages: mutual, a cycle of three, a chain ending in a missing package
        ("from q1 import *\nx = 1", "from q0 import *\ny = 2", "x = 1", "y = 2"),
        ("from q1 import *\nx = 1", "from q2 import *", "from q0 import *\ny = 2", "y = 2"),
        ("from q1 import *", "from q2 import *\nx = 1", "from q3 import *", "from missing_pkg import *\ny = 2"),
        ("from q1 import *\nfrom q2 import *", "from q0 import *\nx = 1", "from q1 import *\ny = 2", "x = 1"),
    ]
    n_directed = len(sets)
    for _ in range(n_random):
        sets.append(tuple("\n".join(rnd.sample(st, rnd.choice((1, 2, 2, 3)))) for _ in range(k)))
    orders = [(0,), (0, 1), (1, 0), (3, 2, 1, 0), (0, 1, 2, 3)]
    bad, done, t0 = [], 0, time.time()
    for n, mods in enumerate(sets):
        if time.time() - t0 > budget_s or sum(1 for b in bad if not b["root_cause"]) >= 5:
            break
        configs = [(order, external, implicit) for order in (orders if n < n_directed else [rnd.choice(orders)]) for external in (True, False, None)
                   for implicit in (True, False)]
        classes_seen = set()
        for order, external, implicit in configs:
            done += 1
            with tempfile.TemporaryDirectory() as tmp:
                pr = check_packages(list(mods), order, external, implicit, tmp)
            if pr:
                rc = pkg_root_cause(mods, pr)
                if rc and tuple(rc) in classes_seen:
                    continue        # the same known class again for this set: one record is enough, the other configurations are still run
                classes_seen.add(tuple(rc))
                bad.append({"packages": list(mods), "load_order": list(order), "external": external, "implicit": implicit, "problems": pr[:3],
                            "signature": "packages:" + json.dumps([list(mods), list(order), external, implicit]), "root_cause": rc})
                if not rc:
                    break           # an unclassified failure: report this set once
    return {"cases": done, "bad": bad}


def root_cause(graph, problems):
    """Root-cause class of a failure on the pinned tree (known findings), else []."""
    import re
    wild = {i: re.findall(r"from pkg\.m(\d) import \*", src) for i, src in enumerate(graph)}
    causes = set()
    for p in problems:
        m = re.match(r"chain of pkg\.m(\d)\.\w+ left partially resolved", p)
        if m and any(wild.values()):
            causes.add("C06-G1")      # a partially resolved chain in a package that uses wildcard imports
        elif p.startswith("resolving again changed the tree"):
            # cyclic wildcard imports
            edges = {i: {int(j) for j in js} for i, js in wild.items()}

            def reach(a, b, seen=()):
                return any(n == b or (n not in seen and reach(n, b, seen + (n,))) for n in edges.get(a, ()))
            if any(reach(i, i) for i in edges):
                causes.add("C06-G5")
            else:
                return []
        else:
            return []
    return sorted(causes)


def sweep(k, n_random, seed, budget_s=240):
    st = statements(k)
    graphs = [tuple(c) for c in itertools.product(st, repeat=k)] if k <= 2 else []
    rnd = random.Random(seed)
    singles = list(itertools.product(st, repeat=k)) if k == 3 and len(st) ** 3 <= 20000 else []
    graphs += singles
    for _ in range(n_random):
        graphs.append(tuple("\n".join(rnd.sample(st, rnd.choice((1, 2, 2, 3)))) for _ in range(k)))
    rnd.shuffle(graphs)
    bad = []
    import time
    t0 = time.time()
    done = 0
    for g in graphs:
        # budget: stop early once enough new (unclassified) failures are known or time is up
        if sum(1 for b in bad if not b["root_cause"]) >= 5 or time.time() - t0 > budget_s:
            break
        done += 1
        with tempfile.TemporaryDirectory() as tmp:
            pr = check_graph(list(g), tmp)
        if pr:
            bad.append({"graph": list(g), "problems": pr[:3], "signature": "graph:" + json.dumps(list(g)), "root_cause": root_cause(list(g), pr)})
    return {"graphs": done, "generated": len(graphs), "bad": bad}


def replay_resolve_target(w, obligation, expects):
    """Direct histories for the all-or-nothing clause of Alias.resolve_target: the looked-up member is an already-resolved alias whose own chain is
    broken (missing target) or cyclic (leads back to the alias being resolved); then generated graphs."""
    from _griffe.collections import ModulesCollection
    from _griffe.models import Alias, Attribute, Module
    problems = []
    for shape in ("broken", "cyclic", "fine"):
        coll = ModulesCollection()
        m = Module("m")
        coll.set_member("m", m)
        a = Alias("a", "m.r")
        m.set_member("a", a)
        if shape == "broken":
            u = Alias("u", "missing.x")
            m.set_member("u", u)
            r = Alias("r", u)           # resolved link in front of an unresolvable one
        elif shape == "cyclic":
            r = Alias("r", a)           # resolved link leading back to the alias being resolved
        else:
            x = Attribute("x")
            m.set_member("x", x)
            r = Alias("r", x)
        m.set_member("r", r)
        try:
            a.resolve_target()
            raised = None
        except (AliasResolutionError, CyclicAliasError) as e:
            raised = type(e).__name__
        except BaseException as e:  # noqa: BLE001
            raised = type(e).__name__
            problems.append(f"[{shape}] resolve_target raised {raised}")
        if raised and a._target is not None:
            problems.append(f"[{shape}] resolve_target raised {raised} but left the target set (a -> m.r stays 'resolved' although resolution failed)")
        if raised and a._passed_through:
            problems.append(f"[{shape}] passed-through flag left set after {raised}")
        if shape == "fine" and (raised or a._target is not r or x.aliases.get("m.a") is not a):
            problems.append(f"[fine] a -> r -> x: raised={raised}, target set={a._target is r}, listed={x.aliases.get('m.a') is a}")
    if problems:
        return {"reproduced": True, "detail": "; ".join(problems), "signature": "resolve_target:" + problems[0]}
    r = sweep(2, 100, 0, 40)
    b = [x for x in r["bad"] if not x["root_cause"]]
    return {"reproduced": bool(b), "detail": (json.dumps(b[0])[:600] if b else f"direct histories and {r['graphs']} generated import graphs: resolve_target is all-or-nothing"),
            "signature": b[0]["signature"] if b else "ok"}


def replay_alias_graphs(w, obligation, expects):
    r = sweep(3, 300, 0, 60)
    b = r["bad"]
    return {"reproduced": bool(b), "detail": (f"{len(b)} of {r['graphs']} generated import graphs violate the statement, e.g. {b[0]}" if b else f"statement holds on {r['graphs']} generated import graphs"),
            "signature": b[0]["signature"] if b else "ok"}


if __name__ == "__main__":
    if sys.argv[1] == "packages":
        print(json.dumps(sweep_packages(4, int(sys.argv[2]), int(sys.argv[3]), int(sys.argv[4]) if len(sys.argv) > 4 else 60)))
        sys.exit(0)
    k, n, seed = int(sys.argv[1]), int(sys.argv[2]), int(sys.argv[3])
    budget = int(sys.argv[4]) if len(sys.argv) > 4 else 240
    print(json.dumps(sweep(k, n, seed, budget)))
