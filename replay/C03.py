"""Native tier for C03 (run under /venv/bin/python, PYTHONPATH=<tree>/src): expressions rendered by Griffe are parsed back by CPython.

Oracle: ast.dump(ast.parse(str(expr))) == ast.dump(ast.parse(source)) (redundant parentheses and literal spelling vanish in the tree);
flat iteration yields exactly the pieces of the string; the ExprName elements are the ast.Name nodes of the source, in order, each resolvable
in the scope it was built for.  String annotations: parsed iff the module does not postpone annotation evaluation, never inside Literal[...],
and never for decorators / bases / defaults / values.
"""
from __future__ import annotations

import ast
import itertools
import json
import random
import sys
import time

ATOMS = ["a", "b.c", "1", "'s'", "None", "...", "f(x)", "d[k]", "(x, y)", "[x]", "{x}", "{k: v}", "f'{x}!'", 'f"it\'s {x}"']
UNARY = ["-{}", "not {}", "~{}", "+{}"]
BINARY = ["{} + {}", "{} * {}", "{} ** {}", "{} | {}", "{} - {}", "{} @ {}", "{} // {}", "{} << {}", "{} & {}", "{} ^ {}", "{} % {}", "{} / {}", "{} >> {}"]
BOOL = ["{} and {}", "{} or {}"]
COMPARE = ["{} < {}", "{} is not {}", "{} not in {}", "{} == {} != {}"]
OTHER1 = ["({} if c else e)", "(b if {} else e)", "(b if c else {})", "lambda: {}", "lambda x, /, y=1, *a, z, **k: {}", "f({})", "f(*{})", "f(**{})", "f(k={})",
          "{}.attr", "{}[i]", "x[{}]", "x[{}:]", "x[i:{}:2]", "x[{}, y]", "[{}]", "({},)", "({}, y)", "{{{}}}", "{{{}: v}}", "{{k: {}}}", "{{**{}}}",
          "[{} for i in y]", "[i for i in {}]", "[i for i in y if {}]", "{{k: {} for k in y}}", "{{{} for i in y}}", "({} for i in y)", "f({} for i in y)",
          "(n := {})", "f'{{{}}}'", "f'{{{}!r:>10}}'", "f'{{ {} }}'", "f'a{{ {}[1] }}b'", "{}(x)", "*{},", "[i async for i in {}]", "(yield {})", "(yield from {})", "(yield)", "x[({}, y) + z]", "x[()]",
          "(lambda: {})()", "({} for i in y if c if d)", "[j for i in {} for j in i]"]
TEMPLATES2 = BINARY + BOOL + COMPARE[:3]


def parse_value(text):
    """Parse an expression the way Griffe meets it: as the value of an assignment (so a bare `yield` is fine, a bare generator is not)."""
    return ast.parse(f"__x__ = {text}").body[0].value


def norm(src):
    return ast.dump(parse_value(src))


def family(outer_src, tree):
    """Signature of a failure: outer node class / class of the first differing child."""
    body = tree.body
    return type(body).__name__


def lambda_signatures():
    """Every shape of a lambda's parameter list: 0-2 positional-only, 0-2 positional-or-keyword, *args or not, 0-2 keyword-only, **kwargs or not,
    defaults on the last parameter of a group or nowhere (the markers `/` and `*` are what is at stake)."""
    out = []
    for npo, npk, var, nko, kw, dflt in itertools.product(range(3), range(3), (0, 1), range(3), (0, 1), (0, 1)):
        po = [f"p{i}" for i in range(npo)]
        pk = [f"q{i}" for i in range(npk)]
        ko = [f"k{i}" for i in range(nko)]
        if dflt:
            # defaults must be trailing among the positional parameters
            if pk:
                pk[-1] += "=1"
            elif po:
                po[-1] += "=1"
            if ko:
                ko[0] += "=2"
        parts = list(po)
        if po:
            parts.append("/")
        parts += pk
        if var:
            parts.append("*args")
        elif ko:
            parts.append("*")
        parts += ko
        if kw:
            parts.append("**kw")
        out.append(f"lambda {', '.join(parts)}: 0" if parts else "lambda: 0")
    return out


def gen_sources(depth2=True):
    seen = set()
    level1 = []
    for t in UNARY + OTHER1:
        for a in ATOMS:
            level1.append(t.format(a))
    for t in TEMPLATES2:
        for a, b in itertools.product(ATOMS[:6], repeat=2):
            level1.append(t.format(a, b))
    level1.append("a == b != c")
    level1 += lambda_signatures()
    for s in ATOMS + level1:
        if s not in seen:
            seen.add(s)
            yield s
    if not depth2:
        return
    inner = ["a + b", "a * b", "a ** b", "-a", "not a", "a and b", "a or b", "a < b", "a if c else e", "lambda: a", "a, b", "(yield a)", "n := a", "await_", "x for x in y",
             "*a", "a.b", "f(a)", "a[b]", "-a ** b", "a | b", "(a, b)"]
    for t in UNARY + OTHER1 + TEMPLATES2:
        n = t.count("{}")
        for combo in itertools.product(inner, repeat=n):
            for wrap in (False, True):
                try:
                    s = t.format(*[f"({c})" if wrap else c for c in combo])
                except (IndexError, KeyError):
                    continue
                if s not in seen:
                    seen.add(s)
                    yield s


def build(src, future=False):
    import griffe
    from _griffe.expressions import get_expression
    mod = griffe.Module("m")
    if future:
        mod.imports_future_annotations = True
    node = parse_value(src)
    return get_expression(node, parent=mod, parse_strings=False), mod


def names_in_order(tree):
    class V(ast.NodeVisitor):
        def __init__(self):
            self.names = []

        def visit_Name(self, n):
            self.names.append(n.id)
    v = V()
    v.visit(tree)
    return sorted(v.names)


def check_expression(src):
    """-> None | (failure text, signature)"""
    from _griffe.expressions import Expr, ExprName
    try:
        want_tree = ast.Expression(parse_value(src))
    except SyntaxError:
        return "skip"
    want = ast.dump(want_tree.body)
    try:
        expr, mod = build(src)
    except Exception as e:  # noqa: BLE001
        return f"building the expression raised {type(e).__name__}: {e}", f"build-raises:{type(want_tree.body).__name__}"
    try:
        text = str(expr)
    except Exception as e:  # noqa: BLE001
        return f"str() raised {type(e).__name__}: {e}", f"str-raises:{type(want_tree.body).__name__}"
    outer = type(want_tree.body).__name__
    try:
        got = ast.dump(parse_value(text))
    except SyntaxError as e:
        return f"{src!r} renders as {text!r}, which is not valid Python ({e.msg})", f"invalid:{outer}:{culprit(want_tree.body)}"
    if got != want:
        # the same tree once conversions and format specifications of f-string fields are ignored?
        class Strip(ast.NodeTransformer):
            def visit_FormattedValue(self, n):
                self.generic_visit(n)
                n.conversion, n.format_spec = -1, None
                return n
        if ast.dump(Strip().visit(parse_value(src))) == ast.dump(Strip().visit(parse_value(text))):
            return f"{src!r} renders as {text!r}: conversion / format specification of the f-string field is lost", "fstring:conversion-or-format-spec-dropped"
        return f"{src!r} renders as {text!r}, a different syntax tree", f"different-tree:{outer}:{culprit(want_tree.body)}"
    if isinstance(expr, Expr):
        pieces = list(expr.iterate(flat=True))
        if any(not isinstance(p, (str, ExprName)) for p in pieces):
            return f"{src!r}: flat iteration yields {[type(p).__name__ for p in pieces]}", f"flat-types:{outer}"
        if "".join(p if isinstance(p, str) else p.name for p in pieces) != text:
            return f"{src!r}: flat pieces do not spell the string", f"flat-pieces:{outer}"
        got_names = sorted(p.name for p in pieces if isinstance(p, ExprName))
        want_names = names_in_order(want_tree)
        # attribute parts are names too in Griffe's model: a.b yields a and b
        attr_parts = sorted(n.attr for n in ast.walk(want_tree) if isinstance(n, ast.Attribute))
        if got_names != sorted(want_names + attr_parts):
            return f"{src!r}: name elements {got_names}, source names {sorted(want_names + attr_parts)}", f"names:{outer}"
        first_level = list(expr.iterate(flat=False))
        try:
            same = ast.dump(parse_value("".join(str(p) for p in first_level))) == want
        except SyntaxError:
            same = False
        if not same:
            return f"{src!r}: first-level iteration does not spell the expression", f"iter-pieces:{outer}"
    return None


PREC_CLASSES = (ast.BinOp, ast.BoolOp, ast.UnaryOp, ast.Compare, ast.IfExp, ast.Lambda, ast.NamedExpr, ast.Yield, ast.YieldFrom, ast.GeneratorExp, ast.Tuple, ast.Starred, ast.Await)


def culprit(node):
    """The class of the first direct child whose grouping matters (precedence / grouping family), else '-'."""
    for child in ast.iter_child_nodes(node):
        if isinstance(child, PREC_CLASSES):
            return type(child).__name__
        if isinstance(child, (ast.comprehension, ast.keyword, ast.Starred)):
            for g in ast.iter_child_nodes(child):
                if isinstance(g, PREC_CLASSES):
                    return type(g).__name__
    return "-"


# ---------------------------------------------------------------------------- string annotations
def check_strings():
    """The parse-strings decision table through the public API (griffe.visit)."""
    import griffe
    out = []
    body = '''
import typing
from typing import Literal
from typing import Literal as Lit
import typing as t
def dec(*a, **k): return lambda f: f
@dec("A + B")
class C("BaseName" if 0 else object):
    attr: "A | B" = "A + B"
    lit: Literal["A", "B"] = 0
    lit2: typing.Literal["A"] = 0
    lit3: Lit["A"] = 0
    lit4: t.Literal["A"] = 0
    nested: "list[Literal['A']]" = 0
    mixed: dict[Lit["A"], "B"] = 0
    @dec("A + B", key=lambda s="A.b", t='utf-8': s)
    def f(self, x: "A" = "A + B", y: list["B"] = None, z=lambda q="Q": q) -> "R | None": ...
'''
    for future in (False, True):
        src = ("from __future__ import annotations\n" if future else "") + body
        mod = griffe.visit("m", filepath=None, code=src)
        c = mod["C"]
        f = c["f"]
        parsed = not future
        exp = {
            "class decorator": (str(c.decorators[0].value), "dec('A + B')"),
            "function decorator": (str(f.decorators[0].value), "dec('A + B', key=lambda s='A.b', t='utf-8': s)"),
            "attribute value": (str(c["attr"].value), "'A + B'"),
            "attribute annotation": (str(c["attr"].annotation), "A | B" if parsed else "'A | B'"),
            "Literal": (str(c["lit"].annotation), "Literal['A', 'B']"),
            "typing.Literal": (str(c["lit2"].annotation), "typing.Literal['A']"),
            "aliased Literal": (str(c["lit3"].annotation), "Lit['A']"),
            "module-aliased Literal": (str(c["lit4"].annotation), "t.Literal['A']"),
            "Literal nested in a string": (str(c["nested"].annotation), "list[Literal['A']]" if parsed else "'list[Literal[\\'A\\']]'"),
            "Literal next to a string": (str(c["mixed"].annotation), "dict[Lit['A'], B]" if parsed else "dict[Lit['A'], 'B']"),
            "parameter annotation": (str(f.parameters["x"].annotation), "A" if parsed else "'A'"),
            "parameter default": (str(f.parameters["x"].default), "'A + B'"),
            "nested parameter annotation": (str(f.parameters["y"].annotation), "list[B]" if parsed else "list['B']"),
            "lambda default": (str(f.parameters["z"].default), "lambda q='Q': q"),
            "return annotation": (str(f.returns), "R | None" if parsed else "'R | None'"),
        }
        for what, (got, want) in exp.items():
            if got != want and ast.dump(ast.parse(got, mode="eval")) != ast.dump(ast.parse(want, mode="eval")):
                out.append({"failure": f"{what} ({'postponed' if future else 'eager'} annotations): stored as {got!r}, expected {want!r}", "signature": f"strings:{what}"})
    return out


def bounded(budget_s, depth2):
    import logging
    logging.disable(logging.CRITICAL)
    t0 = time.time()
    bad, sigs, cases = [], {}, 0
    for src in gen_sources(depth2):
        if time.time() - t0 > budget_s:
            break
        r = check_expression(src)
        if r == "skip":
            continue
        cases += 1
        if r:
            f, sig = r
            if sig not in sigs:
                sigs[sig] = 0
                bad.append({"source": src, "failure": f, "signature": sig})
            sigs[sig] += 1
    for b in check_strings():
        bad.append(b)
    return {"cases": cases, "bad": bad, "counts": sigs, "wall_s": round(time.time() - t0, 1)}


def replay_expression(w, obligation, expects):
    import logging
    logging.disable(logging.CRITICAL)
    want = (expects or {}).get("family")
    if (expects or {}).get("clause") == "strings":
        fails = check_strings()
        hit = [b for b in fails if not want or want in b["signature"]] or fails
        if hit:
            return {"reproduced": True, "detail": hit[0]["failure"], "signature": hit[0]["signature"]}
        return {"reproduced": False, "detail": "the string-annotation table holds on the fixture module"}
    t0 = time.time()
    for src in gen_sources(True):
        if time.time() - t0 > 60:
            break
        r = check_expression(src)
        if r and r != "skip":
            f, sig = r
            if not want or sig.startswith(want) or want in sig:
                return {"reproduced": True, "detail": f, "input": {"source": src}, "signature": sig}
    return {"reproduced": False, "detail": "no expression of the catalogue shows it"}


if __name__ == "__main__":
    print(json.dumps(bounded(float(sys.argv[1]), sys.argv[2] == "1")))
