"""Native replay for C09: jsonschema validation of real full dumps (shares the generator with C08)."""
import json

from replay import C08


def replay_schema(w, obligation, expects):
    r = C08.sweep(60, "schema")
    b = [x for x in r["bad"] if not x["root_cause"] and x["signature"] not in ("full-dump-namespace", "full-dump-builtin")]
    return {"reproduced": bool(b), "detail": (json.dumps(b[0])[:700] if b else f"{r['cases']} full dumps validate against docs/schema.json (known findings aside)"),
            "signature": b[0]["signature"] if b else "ok"}
