"""Native round-trip tier for C13 (run under /venv/bin/python, PYTHONPATH=<tree>/src): render a section list in the documented layout of a style, parse it
with the real parser, compare field by field.  The documented object is a function whose signature supplies what the docstring omits."""
from __future__ import annotations

import itertools
import json
import logging
import random
import sys
import time

from _griffe.docstrings.utils import parse_docstring_annotation
from _griffe.enumerations import Parser
from _griffe.models import Docstring, Function, Module, Parameter, Parameters

ITEM_KINDS = ["parameters", "other parameters", "returns", "yields", "receives", "raises", "warns", "attributes", "functions", "classes", "modules"]
GOOGLE_TITLES = {"parameters": "Args", "other parameters": "Keyword Args", "returns": "Returns", "yields": "Yields", "receives": "Receives", "raises": "Raises",
                 "warns": "Warns", "attributes": "Attributes", "functions": "Functions", "classes": "Classes", "modules": "Modules", "examples": "Examples"}
NUMPY_TITLES = {"parameters": "Parameters", "other parameters": "Other Parameters", "returns": "Returns", "yields": "Yields", "receives": "Receives", "raises": "Raises",
                "warns": "Warns", "attributes": "Attributes", "functions": "Functions", "classes": "Classes", "modules": "Modules", "examples": "Examples", "deprecated": "Deprecated"}
SIG = {"alpha": ("int", "1"), "beta": ("str", "'b'"), "gamma": (None, None), "delta": ("list[int]", None)}
DESCS = [["Plain text."], ["First line,", "second line."], ["Paragraph one.", "", "Paragraph two."], ["Mentions: a colon."], ["Ends (with) parens."],
         # markup inside a description: an underlined sub-heading and a horizontal rule (a line of dashes after a text line is no section boundary here)
         ["Summary.", "", "Details", "-------", "Underlined heading above."], ["Before the rule.", "---", "After the rule."]]
TYPES = [None, "int", "dict[str, int]", "str | None"]
NAMES = ["alpha", "beta", "gamma", "delta", "omega"]
EXCS = ["ValueError", "KeyError", "mod.CustomError"]


def parent_function(kind="function"):
    mod = Module("m")
    fn = Function("f", parameters=Parameters(*[Parameter(n, annotation=a, default=d) for n, (a, d) in SIG.items()]))
    mod.set_member("f", fn)
    fn.returns = parse_docstring_annotation("tuple[int, str, bool]", Docstring("", parent=mod))
    return fn


# ---------------------------------------------------------------------------- renderers
def g_item(head, desc, indent="    "):
    out = [f"{indent}{head}: {desc[0]}"]
    out += [(f"{indent}{indent}{l}" if l else "") for l in desc[1:]]
    return out


def render_google(sections):
    lines = []
    for s in sections:
        if lines:
            lines.append("")
        k = s["kind"]
        if k == "text":
            lines += s["value"].split("\n")
        elif k == "admonition":
            lines.append(f"{s['title']}:")
            lines += ["    " + l if l else "" for l in s["text"].split("\n")]
        elif k == "examples":
            lines.append("Examples:")
            for kind, val in s["value"]:
                lines += ["    " + l if l else "" for l in val.split("\n")]
                lines.append("")
            lines.pop()
        else:
            lines.append(f"{GOOGLE_TITLES[k]}:")
            for it in s["items"]:
                if k in ("parameters", "other parameters", "attributes"):
                    head = it["name"] + (f" ({it['annotation']})" if it["annotation"] else "")
                elif k in ("returns", "yields", "receives"):
                    head = (it["name"] or "") + (f" ({it['annotation']})" if it["annotation"] else "")
                    head = head.lstrip()
                elif k in ("raises", "warns"):
                    head = it["annotation"]
                else:
                    head = it["signature"] or it["name"]
                lines += g_item(head, it["description"])
    return "\n".join(lines)


def render_numpy(sections):
    lines = []
    for s in sections:
        if lines:
            lines.append("")
        k = s["kind"]
        if k == "text":
            lines += s["value"].split("\n")
        elif k == "admonition":
            lines += [s["title"], "-" * len(s["title"])] + s["text"].split("\n")
        elif k == "examples":
            lines += ["Examples", "--------"]
            for kind, val in s["value"]:
                lines += val.split("\n")
                lines.append("")
            lines.pop()
        elif k == "deprecated":
            lines += ["Deprecated", "----------", s["version"]] + ["    " + l if l else "" for l in s["text"].split("\n")]
        else:
            t = NUMPY_TITLES[k]
            lines += [t, "-" * len(t)]
            for it in s["items"]:
                if k in ("parameters", "other parameters", "attributes"):
                    head = it["name"] + (f" : {it['annotation']}" if it["annotation"] else "")
                elif k in ("returns", "yields", "receives"):
                    head = (f"{it['name']} : {it['annotation']}" if it["name"] and it["annotation"] else (it["annotation"] or f"{it['name']} :"))
                elif k in ("raises", "warns"):
                    head = it["annotation"]
                else:
                    head = it["signature"] or it["name"]
                lines.append(head)
                lines += ["    " + l if l else "" for l in it["description"]]
    return "\n".join(lines)


def render_sphinx(sections):
    lines = []
    for s in sections:
        k = s["kind"]
        if k == "text":
            lines += s["value"].split("\n") + [""]
        elif k == "parameters":
            for it in s["items"]:
                desc = [l for l in it["description"] if l]
                if it["annotation"] and it.get("inline", True) and " " not in it["annotation"]:
                    lines.append(f":param {it['annotation']} {it['name']}: {desc[0]}")
                else:
                    lines.append(f":param {it['name']}: {desc[0]}")
                lines += ["    " + l for l in desc[1:]]
                if it["annotation"] and not (it.get("inline", True) and " " not in it["annotation"]):
                    lines.append(f":type {it['name']}: {it['annotation']}")
        elif k == "attributes":
            for it in s["items"]:
                desc = [l for l in it["description"] if l]
                lines.append(f":var {it['name']}: {desc[0]}")
                lines += ["    " + l for l in desc[1:]]
                if it["annotation"]:
                    lines.append(f":vartype {it['name']}: {it['annotation']}")
        elif k == "returns":
            it = s["items"][0]
            desc = [l for l in it["description"] if l]
            lines.append(f":returns: {desc[0]}")
            lines += ["    " + l for l in desc[1:]]
            if it["annotation"]:
                lines.append(f":rtype: {it['annotation']}")
        elif k == "raises":
            for it in s["items"]:
                desc = [l for l in it["description"] if l]
                lines.append(f":raises {it['annotation']}: {desc[0]}")
                lines += ["    " + l for l in desc[1:]]
    return "\n".join(lines).rstrip("\n")


# ---------------------------------------------------------------------------- comparison
def ann_text(a):
    return None if a is None else str(a)


def compare(style, sections, parsed, parent):
    """-> list of differences between what was written and what was recovered."""
    out = []
    if style == "sphinx":
        want = {}
        for s in sections:
            if s["kind"] != "text":
                want.setdefault(s["kind"], []).extend(s["items"])
        got = {p.kind.value: p for p in parsed if p.kind.value != "text"}
        if set(got) != set(want):
            return [f"section kinds {sorted(got)} recovered, {sorted(want)} written"]
        for k, items in want.items():
            vals = got[k].value
            if len(vals) != len(items):
                out.append(f"{k}: {len(vals)} items recovered, {len(items)} written")
                continue
            for it, v in zip(items, vals):
                out += compare_item(style, k, it, v, parent)
        text_w = " ".join(s["value"] for s in sections if s["kind"] == "text").split()
        text_g = " ".join(p.value for p in parsed if p.kind.value == "text").split()
        if text_w != text_g:
            out.append(f"free text recovered as {' '.join(text_g)[:60]!r}, written {' '.join(text_w)[:60]!r}")
        return out
    # Google / Numpy: same sections in written order (adjacent text merges)
    want = []
    for s in sections:
        if s["kind"] == "text" and want and want[-1]["kind"] == "text":
            want[-1] = {"kind": "text", "value": want[-1]["value"] + "\n\n" + s["value"]}
        else:
            want.append(s)
    gk = [p.kind.value for p in parsed]
    wk = [s["kind"] for s in want]
    if gk != wk:
        return [f"sections recovered {gk}, written {wk}"]
    for s, p in zip(want, parsed):
        k = s["kind"]
        if k == "text":
            if p.value.strip("\n") != s["value"].strip("\n"):
                out.append(f"text section recovered as {p.value[:50]!r}, written {s['value'][:50]!r}")
        elif k == "admonition":
            if p.title != s["title"] or p.value.description.strip("\n") != s["text"]:
                out.append(f"admonition {s['title']!r}: recovered title {p.title!r} / text {p.value.description[:40]!r}, written text {s['text'][:40]!r}")
        elif k == "examples":
            got = [(kk.value, vv) for kk, vv in p.value]
            if got != [(a, b) for a, b in s["value"]]:
                out.append(f"examples recovered as {got}, written {s['value']}")
        elif k == "deprecated":
            if p.value.version != s["version"] or p.value.description != s["text"]:
                out.append(f"deprecated: recovered {p.value.version!r}/{p.value.description!r}")
        else:
            if len(p.value) != len(s["items"]):
                out.append(f"{k}: {len(p.value)} items recovered, {len(s['items'])} written: {[getattr(v, 'name', None) or ann_text(v.annotation) for v in p.value]}")
                continue
            for it, v in zip(s["items"], p.value):
                out += compare_item(style, k, it, v, parent)
    return out


def compare_item(style, k, it, v, parent):
    out = []
    desc = "\n".join(it["description"]) if style != "sphinx" else " ".join(l for l in it["description"] if l)
    if v.description != desc:
        out.append(f"{k} item {it.get('name') or it.get('annotation')!r}: description recovered as {v.description!r}, written {desc!r}")
    if k in ("parameters", "other parameters", "attributes", "functions", "classes", "modules"):
        if v.name != it["name"]:
            out.append(f"{k}: name recovered as {v.name!r}, written {it['name']!r}")
    if k in ("returns", "yields", "receives") and style != "sphinx":
        if (v.name or "") != (it["name"] or ""):
            out.append(f"{k}: name recovered as {v.name!r}, written {it['name']!r}")
    if k in ("functions", "classes", "modules"):
        if k != "modules" or style == "numpy":
            if ann_text(v.annotation) != it["signature"]:
                out.append(f"{k} {it['name']}: signature recovered as {ann_text(v.annotation)!r}, written {it['signature']!r}")
        return out
    written = it["annotation"]
    got = ann_text(v.annotation)
    if written is not None:
        if got != written:
            if style == "sphinx" and k == "parameters" and got == SIG.get(it["name"], (None, None))[0]:
                out.append(f"SPHINX-TYPE-AFTER-PARAM: parameters item {it['name']!r}: the ':type:' field written after ':param:' is ignored, the signature annotation {got!r} is kept instead of {written!r}")
            else:
                out.append(f"{k} item {it.get('name')!r}: annotation recovered as {got!r}, written {written!r}")
    elif k in ("parameters", "other parameters"):
        sig = SIG.get(it["name"], (None, None))[0]
        if got != sig:
            out.append(f"{k} item {it['name']!r}: annotation omitted, signature has {sig!r}, recovered {got!r}")
    elif k == "attributes":
        if got is not None:
            out.append(f"attributes item {it['name']!r}: annotation omitted and unknown to the parent, recovered {got!r}")
    if k in ("parameters", "other parameters"):
        sigd = SIG.get(it["name"], (None, None))[1]
        gotd = None if v.value is None else str(v.value)
        if gotd != sigd:
            out.append(f"{k} item {it['name']!r}: default recovered as {gotd!r}, signature has {sigd!r}")
    return out


# ---------------------------------------------------------------------------- generation
def gen_section(rnd, style, kind=None):
    kinds = ITEM_KINDS + ["text", "admonition", "examples"] + (["deprecated"] if style == "numpy" else [])
    if style == "sphinx":
        kinds = ["parameters", "attributes", "returns", "raises", "text"]
    k = kind or rnd.choice(kinds)
    if k == "text":
        return {"kind": "text", "value": rnd.choice(["Some free text.", "Two lines\nof text.", "A paragraph.\n\nAnother one."])}
    if k == "admonition":
        return {"kind": "admonition", "title": rnd.choice(["Note", "See Also", "Important"]), "text": rnd.choice(["Take care.", "Line one\nline two."])}
    if k == "examples":
        return {"kind": "examples", "value": [("text", "Run it:"), ("examples", ">>> f(1)\n1")][: rnd.randint(1, 2)] if rnd.random() < 0.7 else [("examples", ">>> 1 + 1\n2")]}
    if k == "deprecated":
        return {"kind": "deprecated", "version": "1.2", "text": "Use g instead."}
    n = 1 if (style == "sphinx" and k == "returns") else rnd.randint(1, 3)
    names = rnd.sample(NAMES, n)
    items = []
    for nm in names:
        desc = rnd.choice(DESCS)
        if k in ("parameters", "other parameters", "attributes"):
            items.append({"name": nm, "annotation": rnd.choice(TYPES), "description": desc, "inline": rnd.random() < 0.5})
        elif k in ("returns", "yields", "receives"):
            ann = rnd.choice(TYPES[1:])
            items.append({"name": rnd.choice([nm, ""]) if style != "sphinx" else "", "annotation": ann, "description": desc})
        elif k in ("raises", "warns"):
            items.append({"annotation": rnd.choice(EXCS), "description": desc})
        else:
            items.append({"name": nm, "signature": rnd.choice([None, f"{nm}(a, b=1)"]) if k != "modules" else None, "description": desc})
    return {"kind": k, "items": items}


def gen_structures(style, seed, n_random):
    rnd = random.Random(seed)
    kinds = ["parameters", "attributes", "returns", "raises"] if style == "sphinx" else ITEM_KINDS
    # deterministic: every kind alone, after text, before text, next to every other kind
    for k in kinds:
        r2 = random.Random(hash((style, k)) & 0xFFFF)
        yield [{"kind": "text", "value": "Summary."}, gen_section(r2, style, k)]
        if style == "google":     # numpydoc and Sphinx fields have no free text after a section: everything up to the next title belongs to it
            yield [{"kind": "text", "value": "Summary."}, gen_section(r2, style, k), {"kind": "text", "value": "Trailing text."}]
        if style == "google":
            yield [{"kind": "text", "value": "Summary."}, {"kind": "admonition", "title": "Note", "text": "Careful."}, gen_section(r2, style, k), {"kind": "text", "value": "More."}]
        if style == "numpy":
            yield [{"kind": "text", "value": "Summary."}, {"kind": "admonition", "title": "Note", "text": "Careful."}, gen_section(r2, style, k)]
        for k2 in kinds:
            if k2 != k:
                yield [{"kind": "text", "value": "Summary."}, gen_section(r2, style, k), gen_section(r2, style, k2)]
    for _ in range(n_random):
        secs = [{"kind": "text", "value": "Summary."}]
        used = set()
        for _ in range(rnd.randint(1, 5)):
            s = gen_section(rnd, style)
            if s["kind"] in used and s["kind"] not in ("text", "admonition"):
                continue
            if s["kind"] == "text" and (secs[-1]["kind"] == "text" or style != "google"):
                continue
            used.add(s["kind"])
            secs.append(s)
        yield secs


def check_structure(style, sections, parent, options=None):
    text = {"google": render_google, "numpy": render_numpy, "sphinx": render_sphinx}[style](sections)
    doc = Docstring(text, parent=parent)
    try:
        parsed = doc.parse(Parser(style), **(options or {}))
    except Exception as e:  # noqa: BLE001
        return [f"parser raised {type(e).__name__}: {e}"], text
    return compare(style, sections, parsed, parent), text


def omitted_value_annotations():
    """Returns / Yields / Receives items written WITHOUT a type take it from the documented object: the whole returned / yielded / received type when one item
    is documented, its elements in order when several are (Google and Numpy; plain function returning a tuple, generator with tuple components)."""
    out, n = [], 0
    mod = Module("m")
    plain = Function("f")
    gen = Function("g")
    for fn in (plain, gen):
        mod.set_member(fn.name, fn)
    plain.returns = parse_docstring_annotation("tuple[int, str]", Docstring("", parent=mod))
    gen.returns = parse_docstring_annotation("Generator[tuple[int, str], tuple[float, bytes], tuple[bool, complex]]", Docstring("", parent=mod))
    whole = {"yields": "tuple[int, str]", "receives": "tuple[float, bytes]", "returns": "tuple[bool, complex]"}
    for style in ("google", "numpy"):
        for kind, parent in (("returns", plain), ("yields", gen), ("receives", gen)):
            for count in (1, 2):
                items = [{"name": f"v{i}", "annotation": None, "description": ["Text."]} for i in range(count)]
                text = {"google": render_google, "numpy": render_numpy}[style]([{"kind": "text", "value": "Summary."}, {"kind": kind, "items": items}])
                n += 1
                try:
                    parsed = Docstring(text, parent=parent).parse(Parser(style))
                except Exception as e:  # noqa: BLE001
                    out.append((style, text, f"parser raised {type(e).__name__}: {e}"))
                    continue
                sec = [s_ for s_ in parsed if s_.kind.value == kind]
                if len(sec) != 1 or len(sec[0].value) != count:
                    out.append((style, text, f"{kind}: {count} untyped items written, recovered {[len(x.value) for x in sec]}"))
                    continue
                full = "tuple[int, str]" if parent is plain else whole[kind]
                want = [full] if count == 1 else [e.strip() for e in full[len("tuple["):-1].split(",")]
                got = [ann_text(v.annotation) for v in sec[0].value]
                if got != want:
                    out.append((style, text, f"{kind}: {count} untyped item(s) under `{parent.returns}`: annotations recovered as {got}, the signature gives {want}"))
    return n, out


def bounded(seed, n_random, budget_s):
    logging.disable(logging.CRITICAL)
    t0 = time.time()
    parent = parent_function()
    bad, sigs, cases = [], set(), 0
    n_om, om = omitted_value_annotations()
    cases += n_om
    for style, text, dd in om:
        sig = f"{style}:omitted-annotation:" + dd.split(":")[0]
        if sig not in sigs:
            sigs.add(sig)
            bad.append({"style": style, "docstring": text, "failure": dd, "signature": sig})
    for style in ("google", "numpy", "sphinx"):
        ts = time.time()
        for secs in gen_structures(style, seed, n_random):
            if time.time() - ts > budget_s / 3:
                break
            cases += 1
            diffs, text = check_structure(style, secs, parent)
            for dd in diffs[:1]:
                sig = f"{style}:" + "".join(ch for ch in dd.split(":")[0] if not ch.isdigit())[:40]
                if sig not in sigs:
                    sigs.add(sig)
                    bad.append({"style": style, "docstring": text, "failure": dd, "signature": sig})
    return {"cases": cases, "bad": bad, "wall_s": round(time.time() - t0, 1)}


def replay_roundtrip(w, obligation, expects):
    logging.disable(logging.CRITICAL)
    parts = (obligation or "").split(".")
    style = parts[1] if len(parts) > 1 and parts[1] in ("google", "numpy", "sphinx") else None
    parent = parent_function()
    t0 = time.time()
    for st in ([style] if style else ["google", "numpy", "sphinx"]):
        for secs in gen_structures(st, 0, 4000):
            if time.time() - t0 > 80:
                break
            diffs, text = check_structure(st, secs, parent)
            if diffs:
                return {"reproduced": True, "detail": f"{st}: {diffs[0]}", "input": {"style": st, "docstring": text}, "signature": f"{st}:roundtrip"}
    return {"reproduced": False, "detail": "every rendered structure of the catalogue parses back"}


if __name__ == "__main__":
    print(json.dumps(bounded(int(sys.argv[1]), int(sys.argv[2]), float(sys.argv[3]))))
