"""Native replays for C15 (real code, fault injection by monkeypatching the foreign calls only)."""
import itertools
import sys
import tempfile
import types
from pathlib import Path

import _griffe.importer as importer
import _griffe.loader as loader_mod
from _griffe.exceptions import LoadingError

EXCS = [ImportError, ModuleNotFoundError, ValueError, AttributeError, KeyError, OSError, SyntaxError,
        UnicodeDecodeError, RuntimeError, KeyboardInterrupt, SystemExit, GeneratorExit, BaseException]


def _mk(cls):
    if cls is UnicodeDecodeError:
        return UnicodeDecodeError("utf8", b"x", 0, 1, "bad")
    return cls("injected")


def replay_sys_path(w, obligation, expects):
    n = max(0, min(int(w.get("n_paths", 1)), 3))
    problems = []
    for rebinds, same in ((False, False), (True, False), (True, True), (False, True)):
        for exc in [None] + EXCS:
            old = sys.path
            old_copy = list(old)
            req = list(old) if same else [f"/nonexistent/p{i}" for i in range(n)]
            try:
                try:
                    with importer.sys_path(*req):
                        if rebinds:
                            sys.path = ["/user/rebound"]
                        if exc is not None:
                            raise _mk(exc)
                except BaseException as e:  # noqa: BLE001
                    if exc is None or not isinstance(e, exc):
                        problems.append(f"unexpected {type(e).__name__} (body raised {exc})")
                else:
                    if exc is not None:
                        problems.append(f"{exc.__name__} raised in the body was swallowed")
                if req and sys.path is not old:
                    problems.append(f"sys.path not restored (paths={'same as sys.path' if same else n}, body rebinds={rebinds}, body raises={getattr(exc, '__name__', None)})")
                if not req and not rebinds and sys.path is not old:
                    problems.append("sys.path replaced although no paths were given")
            finally:
                sys.path = old
                sys.path[:] = old_copy
    return {"reproduced": bool(problems), "detail": "; ".join(problems[:4]) or "sys.path restored on every exit",
            "signature": "sys_path:" + (problems[0] if problems else "ok")}


def replay_dynamic_import(w, obligation, expects):
    problems = []
    real_import = importer.import_module
    for where in ("import", "getattr"):
        for exc in EXCS:
            old = sys.path
            mod = types.ModuleType("c15_fake_mod")

            class Boom:
                def __getattr__(self, name, exc=exc):
                    raise _mk(exc)
            mod.obj = Boom()

            def fake_import(name, where=where, exc=exc, mod=mod):
                if name == "c15_fake_mod":
                    if where == "import":
                        raise _mk(exc)
                    return mod
                raise ModuleNotFoundError(name)
            importer.import_module = fake_import
            try:
                try:
                    importer.dynamic_import("c15_fake_mod.obj.attr", ["/nonexistent/x"])
                except ImportError:
                    pass
                except BaseException as e:  # noqa: BLE001
                    problems.append(f"{type(e).__name__} escaped dynamic_import ({where} raised {exc.__name__})")
                else:
                    problems.append(f"dynamic_import returned although {where} raised {exc.__name__}")
                if sys.path is not old:
                    problems.append(f"sys.path not restored after {where} raised {exc.__name__}")
                    sys.path = old
            finally:
                importer.import_module = real_import
    # real imports of code that tampers with sys.path at import time: in the top-level package, in a sub-module imported while the package is
    # already in sys.modules, succeeding / raising / exiting
    import tempfile
    import textwrap
    from pathlib import Path
    for where, ending in itertools.product(("package", "submodule", "second submodule"), ("ok", "raise RuntimeError('x')", "raise SystemExit(3)")):
        with tempfile.TemporaryDirectory() as tmp:
            pkg = f"c15pkg_{abs(hash((where, ending))) % 10 ** 6}"
            d = Path(tmp) / pkg
            d.mkdir()
            tamper = "import sys\nsys.path = ['/c15/left/behind'] + sys.path\n" + ("" if ending == "ok" else ending + "\n")
            (d / "__init__.py").write_text(tamper if where == "package" else "")
            (d / "sub.py").write_text(tamper if where == "submodule" else "x = 1\n")
            (d / "sub2.py").write_text(tamper if where == "second submodule" else "y = 1\n")
            old, old_value = sys.path, list(sys.path)
            try:
                for target in (pkg, pkg + ".sub", pkg + ".sub2"):
                    try:
                        importer.dynamic_import(target, [tmp])
                    except ImportError:
                        pass
                    except BaseException as e:  # noqa: BLE001
                        problems.append(f"{type(e).__name__} escaped dynamic_import({target}) ({where} tampers, {ending})")
                    if sys.path is not old or sys.path != old_value:
                        problems.append(f"sys.path not left as it was after importing {target.replace(pkg, 'pkg')} (the {where} rebinds sys.path at import time, then: {ending})")
                        sys.path = old
                        sys.path[:] = old_value
                        break
            finally:
                for k in [k for k in sys.modules if k == pkg or k.startswith(pkg + ".")]:
                    del sys.modules[k]
    return {"reproduced": bool(problems), "detail": "; ".join(problems[:4]) or "only ImportError escapes; sys.path restored",
            "signature": "dynamic_import:" + (problems[0] if problems else "ok")}


def _static_loader(**kw):
    from _griffe.loader import GriffeLoader
    return GriffeLoader(allow_inspection=False, **kw)


def replay_static_load(w, obligation, expects):
    """Load a package containing side-effecting source, a compiled-looking module and a missing package, with inspection disallowed."""
    problems = []
    calls = []
    real_inspect, real_dyn = loader_mod.inspect, loader_mod.dynamic_import

    def spy_inspect(*a, **k):
        calls.append(("inspect", a[:1]))
        return real_inspect(*a, **k)

    def spy_dyn(*a, **k):
        calls.append(("dynamic_import", a[:1]))
        return real_dyn(*a, **k)
    loader_mod.inspect, loader_mod.dynamic_import = spy_inspect, spy_dyn
    old_path, old_mods = sys.path, set(sys.modules)
    try:
        with tempfile.TemporaryDirectory() as tmp:
            pkg = Path(tmp) / "c15pkg"
            pkg.mkdir()
            marker = Path(tmp) / "executed.txt"
            (pkg / "__init__.py").write_text(f"open({str(marker)!r}, 'a').write('init')\nfrom .sub import x\n")
            (pkg / "sub.py").write_text(f"open({str(marker)!r}, 'a').write('sub')\nx = 1\n")
            (pkg / "native.cpython-312-x86_64-linux-gnu.so").write_bytes(b"\x7fELF")
            (pkg / "native2.pyd").write_bytes(b"MZ")
            import py_compile
            (pkg / "bytecode_src.py").write_text(f"open({str(marker)!r}, 'a').write('pyc')\n")
            py_compile.compile(str(pkg / "bytecode_src.py"), cfile=str(pkg / "sourceless.pyc"))
            (pkg / "bytecode_src.py").unlink()
            # an external top-level module that exists only as byte code, reached through an alias: resolving external aliases must not import it either
            (Path(tmp) / "c15ext_src.py").write_text(f"open({str(marker)!r}, 'a').write('ext')\ny = 2\n")
            py_compile.compile(str(Path(tmp) / "c15ext_src.py"), cfile=str(Path(tmp) / "c15ext.pyc"))
            (Path(tmp) / "c15ext_src.py").unlink()
            (pkg / "sub.py").write_text(f"open({str(marker)!r}, 'a').write('sub')\nx = 1\nfrom c15ext import y\n")
            ld = _static_loader(search_paths=[tmp])
            try:
                mod = ld.load("c15pkg")
                ld.resolve_aliases(implicit=True, external=True)
                if "native" in mod.members or "native2" in mod.members:
                    problems.append("compiled module was loaded instead of skipped")
            except BaseException as e:  # noqa: BLE001
                problems.append(f"static load raised {type(e).__name__}: {e}")
            try:
                _static_loader(search_paths=[tmp]).load("c15_missing_pkg")
                problems.append("missing package did not raise")
            except ModuleNotFoundError:
                pass
            except BaseException as e:  # noqa: BLE001
                problems.append(f"missing package raised {type(e).__name__} instead of ModuleNotFoundError")
            # a lone compiled module requested directly
            (Path(tmp) / "lonely.so").write_bytes(b"\x7fELF")
            try:
                _static_loader(search_paths=[tmp]).load("lonely")
                problems.append("compiled top-level module loaded without inspection")
            except (LoadingError, ModuleNotFoundError):
                pass
            except BaseException as e:  # noqa: BLE001
                problems.append(f"compiled top-level module raised {type(e).__name__}")
            if marker.exists():
                problems.append("module-level side effect happened: " + marker.read_text())
    finally:
        loader_mod.inspect, loader_mod.dynamic_import = real_inspect, real_dyn
    if calls:
        problems.append(f"execution sites reached with inspection disallowed: {calls[:3]}")
    new = [m for m in set(sys.modules) - old_mods if m.startswith("c15")]
    if new:
        problems.append(f"analysed modules entered sys.modules: {new}")
    if sys.path is not old_path:
        problems.append("sys.path not restored")
    return {"reproduced": bool(problems), "detail": "; ".join(problems[:4]) or "no execution, compiled modules skipped, sys.path intact",
            "signature": "static_load:" + (problems[0] if problems else "ok")}


def replay_inspect_exit(w, obligation, expects):
    """Inspection allowed: a module that exits / raises at import time."""
    from _griffe.loader import GriffeLoader
    problems = []
    for stmt, exc_name in (("raise SystemExit(3)", "SystemExit"), ("import sys; sys.exit(2)", "SystemExit"), ("raise ValueError('x')", "ValueError"),
                           ("import c15_missing_dependency", "ModuleNotFoundError")):
        old_path = sys.path
        with tempfile.TemporaryDirectory() as tmp:
            name = "c15exit_" + exc_name.lower() + str(abs(hash(stmt)) % 1000)
            (Path(tmp) / f"{name}.py").write_text(stmt + "\n")
            try:
                GriffeLoader(force_inspection=True, search_paths=[tmp]).load(name)
                problems.append(f"loading a module that does `{stmt}` under inspection returned normally")
            except LoadingError:
                pass
            except BaseException as e:  # noqa: BLE001
                problems.append(f"`{stmt}` under inspection escaped as {type(e).__name__}")
            sys.modules.pop(name, None)
        if sys.path is not old_path:
            problems.append(f"sys.path not restored after `{stmt}`")
            sys.path = old_path
    return {"reproduced": bool(problems), "detail": "; ".join(problems[:4]) or "import-time failures become LoadingError; sys.path restored",
            "signature": "inspect_exit:" + (problems[0] if problems else "ok")}


def bounded():
    """The native scenarios of all replays as one bounded tier (static loads of side-effecting / compiled / source-less / missing modules, inspection of
    modules that raise or exit or tamper with sys.path, the sys_path context manager under every exception class)."""
    out, cases = [], 0
    for fn in (replay_sys_path, replay_dynamic_import, replay_static_load, replay_inspect_exit):
        r = fn({}, "bounded", {})
        cases += 1
        if r.get("reproduced"):
            out.append({"scenario": fn.__name__, "failure": r.get("detail"), "signature": r.get("signature")})
    return {"cases": cases, "bad": out}


if __name__ == "__main__":
    import json
    print(json.dumps(bounded()))
