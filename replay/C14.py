"""Native bounded tier / replay for C14: generated file trees over two search paths; CPython's import machinery is the oracle;
directory listing order is permuted by wrapping os.walk / Path.iterdir."""
import importlib.machinery
import itertools
import json
import re
import logging
import os
import pkgutil
import random
import sys
import tempfile
import time
from pathlib import Path

logging.disable(logging.CRITICAL)

import _griffe.finder as finder_mod  # noqa: E402
from _griffe.loader import GriffeLoader  # noqa: E402

TOP_FORMS = ["none", "module", "bare_dir", "package", "stub_package", "package_and_module", "bare_dir_and_module"]
INNER = {
    "mod.py": "x = 1\n", "mod.pyi": "x: int\n", "other.py": "y = 2\n", "sub/__init__.py": "", "sub/leaf.py": "z = 3\n", "sub/deep/__init__.py": "", "sub/deep/m.py": "",
    "nsdir/inner.py": "", "data.txt": "hello", "__pycache__/mod.cpython-312.pyc": "junk", "stubonly.pyi": "s: int\n",
    # a module file next to a same-named sub-package (the package wins for CPython), and a sub-package whose files sort on both sides of __init__.py
    "sub.py": "shadowed = 1\n", "pk2/__init__.py": "", "pk2/aaa.py": "", "pk2/Zed.py": "", "pk2/_x.py": "",
}
# directed only (kept out of the random key list above so the random layouts stay what they were): a sub-package and a module whose names start with
# two underscores -- CPython's walker lists them like any other; only `__pycache__` is not a package
DUNDER = {"sub/__compat__/__init__.py": "", "sub/__compat__/shim.py": "c = 1\n", "__future_mod__.py": "f = 1\n"}
INNER_ALL = {**INNER, **DUNDER}


def build(root, forms, inner_sets):
    for i, form in enumerate(forms):
        sp = Path(root) / f"sp{i}"
        sp.mkdir()
        if form in ("module", "package_and_module", "bare_dir_and_module"):
            (sp / "top.py").write_text("m = 0\n")
        if form in ("bare_dir", "package", "stub_package", "package_and_module", "bare_dir_and_module"):
            d = sp / "top"
            d.mkdir()
            if form in ("package", "package_and_module"):
                (d / "__init__.py").write_text("")
            if form == "stub_package":
                (d / "__init__.pyi").write_text("")
            for rel in inner_sets[i]:
                f = d / rel
                f.parent.mkdir(parents=True, exist_ok=True)
                f.write_text(INNER_ALL[rel])
    return [str(Path(root) / f"sp{i}") for i in range(len(forms))]


class Order:
    """Permute what os.walk and Path.iterdir return (inside _griffe.finder only)."""

    def __init__(self, mode, seed=0):
        self.mode, self.rnd = mode, random.Random(seed)

    def perm(self, lst):
        lst = sorted(lst, key=str)
        if self.mode == "desc":
            lst.reverse()
        elif self.mode == "shuffle":
            self.rnd.shuffle(lst)
        return lst

    def __enter__(self):
        self.real_walk, self.real_iterdir = os.walk, Path.iterdir
        order = self

        def walk(top, topdown=True, followlinks=False, **kw):
            for root, dirs, files in order.real_walk(top, topdown=topdown, followlinks=followlinks, **kw):
                dirs[:] = order.perm(dirs)
                yield root, dirs, order.perm(files)

        def iterdir(self_):
            return iter(order.perm(list(order.real_iterdir(self_))))
        finder_mod.os.walk = walk
        Path.iterdir = iterdir
        return self

    def __exit__(self, *a):
        finder_mod.os.walk = self.real_walk
        Path.iterdir = self.real_iterdir


def griffe_tree(search_paths, request="top"):
    ld = GriffeLoader(search_paths=search_paths, allow_inspection=False)
    top = ld.load(request)
    out = {}

    def rec(mod):
        fp = mod._filepath
        kind = ("namespace" if isinstance(fp, list) else ("package" if mod.is_init_module else "module"))
        out[mod.path] = (kind, sorted(str(p) for p in fp) if isinstance(fp, list) else str(fp))
        for m in mod.members.values():
            if not m.is_alias and m.is_module:
                rec(m)
    rec(top)
    return out


def cpython_tree(search_paths):
    spec = importlib.machinery.PathFinder.find_spec("top", search_paths)
    if spec is None:
        return None
    out = {}
    if spec.origin is None or spec.submodule_search_locations is not None and spec.origin is None:
        out["top"] = ("namespace", sorted(spec.submodule_search_locations))
    elif spec.submodule_search_locations is not None:
        out["top"] = ("package", spec.origin)
    else:
        out["top"] = ("module", spec.origin)
    if spec.submodule_search_locations is not None:
        def walk(locations, prefix):
            for info in pkgutil.iter_modules(list(locations), prefix):
                s = info.module_finder.find_spec(info.name)
                if s is None:
                    continue
                if s.origin and not s.origin.endswith((".py",)):
                    continue   # compiled / bytecode-only modules cannot be loaded statically
                if s.submodule_search_locations is not None and s.origin is None:
                    out[info.name] = ("namespace", sorted(s.submodule_search_locations))
                elif s.submodule_search_locations is not None:
                    out[info.name] = ("package", s.origin)
                    walk(s.submodule_search_locations, info.name + ".")
                else:
                    out[info.name] = ("module", s.origin)
        walk(spec.submodule_search_locations, "top.")
    return out


def compare(g, c, search_paths=()):
    pr = []
    if c is None:
        return ["griffe found a package CPython cannot import"] if g else []
    stub_top = isinstance(g["top"][1], str) and g["top"][1].endswith(".pyi")
    if stub_top:
        return []      # a stubs-only package is allowed by the statement (not importable, no CPython oracle)
    if g["top"] != c["top"]:
        pr.append(f"top-level: griffe {g['top']} != cpython {c['top']}")
    for name, (kind, origin) in c.items():
        if kind == "namespace" and name != "top":
            continue   # nested PEP 420 directories inside a regular package are deliberately not loaded by griffe
        if name not in g:
            pr.append(f"{name} found by CPython's walker ({origin}) but not loaded")
        elif g[name][0] != kind or (kind != "namespace" and g[name][1] != origin and not g[name][1].endswith(".pyi")):
            pr.append(f"{name}: griffe {g[name]} != cpython {(kind, origin)}")
    for name, (kind, origin) in g.items():
        if name not in c and not (isinstance(origin, str) and origin.endswith(".pyi")):
            imp = importable(name, search_paths)
            if imp is None:
                pr.append(f"{name} loaded from {origin} but not importable for CPython")
            elif kind != "namespace" and imp != origin:
                pr.append(f"{name}: griffe loads {origin}, CPython imports {imp}")
    return pr


def importable(name, search_paths):
    """Origin CPython would import `name` from, following the path-based finder's rules step by step:
    per location, package dir with __init__.py > name.py > bare directory (namespace portion, search continues)."""
    locs = [str(x) for x in search_paths]
    origin = None
    for part in name.split("."):
        portions, hit = [], None
        for loc in locs:
            d = Path(loc) / part
            if (d / "__init__.py").is_file():
                hit = ("package", str(d / "__init__.py"), [str(d)])
                break
            if (Path(loc) / f"{part}.py").is_file():
                hit = ("module", str(Path(loc) / f"{part}.py"), None)
                break
            if d.is_dir():
                portions.append(str(d))
        if hit is None:
            if not portions:
                return None
            hit = ("namespace", "namespace", portions)
        origin = hit[1]
        if hit[2] is None:
            locs = []
        else:
            locs = hit[2]
    return origin


def cases(seed, n_random):
    rnd = random.Random(seed)
    inner_opts = [[], ["mod.py"], ["mod.py", "mod.pyi", "sub/__init__.py", "sub/leaf.py"], ["other.py", "sub/__init__.py", "sub/deep/__init__.py", "sub/deep/m.py", "data.txt"],
                  ["mod.py", "__pycache__/mod.cpython-312.pyc", "nsdir/inner.py", "stubonly.pyi"]]
    for forms in itertools.product(TOP_FORMS, repeat=2):
        yield forms, (inner_opts[2], inner_opts[3])
    # directed layouts: a sub-package that exists only in the SECOND portion of a namespace package (its files sort before and after __init__.py in every
    # listing order) while the first portion already claimed another sub-package; a module file shadowed by a same-named sub-package
    pk2 = ["pk2/__init__.py", "pk2/aaa.py", "pk2/Zed.py", "pk2/_x.py"]
    for forms in (("bare_dir", "bare_dir"), ("package", "none"), ("bare_dir", "none"), ("none", "package")):
        yield forms, (["sub/__init__.py", "sub/leaf.py", "sub.py"], pk2 + ["other.py"])
        yield forms, (pk2 + ["sub.py", "sub/__init__.py", "sub/leaf.py"], ["mod.py"])
    for forms in (("package", "none"), ("bare_dir", "package"), ("stub_package", "none")):
        yield forms, (["sub/__init__.py", "sub/leaf.py", "__pycache__/mod.cpython-312.pyc"] + list(DUNDER), ["mod.py"] + list(DUNDER)[:2])
    keys = list(INNER)
    for _ in range(n_random):
        forms = (rnd.choice(TOP_FORMS), rnd.choice(TOP_FORMS))
        yield forms, (rnd.sample(keys, rnd.randint(0, 6)), rnd.sample(keys, rnd.randint(0, 6)))


def sweep(seed=0, n_random=40, budget_s=90, stop_after=5):
    t0 = time.time()
    bad, n = [], 0
    for forms, inner in cases(seed, n_random):
        if time.time() - t0 > budget_s or sum(1 for b in bad if not b["root_cause"]) >= stop_after:
            break
        with tempfile.TemporaryDirectory() as root:
            sps = build(root, forms, inner)
            c = cpython_tree(sps)
            trees = {}
            pr = []
            for mode in ("asc", "desc", "shuffle"):
                n += 1
                try:
                    with Order(mode, seed):
                        g = griffe_tree(sps)
                except ModuleNotFoundError:
                    g = None
                except BaseException as e:  # noqa: BLE001
                    pr.append(f"[{mode}] loading raised {type(e).__name__}: {str(e)[:60]}")
                    continue
                trees[mode] = g
                if g is None:
                    if c is not None and not (c["top"][0] == "namespace" and False):
                        pr.append(f"[{mode}] CPython imports top from {c['top']}, griffe: ModuleNotFoundError")
                else:
                    pr += [f"[{mode}] {p}" for p in compare(g, c, sps)]
            vals = [json.dumps(v, sort_keys=True).replace(root, "") for v in trees.values()]
            if len(set(vals)) > 1:
                pr.append("the loaded tree depends on the directory listing order")
            # dotted name vs path of the top-level directory (single match only)
            if trees.get("asc") and trees["asc"]["top"][0] == "package":
                try:
                    topdir = str(Path(trees["asc"]["top"][1]).parent)
                    g2 = griffe_tree(sps, request=topdir)
                    if json.dumps(g2, sort_keys=True) != json.dumps(trees["asc"], sort_keys=True):
                        pr.append("requesting the package by the path of its directory gives a different tree")
                except BaseException as e:  # noqa: BLE001
                    pr.append(f"requesting the package by path raised {type(e).__name__}")
            if pr:
                pr = [p.replace(root, "") for p in pr]
                bad.append({"forms": forms, "inner": inner, "problems": pr[:3], "signature": "tree:" + json.dumps([forms, inner]), "root_cause": root_cause(forms, inner, pr)})
    n_pth, bad_pth = pth_scenarios(seed)
    n_bp, bad_bp = by_path_scenarios()
    return {"cases": n + n_pth + n_bp, "bad": bad + bad_pth + bad_bp}


def by_path_scenarios():
    """A package requested by the path of its top-level directory when no configured search path is above it: the tree is the one found by dotted name with the
    directory's parent as the first search path (the files under the requested directory), whatever the configured paths hold -- in particular a package of
    the same name."""
    problems, n = [], 0
    with tempfile.TemporaryDirectory() as root:
        root = Path(root)
        for base, extra in (("work", "new"), ("site", "old")):
            d = root / base / "pkg"
            (d / "sub").mkdir(parents=True)
            (d / "__init__.py").write_text(f"origin = {base!r}\n")
            (d / f"{extra}.py").write_text("x = 1\n")
            (d / "sub" / "__init__.py").write_text("")
            (d / "sub" / "leaf.py").write_text("y = 2\n")
        (root / "empty").mkdir()
        want = griffe_tree([str(root / "work")], "pkg")
        for configured in ([], [str(root / "empty")], [str(root / "site")], [str(root / "empty"), str(root / "site")]):
            for request in (str(root / "work" / "pkg"), root / "work" / "pkg"):
                n += 1
                try:
                    got = griffe_tree(list(configured), request)
                except BaseException as e:  # noqa: BLE001
                    problems.append(f"requesting work/pkg by path with search paths {[c.replace(str(root), '') for c in configured]} raised {type(e).__name__}")
                    continue
                if got != want:
                    problems.append(f"requesting work/pkg by path with search paths {[c.replace(str(root), '') for c in configured]} loads "
                                    f"{sorted(v[1].replace(str(root), '') if isinstance(v[1], str) else str(v[1]) for v in got.values())[:3]}, not the files under the requested directory")
    return n, [{"forms": ["by_path"], "inner": [], "problems": problems[:3], "signature": "by_path:" + problems[0][:80], "root_cause": []}] if problems else []


def pth_scenarios(seed=0):
    """.pth additions: two path configuration files naming directories that hold the same package (and one a package of its own); whichever order the
    operating system lists the .pth files in, the search path order -- hence the package found -- is the one CPython's `site` gives (sorted by file name)."""
    import site as _site
    problems, n = [], 0
    with tempfile.TemporaryDirectory() as root:
        root = Path(root)
        sitedir = root / "site"
        sitedir.mkdir()
        for nm in ("dirA", "dirB", "dirC"):
            d = root / nm / "top"
            d.mkdir(parents=True)
            (d / "__init__.py").write_text(f"origin = {nm!r}\n")
        (root / "dirC" / "only_c.py").write_text("x = 1\n")
        (sitedir / "zz_first_listed.pth").write_text(str(root / "dirB") + "\n")
        (sitedir / "aa.pth").write_text("# comment\n\n" + str(root / "dirA") + "\n" + str(root / "missing_dir") + "\n")
        (sitedir / "mm.pth").write_text(str(root / "dirC") + "\n")
        # CPython's answer: site.addsitedir on a scratch sys.path
        saved = list(sys.path)
        try:
            sys.path[:] = []
            _site.addsitedir(str(sitedir), set())
            expected = [p for p in sys.path if p != str(sitedir)]
        finally:
            sys.path[:] = saved
        seen = {}
        for mode in ("asc", "desc", "shuffle"):
            n += 1
            with Order(mode, seed):
                f = finder_mod.ModuleFinder([sitedir])
                got = [str(p) for p in f.search_paths if str(p) != str(sitedir)]
                try:
                    found = str(f.find_package("top").path)
                except BaseException as e:  # noqa: BLE001
                    found = type(e).__name__
            seen[mode] = (got, found)
            if got != expected:
                problems.append(f"[{mode}] .pth additions in the order {[x.replace(str(root), '') for x in got]}, CPython's site gives {[x.replace(str(root), '') for x in expected]}")
        if len({json.dumps(v) for v in seen.values()}) > 1:
            problems.append("the search paths added from .pth files depend on the directory listing order")
    return n, [{"forms": ["pth"], "inner": [], "problems": problems[:3], "signature": "pth:" + problems[0][:80], "root_cause": []}] if problems else []


def root_cause(forms, inner, problems):
    """C14-F1: a namespace package spread over several search paths whose portions hold the same sub-module / sub-package name."""
    if all(f.startswith("bare_dir") or f == "none" for f in forms) and sum(f.startswith("bare_dir") for f in forms) == 2:
        tops = [{r.split("/")[0].split(".")[0] for r in rels} for rels in inner]
        clash = tops[0] & tops[1]
        # every reported difference lies at or below a name that both portions hold (or is the order dependence that follows from it)
        under_clash = lambda p: "listing order" in p or any(re.search(r"\btop\." + re.escape(n) + r"\b", p) for n in clash)  # noqa: E731
        if clash and all(under_clash(p) and ("!=" in p or "imports" in p or "not importable" in p or "listing order" in p or "but not loaded" in p) for p in problems):
            return ["C14-F1"]
    # C14-F2: a module file next to a same-named directory that is not a package (X.py and X/<deeper>/__init__.py or X/<file>.py without X/__init__.py):
    # CPython binds X to the module file, so nothing below X/ is importable; Griffe attaches what it finds below X/ under the module X
    shadowed = set()
    for form, rels in zip(forms, inner):
        if form == "none" or form == "module":
            continue
        for r in rels:
            if r.endswith(".py") and "/" not in r:
                x = r[:-3]
                if any(o.startswith(x + "/") for o in rels) and f"{x}/__init__.py" not in rels:
                    shadowed.add(x)
    if shadowed and all("not importable for CPython" in p and any(re.search(r"\btop\." + re.escape(x) + r"\.", p) for x in shadowed) for p in problems):
        return ["C14-F2"]
    return []


def replay_file_trees(w, obligation, expects):
    r = sweep(0, 30, 60)
    b = [x for x in r["bad"] if not x["root_cause"]]
    return {"reproduced": bool(b), "detail": (json.dumps(b[0])[:700] if b else f"agrees with CPython's import system on {r['cases']} loads of generated file trees"),
            "signature": b[0]["signature"] if b else "ok"}


if __name__ == "__main__":
    print(json.dumps(sweep(int(sys.argv[1]), int(sys.argv[2]), int(sys.argv[3]), int(sys.argv[4]) if len(sys.argv) > 4 else 5)))
