"""Native bounded tier / replay for C08 (round trip) and C09 (schema): generated modules covering every model field and expression class."""
import json
import logging
import sys
import tempfile
import time
from pathlib import Path

logging.disable(logging.CRITICAL)

import jsonschema  # noqa: E402

from _griffe.loader import GriffeLoader  # noqa: E402
from _griffe.models import Module  # noqa: E402

REPO = Path(__import__("_griffe").__file__).resolve().parent.parent.parent
SCHEMA = json.loads((REPO / "docs" / "schema.json").read_text())

EXPRS = [
    "a.b.c", "f(x, y=1, *args, **kw)", "x[1]", "x[1:2, ::3]", "[1, 2]", "(1, 2)", "{1, 2}", "{'k': v}", "a if b else c", "lambda x, *a, y=1, **k: x", "not a", "-a", "a + b * c",
    "a and b or c", "a < b <= c", "a is not b", "x in y", "[i for i in y if i]", "{i for i in y}", "{k: v for k, v in y}", "(i for i in y)", "f'{a}b{c!r:>4}'", "'string'", "b'bytes'",
    "1.5", "None", "...", "*a, b", "x := 1" if False else "(x := 1)", "a @ b", "a // b", "~a", "a ** b", "await_ if a else b", "yield_", "typing.Literal['a', 'b']", "list[int] | None",
    "dict[str, list[tuple[int, ...]]]", "Callable[[int], str]",
]


def module_source(i):
    e1, e2, e3 = EXPRS[i % len(EXPRS)], EXPRS[(i * 7 + 3) % len(EXPRS)], EXPRS[(i * 11 + 5) % len(EXPRS)]
    return f'''"""Module docstring {i}.

Parameters:
    x: something.
"""
from __future__ import annotations
import typing
from typing import Callable, overload
from os import path as ospath
import dataclasses
a = b = c = v = y = x = 1
__all__ = ["func", "Klass", "ATTR", "ospath"]
ATTR: typing.Any = {e1}
"""Attribute docstring."""
kind = {e2}
cls = 2
def deco(*a, **k):
    return lambda f: f
@deco({e3})
def func(p0, /, p1: int, p2: "str" = {e1}, *args: typing.Any, k1, k2: bool = True, **kwargs) -> {e2 if ":=" not in e2 else "int"}:
    """Function docstring.

    Returns:
        Something.
    """
@deco(
    1,
    key="spread over several lines",
)
def multiline_decorated(): ...
@overload
def over(a: int) -> int: ...
@overload
def over(a: str) -> str: ...
def over(a):
    return a
class Base:
    inherited = 1
@deco
class Klass(Base, metaclass=type):
    """Class docstring."""
    class_attr: typing.ClassVar[int] = 0
    def __init__(self, value: int = {e3}) -> None:
        self.instance_attr: int = value
        """Instance attribute docstring."""
    @property
    def prop(self) -> list[int]:
        """Property docstring."""
        return []
    @prop.setter
    def prop(self, v): ...
    def deco(self):
        """A member named like the class decorator: the decorator must still resolve in the enclosing scope."""
    @staticmethod
    def static(): ...
    @classmethod
    def klass(cls): ...
    async def coro(self): ...
    class Nested:
        deep = {e2}
@dataclasses.dataclass
class Data:
    field_a: int
    field_b: str = "x"
    linked: Base = None
    def indented(self):
        """
            First text line indented more than the rest (cleaning such a text twice is not cleaning it once).
        The rest.
        """
class Derived(Klass.Nested, Base):
    pass
TYPED: Callable[[Base], Klass] = None
if typing.TYPE_CHECKING:
    from os import sep
'''


def tree_summary(obj):
    out = {}
    for name, m in sorted(obj.members.items()):
        if m.is_alias:
            out[name] = ("alias", m.target_path, m.alias_lineno, m.alias_endlineno)
            continue
        d = {"kind": m.kind.value, "lineno": m.lineno, "endlineno": m.endlineno, "labels": sorted(m.labels),
             "doc": (m.docstring.value, m.docstring.lineno, m.docstring.endlineno) if m.docstring else None}
        if m.is_function:
            d["params"] = [(p.name, str(p.annotation) if p.annotation is not None else None, p.kind.value if p.kind else None, str(p.default) if p.default is not None else None)
                           for p in m.parameters]
            d["returns"] = str(m.returns) if m.returns is not None else None
            d["decorators"] = [(str(x.value), x.lineno, x.endlineno) for x in m.decorators]
            d["overloads"] = len(m.overloads or [])
            d["resolved"] = [canon(p.annotation) for p in m.parameters] + [canon(m.returns)]
        if m.is_attribute:
            d["value"] = str(m.value) if m.value is not None else None
            d["annotation"] = str(m.annotation) if m.annotation is not None else None
            d["resolved"] = [canon(m.annotation), canon(m.value)]
        if m.is_class:
            d["bases"] = [str(b) for b in m.bases]
            d["decorators"] = [(str(x.value), x.lineno, x.endlineno) for x in m.decorators]
            d["resolved"] = [canon(x.value) for x in m.decorators] + [canon(b) for b in m.bases]
        if not m.is_function and not m.is_attribute:
            d["members"] = tree_summary(m)
        out[name] = d
    return out


def tree_diff(a, b, path=""):
    if isinstance(a, dict) and isinstance(b, dict):
        for k in sorted(set(a) | set(b)):
            if a.get(k) != b.get(k):
                yield from tree_diff(a.get(k), b.get(k), f"{path}/{k}")
    elif a != b:
        yield path, a, b


def canon(expr):
    """canonical paths of every name in an expression (names in reloaded expressions must resolve as before)."""
    if expr is None or isinstance(expr, str):
        return expr
    out = []
    try:
        for e in expr.iterate(flat=True):
            if hasattr(e, "canonical_path"):
                out.append(e.canonical_path)
    except Exception as ex:  # noqa: BLE001
        out.append(f"<{type(ex).__name__}>")
    return out


def check_module(i, tmp, inspect=False, resolve=False):
    problems = []
    name = f"c8mod{i}"
    (Path(tmp) / f"{name}.py").write_text(module_source(i))
    try:
        ld = GriffeLoader(search_paths=[tmp], force_inspection=inspect, docstring_parser=None)
        mod = ld.load(name)
        if resolve:
            ld.resolve_aliases(implicit=True, external=False)
    except BaseException as e:  # noqa: BLE001
        if type(e).__name__ == "LoadingError" and ("Syntax error" in str(e) or "Import error" in str(e)):
            return None, None        # the generated module is not valid / not importable: outside the domain
        return [f"loading raised {type(e).__name__}: {str(e)[:80]}"], []
    finally:
        sys.modules.pop(name, None)
    schema_problems = []
    for full in (False, True):
        try:
            js = mod.as_json(full=full, sort_keys=True)
        except BaseException as e:  # noqa: BLE001
            problems.append(f"serialising (full={full}) raised {type(e).__name__}: {str(e)[:80]}")
            continue
        if full:
            try:
                jsonschema.validate(json.loads(js), SCHEMA)
            except jsonschema.ValidationError as e:
                schema_problems.append(f"full dump violates docs/schema.json at {'/'.join(map(str, list(e.absolute_path)[-4:]))}: {e.message[:90]}")
        try:
            back = Module.from_json(js)
        except BaseException as e:  # noqa: BLE001
            problems.append(f"reloading the {'full' if full else 'minimal'} dump raised {type(e).__name__}: {str(e)[:60]}")
            continue
        js2 = back.as_json(full=full, sort_keys=True)
        if not full and js2 != js:
            problems.append("reloaded tree does not serialise to the identical JSON (minimal)")
        s1, s2 = tree_summary(mod), tree_summary(back)
        for path, a, b in tree_diff(s1, s2):
            problems.append(f"reloaded tree differs from the original (full={full}) at {path}: {str(a)[:120]} vs {str(b)[:120]}")
    return problems, schema_problems


def sweep(budget_s=90, what="roundtrip"):
    t0 = time.time()
    bad, n = [], 0
    with tempfile.TemporaryDirectory() as tmp:
        for i in range(len(EXPRS)):
            for inspect, resolve in ((False, False), (False, True), (True, False)):
                if time.time() - t0 > budget_s:
                    break
                pr, spr = check_module(i, tmp, inspect, resolve)
                if pr is None:
                    continue
                n += 1
                use = pr if what == "roundtrip" else spr
                if use:
                    bad.append({"module": i, "inspected": inspect, "resolved": resolve, "exprs": [EXPRS[i % len(EXPRS)], EXPRS[(i * 7 + 3) % len(EXPRS)], EXPRS[(i * 11 + 5) % len(EXPRS)]],
                                "problems": use[:3], "signature": f"{what}:{'inspected' if inspect else 'static'}:" + use[0][:80], "root_cause": root_cause(use, inspect)})
    for desc, pr in special_cases(what):
        sig = f"{what}:{desc}:" + pr[0][:80]
        if len(pr) == 1 and pr[0].startswith("full-form serialisation of a namespace package raised ValueError"):
            sig = "full-dump-namespace"
        if len(pr) == 1 and pr[0].startswith("full-form serialisation of a built-in module raised BuiltinModuleError"):
            sig = "full-dump-builtin"
        bad.append({"module": desc, "inspected": False, "resolved": False, "problems": pr, "signature": sig, "root_cause": root_cause(pr, False)})
    n += 8
    return {"cases": n, "bad": bad}


DOC = '''"""Summary.

Note:
    An admonition.

Deprecated:
    1.0: Old stuff.

Parameters:
    a (int): First.

Other Parameters:
    **kw: Others.

Returns:
    str: Something.

Yields:
    int: Numbers.

Receives:
    int: Sent.

Raises:
    ValueError: When wrong.

Warns:
    UserWarning: Careful.

Attributes:
    x (int): An attribute.

Examples:
    >>> 1 + 1
    2

Functions:
    f(a): A function.

Classes:
    C: A class.

Modules:
    m: A module.
"""
'''


def special_cases(what):
    """Namespace package, parsed docstrings of every section kind (all three styles), a built-in module, an external package."""
    out = []
    with tempfile.TemporaryDirectory() as tmp:
        for i in (0, 1):
            d = Path(tmp) / f"sp{i}" / "c8ns"
            d.mkdir(parents=True)
            (d / f"part{i}.py").write_text("x = 1\n")
        cases = []
        try:
            ld = GriffeLoader(search_paths=[str(Path(tmp) / "sp0"), str(Path(tmp) / "sp1")])
            cases.append(("namespace package", ld.load("c8ns")))
        except BaseException as e:  # noqa: BLE001
            out.append(("namespace package", [f"loading raised {type(e).__name__}"]))
        for style in ("google", "numpy", "sphinx"):
            (Path(tmp) / f"c8doc_{style}.py").write_text(DOC + "def f(a, **kw):\n    " + DOC.replace("\n", "\n    ") + "\nclass C:\n    " + DOC.replace("\n", "\n    ") + "\n")
            try:
                cases.append((f"parsed {style} docstrings", GriffeLoader(search_paths=[tmp], docstring_parser=style).load(f"c8doc_{style}")))
            except BaseException as e:  # noqa: BLE001
                out.append((f"parsed {style} docstrings", [f"loading raised {type(e).__name__}"]))
        try:
            cases.append(("built-in module", GriffeLoader().load("itertools")))
        except BaseException as e:  # noqa: BLE001
            out.append(("built-in module", [f"loading raised {type(e).__name__}"]))
        for desc, mod in cases:
            pr = []
            try:
                js = mod.as_json(full=True, sort_keys=True)
                if what == "schema":
                    try:
                        jsonschema.validate(json.loads(js), SCHEMA)
                    except jsonschema.ValidationError as e:
                        pr.append(f"full dump violates docs/schema.json at {'/'.join(map(str, list(e.absolute_path)[-4:]))}: {e.message[:90]}")
            except BaseException as e:  # noqa: BLE001
                pr.append(f"full-form serialisation of a {desc} raised {type(e).__name__}: {str(e)[:80]}")
            if what != "schema":
                try:
                    jsm = mod.as_json(sort_keys=True)
                    back = Module.from_json(jsm)
                    if back.as_json(sort_keys=True) != jsm:
                        pr.append(f"{desc}: reloaded tree does not serialise to the identical JSON (minimal)")
                except BaseException as e:  # noqa: BLE001
                    pr.append(f"{desc}: minimal round trip raised {type(e).__name__}: {str(e)[:80]}")
            if pr:
                out.append((desc, pr))
    if what != "schema":
        # the command-line dump emits exactly the serialisation of each requested package (one file for all, one file per package; minimal and full)
        import io
        from _griffe import cli as _cli
        with tempfile.TemporaryDirectory() as tmp:
            for nm in ("c8cli_one", "c8cli_two"):
                (Path(tmp) / f"{nm}.py").write_text(module_source(3 if nm.endswith("one") else 8))
            for full in (False, True):
                pr = []
                try:
                    ld = GriffeLoader(search_paths=[tmp], docstring_parser=None, store_source=False)
                    mods = {nm: ld.load(nm) for nm in ("c8cli_one", "c8cli_two")}
                    want = {nm: json.loads(m.as_json(full=full)) for nm, m in mods.items()}
                    buf = io.StringIO()
                    rc = _cli.dump(["c8cli_one", "c8cli_two"], output=buf, full=full, search_paths=[tmp])
                    got = json.loads(buf.getvalue())
                    if rc != 0:
                        pr.append(f"griffe dump (full={full}) returned {rc}")
                    if got != want:
                        pr.append(f"griffe dump (full={full}) differs from the packages' own serialisation (keys {sorted(got)} vs {sorted(want)})")
                    per = str(Path(tmp) / ("out_{package}_" + str(full) + ".json"))
                    rc = _cli.dump(["c8cli_one", "c8cli_two"], output=per, full=full, search_paths=[tmp])
                    for nm in want:
                        one = json.loads(Path(per.format(package=nm)).read_text())
                        if one != want[nm]:
                            pr.append(f"griffe dump -o per-package file of {nm} (full={full}) differs from the package's own serialisation")
                except BaseException as e:  # noqa: BLE001
                    pr.append(f"griffe dump (full={full}) raised {type(e).__name__}: {str(e)[:80]}")
                finally:
                    for nm in ("c8cli_one", "c8cli_two"):
                        sys.modules.pop(nm, None)
                if pr:
                    out.append((f"command-line dump (full={full})", pr))
        # a package with re-export chains, aliases resolved (with and without): alias targets are the ones written in the source, before and after reload
        with tempfile.TemporaryDirectory() as tmp:
            pk = Path(tmp) / "c8chain"
            (pk / "sub").mkdir(parents=True)
            (pk / "__init__.py").write_text("from c8chain.api import Thing, helper as public_helper\nfrom c8chain.sub import deep\n")
            (pk / "api.py").write_text("from c8chain._impl import Thing, helper\n")
            (pk / "_impl.py").write_text("class Thing:\n    def m(self): ...\ndef helper(): ...\n")
            (pk / "sub" / "__init__.py").write_text("from c8chain.api import helper as deep\n")
            written = {"Thing": "c8chain.api.Thing", "public_helper": "c8chain.api.helper", "deep": "c8chain.sub.deep"}
            for resolve in (False, True):
                pr = []
                try:
                    ld = GriffeLoader(search_paths=[tmp], docstring_parser=None)
                    mod = ld.load("c8chain")
                    if resolve:
                        ld.resolve_aliases(implicit=True, external=False)
                    for full in (False, True):
                        js = mod.as_json(full=full, sort_keys=True)
                        dumped = json.loads(js)["members"]
                        dumped = dumped if isinstance(dumped, dict) else {m_["name"]: m_ for m_ in dumped}
                        for nm, tp in written.items():
                            if dumped[nm].get("target_path") != tp:
                                pr.append(f"re-export chain (resolved={resolve}, full={full}): dump gives alias {nm} the target {dumped[nm].get('target_path')!r}, the source says {tp!r}")
                        back = Module.from_json(js)
                        for path, a, b in tree_diff(tree_summary(mod), tree_summary(back)):
                            pr.append(f"re-export chain (resolved={resolve}, full={full}): reloaded tree differs at {path}: {str(a)[:100]} vs {str(b)[:100]}")
                        if not full and back.as_json(sort_keys=True) != js:
                            pr.append(f"re-export chain (resolved={resolve}): reloaded tree does not serialise to the identical JSON (minimal)")
                except BaseException as e:  # noqa: BLE001
                    pr.append(f"re-export chain (resolved={resolve}): round trip raised {type(e).__name__}: {str(e)[:80]}")
                if pr:
                    out.append((f"re-export chain (resolved={resolve})", pr))
        # objects built directly (what extensions and the inspector produce): empty-string values are values, not absences
        from _griffe.models import Attribute, Function, Parameter, Parameters
        from _griffe.enumerations import ParameterKind
        m = Module("c8direct")
        m.set_member("blank", Attribute("blank", value="", annotation=""))
        m.set_member("f", Function("f", parameters=Parameters(Parameter("p", annotation="", default="", kind=ParameterKind.positional_or_keyword)), returns=""))
        pr = []
        try:
            back = Module.from_json(m.as_json())
            for path, attr in (("blank", "value"), ("blank", "annotation"), ("f", "returns")):
                a, b = getattr(m[path], attr), getattr(back[path], attr)
                if a != b:
                    pr.append(f"directly built objects: {path}.{attr} was {a!r}, is {b!r} after reload")
            pa, pb = m["f"].parameters["p"], back["f"].parameters["p"]
            for attr in ("annotation", "default"):
                if getattr(pa, attr) != getattr(pb, attr):
                    pr.append(f"directly built objects: parameter p.{attr} was {getattr(pa, attr)!r}, is {getattr(pb, attr)!r} after reload")
        except BaseException as e:  # noqa: BLE001
            pr.append(f"directly built objects: minimal round trip raised {type(e).__name__}: {str(e)[:80]}")
        if pr:
            out.append(("directly built objects", pr))
    return out


def root_cause(problems, inspect):
    import re
    c = set()
    for p in problems:
        if "reloading the full dump raised" in p:
            c.add("C08-F1")
        elif re.search(r"differs from the original \(full=(True|False)\) at \S*/overloads:", p):
            c.add("C08-F4")
        elif re.search(r"differs from the original \(full=(True|False)\) at \S*/members/instance_attr/resolved:", p):
            c.add("C08-F5")
        elif "violates docs/schema.json" in p and inspect:
            c.add("C09-F1")
        else:
            return []
    return sorted(c)


def replay_roundtrip(w, obligation, expects):
    r = sweep(60)
    b = [x for x in r["bad"] if not x["root_cause"] and x.get("signature") not in ("full-dump-namespace", "full-dump-builtin")]
    return {"reproduced": bool(b), "detail": (json.dumps(b[0])[:700] if b else f"round trip holds on {r['cases']} generated modules (known findings aside)"),
            "signature": b[0]["signature"] if b else "ok"}


if __name__ == "__main__":
    print(json.dumps(sweep(int(sys.argv[1]) if len(sys.argv) > 1 else 90, sys.argv[2] if len(sys.argv) > 2 else "roundtrip")))
