"""Native replay for C10: the property statement itself, with inspect.Signature.bind as the binding oracle."""
import inspect
import itertools

from _griffe.diff import _function_incompatibilities
from _griffe.enumerations import ParameterKind
from _griffe.models import Function, Parameter, Parameters

KINDS = [ParameterKind.positional_only, ParameterKind.positional_or_keyword, ParameterKind.var_positional,
         ParameterKind.keyword_only, ParameterKind.var_keyword]
IK = [inspect.Parameter.POSITIONAL_ONLY, inspect.Parameter.POSITIONAL_OR_KEYWORD, inspect.Parameter.VAR_POSITIONAL,
      inspect.Parameter.KEYWORD_ONLY, inspect.Parameter.VAR_KEYWORD]


def norm(lst, names):
    out = []
    for e in lst or []:
        if not isinstance(e, dict):
            continue
        nm = e.get("name")
        if nm not in names:
            names[nm] = nm if isinstance(nm, str) and nm.isidentifier() else f"n{len(names)}"
        k = e.get("kind", {})
        idx = k.get("index") if "index" in k else [m.name for m in KINDS].index(k.get("name"))
        d = e.get("default")
        if d is not None:
            d = names.setdefault(("default", d), str(1 + sum(1 for kk in names if isinstance(kk, tuple))))
        out.append((names[nm], idx, d))
    return out


def mk_function(params, returns):
    ps = []
    for name, k, d in params:
        if k in (2, 4) and d is None:
            d = "()" if k == 2 else "{}"
        ps.append(Parameter(name, kind=KINDS[k], default=d))
    return Function("f", parameters=Parameters(*ps), returns=returns)


_FN_CACHE = {}


def mk_sig(params):
    """A real function object with this signature (CPython's own argument binding is the oracle)."""
    src = fmt(params) + ": pass"
    if src not in _FN_CACHE:
        ns = {}
        try:
            exec(src, ns)  # noqa: S102
        except SyntaxError as e:
            raise ValueError(str(e)) from e
        _FN_CACHE[src] = ns["f"]
    return _FN_CACHE[src]


def binds(fn, args, kwargs):
    try:
        fn(*args, **kwargs)
    except TypeError:
        return False
    return True


def check_pair(old, new, old_ret=None, new_ret=None, max_pos=None):
    """Evaluate the C10 statement on one concrete pair -> list of violation strings."""
    oldf, newf = mk_function(old, old_ret), mk_function(new, new_ret)
    breaks = list(_function_incompatibilities(oldf, newf))
    kinds = [type(b).__name__ for b in breaks]
    viol = []
    newd = {n: (i, k, d) for i, (n, k, d) in enumerate(new)}
    oldd = {n: (i, k, d) for i, (n, k, d) in enumerate(old)}
    if old == new and old_ret == new_ret and breaks:
        viol.append(f"identical signatures reported {kinds}")
    for i, (n, k, d) in enumerate(old):
        if n in newd:
            j, nk, nd = newd[n]
            about = [b for b in breaks if getattr(getattr(b, "old_value", None), "name", None) == n and type(b).__name__.startswith("Parameter")]
            if k in (0, 1) and nk in (0, 1) and i != j and not about:
                viol.append(f"positional parameter {n} moved {i}->{j}: no breakage reported for it")
            if d is not None and nd is not None and k not in (2, 4) and nk not in (2, 4) and d != nd and not about:
                viol.append(f"default of {n} changed {d!r}->{nd!r}: no breakage reported for it")
            if d is not None and nd is None and k not in (2, 4) and nk not in (2, 4) and not about:
                viol.append(f"{n} became required: no breakage reported for it")
    for b in breaks:
        nm = type(b).__name__
        if not nm.startswith("Parameter"):
            continue
        p = b.old_value if b.old_value is not None else b.new_value
        n = p.name
        o, w = oldd.get(n), newd.get(n)
        req = lambda t: t[2] is None and t[1] not in (2, 4)  # noqa: E731
        changed = (o is None) != (w is None) or (o and w and (o[0] != w[0] or o[1] != w[1] or o[2] != w[2] or req(o) != req(w)))
        if not changed:
            viol.append(f"{nm} reported for unchanged parameter {n}")
    try:
        so, sn = mk_sig(old), mk_sig(new)
    except ValueError:
        return viol, kinds, "illegal signature (binding clause skipped)"
    names = sorted({n for n, k, d in old + new if k not in (2, 4)}) + ["zz_extra"]
    npos_max = max_pos if max_pos is not None else max(len(old), len(new)) + 1
    broken = None
    for npos in range(npos_max + 1):
        for r in range(len(names) + 1):
            for kws in itertools.combinations(names, r):
                a, kw = tuple(range(npos)), {x: 0 for x in kws}
                if binds(so, a, kw) and not binds(sn, a, kw):
                    broken = f"f({', '.join(['_'] * npos + [x + '=_' for x in kws])})"
                    break
            if broken:
                break
        if broken:
            break
    if broken and not breaks:
        viol.append(f"call {broken} binds to old but not to new: nothing reported")
    return viol, kinds, None


def fmt(params):
    out = []
    for n, k, d in params:
        s = {0: n, 1: n, 2: "*" + n, 3: n, 4: "**" + n}[k] + (f"={d}" if d is not None and k not in (2, 4) else "")
        out.append((k, s))
    txt, seen_po, star = [], False, False
    for idx, (k, s) in enumerate(out):
        if k == 3 and not star and not any(kk == 2 for kk, _ in out):
            txt.append("*")
            star = True
        txt.append(s)
        if k == 0 and (idx + 1 == len(out) or out[idx + 1][0] != 0):
            txt.append("/")
    return "def f(" + ", ".join(txt) + ")"


def replay_pair(w, obligation, expects):
    names = {}
    old, new = norm(w.get("old"), names), norm(w.get("new"), names)
    viol, kinds, note = check_pair(old, new, w.get("old_returns"), w.get("new_returns"))
    desc = f"{fmt(old)} -> {fmt(new)} reported={kinds}"
    return {"reproduced": bool(viol), "detail": desc + ": " + ("; ".join(viol) if viol else "statement holds on this pair") + (f" [{note}]" if note else ""),
            "signature": f"{fmt(old)} -> {fmt(new)}"}


def root_cause(old, new):
    """Root-cause class of a 'call breaks, nothing reported' pair on the pinned rules (known findings), else None."""
    newd = {n: (i, k, d) for i, (n, k, d) in enumerate(new)}
    old_cap = 10 ** 6 if any(k == 2 for _, k, _ in old) else sum(1 for _, k, _ in old if k in (0, 1))
    causes = set()
    for i, (n, k, d) in enumerate(old):
        if n in newd:
            j, nk, _ = newd[n]
            if k == 3 and nk == 1 and j < old_cap:
                causes.add("C10-F2")
            if k == 0 and nk == 1 and any(kk == 4 for _, kk, _ in old):
                causes.add("C10-F3")
    return sorted(causes)


# --------------------------------------------------------------------------- bounded tier
def legal_signatures(maxlen, names=("x", "y", "z")):
    """Every legal signature with <= maxlen parameters over the name alphabet (with/without default)."""
    out = []

    def rec(prefix, used):
        out.append(tuple(prefix))
        if len(prefix) == maxlen:
            return
        last_k = prefix[-1][1] if prefix else -1
        for n in names:
            if n in used:
                continue
            for k in range(5):
                if k < last_k or (k in (2, 4) and k == last_k):
                    continue
                if k == 3 and last_k == 2 and False:
                    continue
                for d in ((None,) if k in (2, 4) else (None, "1")):
                    if k in (0, 1) and d is None and any(pk in (0, 1) and pd is not None for _, pk, pd in prefix):
                        continue
                    rec(prefix + [(n, k, d)], used | {n})
    rec([], frozenset())
    # canonical: drop signatures differing only by a permutation of unused names? keep all (names matter across the pair)
    return out


def _chunk(args):
    olds, news = args
    bad = []
    n = 0
    for o in olds:
        for w in news:
            n += 1
            viol, kinds, note = check_pair(list(o), list(w))
            if viol:
                bad.append({"old": fmt(list(o)), "new": fmt(list(w)), "reported": kinds, "violations": viol,
                            "root_cause": root_cause(list(o), list(w)) if not kinds else [],
                            "signature": f"{fmt(list(o))} -> {fmt(list(w))}"})
    return n, bad


def bounded(maxlen, nproc=16, sample=None, seed=0):
    import multiprocessing as mp
    import random
    sigs = legal_signatures(maxlen)
    olds = sigs
    if sample:
        rnd = random.Random(seed)
        olds = rnd.sample(sigs, min(sample, len(sigs)))
    chunks = [(olds[i::nproc * 4], sigs) for i in range(nproc * 4)]
    with mp.get_context("fork").Pool(nproc) as pool:
        res = pool.map(_chunk, chunks)
    total = sum(r[0] for r in res)
    bad = [b for r in res for b in r[1]]
    return {"signatures": len(sigs), "pairs": total, "bad": bad}


if __name__ == "__main__":
    import json
    import sys
    maxlen = int(sys.argv[1])
    sample = int(sys.argv[2]) if len(sys.argv) > 2 and sys.argv[2] != "0" else None
    seed = int(sys.argv[3]) if len(sys.argv) > 3 else 0
    print(json.dumps(bounded(maxlen, sample=sample, seed=seed)))
