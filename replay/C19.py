"""Native bounded tier / replay for C19: generated (module, stubs) pairs, three placements, both discovery orders."""
import itertools
import json
import logging
import sys
import tempfile
from pathlib import Path

logging.disable(logging.CRITICAL)

import _griffe.finder as finder  # noqa: E402
from _griffe.loader import GriffeLoader  # noqa: E402

RUNTIME_F = {
    # the runtime name is an import that cannot be resolved (nothing named missing_pkg is loaded): merging must neither raise nor lose the module
    "alias": "from missing_pkg.impl import f\n",
    "doc": 'def f(a, b=1, *args, **kwargs):\n    """runtime doc"""\n    return a\n',
    "nodoc": "def f(a, b=1, *args, **kwargs):\n    return a\n",
    None: "",
}
STUB_F = {
    "same": 'def f(a: int, b: str = ..., extra: bytes = ..., *args: float, **kwargs: bool) -> list[int]:\n    """stub doc"""\n',
    "overloads": "from typing import overload\n@overload\ndef f(a: int) -> int: ...\n@overload\ndef f(a: str) -> str: ...\n",
    # overloads followed by the implementation signature (the usual shape of a stub file)
    "overloads_impl": "from typing import overload\n@overload\ndef f(a: int) -> int: ...\n@overload\ndef f(a: str) -> str: ...\ndef f(a: int | str, b: str = ...) -> int | str: ...\n",
    "attr": "f: int\n",          # kind mismatch
    None: "",
}
RUNTIME_C = {"yes": 'class C:\n    """C doc"""\n    x = 1\n    def m(self, p):\n        return p\n',
             # no docstring of its own, a documented member: the stub's class docstring is the one to keep
             "nodoc": 'class C:\n    x = 1\n    def m(self, p):\n        """m doc"""\n        return p\n', None: ""}
STUB_C = {"yes": 'class C:\n    """C stub doc"""\n    x: int\n    y: str\n    def m(self, p: int) -> bool: ...\n', "func": "def C() -> int: ...\n", None: ""}
RUNTIME_V = {"yes": "v = 0\nfrom os import path as i\n", None: ""}
STUB_V = {"yes": "v: float\ns: int\nfrom os import path as i\n", "alias": "from os import getcwd as v\n", None: ""}


def sources():
    for rf, sf, rc, sc, rv, sv in itertools.product(RUNTIME_F, STUB_F, RUNTIME_C, STUB_C, RUNTIME_V, STUB_V):
        yield (rf, sf, rc, sc, rv, sv), RUNTIME_F[rf] + RUNTIME_C[rc] + RUNTIME_V[rv] or "pass\n", STUB_F[sf] + STUB_C[sc] + STUB_V[sv] or "pass\n"


def summary(obj, depth=0):
    out = {}
    for name, m in sorted(obj.members.items()):
        if m.is_alias:
            out[name] = ("alias", m.target_path, m.resolved, m.runtime)
            continue
        d = {"kind": m.kind.value, "runtime": m.runtime, "doc": m.docstring.value if m.docstring else None}
        if m.is_function:
            d["params"] = [(p.name, str(p.annotation) if p.annotation is not None else None) for p in m.parameters]
            d["returns"] = str(m.returns) if m.returns is not None else None
            d["overloads"] = len(m.overloads or [])
        if m.is_attribute:
            d["annotation"] = str(m.annotation) if m.annotation is not None else None
        if m.is_class and depth < 2:
            d["members"] = summary(m, depth + 1)
        out[name] = d
    return out


def load(tmp, placement, order, rsrc, ssrc):
    root = Path(tmp)
    find_stubs = False
    if placement == "sibling":
        pkg = root / "pkg"
        pkg.mkdir()
        (pkg / "__init__.py").write_text("")
        (pkg / "mod.py").write_text(rsrc)
        (pkg / "mod.pyi").write_text(ssrc)
        target = "pkg"
        pick = lambda top: top["mod"]  # noqa: E731
    elif placement == "subpackage":
        pkg = root / "pkg"
        (pkg / "sub").mkdir(parents=True)
        (pkg / "__init__.py").write_text("")
        (pkg / "sub" / "__init__.py").write_text(rsrc)
        (pkg / "sub" / "__init__.pyi").write_text(ssrc)
        (pkg / "sub" / "child.py").write_text("z = 1\n")
        (pkg / "sub" / "other.py").write_text("w = 2\n")
        (pkg / "sub" / "other.pyi").write_text("w: int\n")
        target = "pkg"
        pick = lambda top: top["sub"]  # noqa: E731
    elif placement == "init":
        pkg = root / "pkg"
        pkg.mkdir()
        (pkg / "__init__.py").write_text(rsrc)
        (pkg / "__init__.pyi").write_text(ssrc)
        target = "pkg"
        pick = lambda top: top  # noqa: E731
    else:
        pkg = root / "pkg"
        pkg.mkdir()
        (pkg / "__init__.py").write_text(rsrc)
        st = root / "pkg-stubs"
        st.mkdir()
        (st / "__init__.pyi").write_text(ssrc)
        target = "pkg"
        find_stubs = True
        pick = lambda top: top  # noqa: E731
    orig = finder.ModuleFinder._filter_py_modules

    def ordered(self, path):
        return sorted(orig(self, path), key=lambda p: str(p), reverse=(order == "desc"))
    finder.ModuleFinder._filter_py_modules = ordered
    try:
        ld = GriffeLoader(search_paths=[str(root)], allow_inspection=False)
        top = ld.load(target, find_stubs_package=find_stubs)
        mod = pick(top)
        return mod, summary(mod)
    finally:
        finder.ModuleFinder._filter_py_modules = orig


def expected_problems(key, mod, summ):
    rf, sf, rc, sc, rv, sv = key
    pr = []
    if str(getattr(mod, "filepath", "")).endswith(".pyi"):
        pr.append("merged result is the stubs module, not the runtime module")
    if rf and "f" not in summ:
        pr.append("runtime member f lost")
    if rf and sf == "overloads_impl" and "f" in summ and isinstance(summ["f"], dict) and summ["f"].get("kind") == "function":
        if summ["f"]["overloads"] != 2:
            pr.append(f"overloads not taken from stubs that also hold the implementation signature ({summ['f']['overloads']})")
        if dict(summ["f"]["params"]).get("a") != "int | str" or summ["f"]["returns"] != "int | str":
            pr.append(f"annotations of the implementation signature not taken from stubs: {summ['f']['params']} -> {summ['f']['returns']}")
    if rf and sf in ("same", "overloads") and "f" in summ and isinstance(summ["f"], dict) and summ["f"].get("kind") == "function":
        f = summ["f"]
        params = dict(f["params"])
        if sf == "same":
            if params.get("a") != "int" or params.get("b") != "str" or params.get("args") != "float" or params.get("kwargs") != "bool":
                pr.append(f"parameter annotations not taken from stubs: {f['params']}")
            if f["returns"] != "list[int]":
                pr.append(f"return annotation not taken from stubs: {f['returns']}")
            want_doc = "runtime doc" if rf == "doc" else "stub doc"
            if f["doc"] != want_doc:
                pr.append(f"docstring {f['doc']!r}, expected {want_doc!r}")
        if sf == "overloads" and f["overloads"] != 2:
            pr.append(f"overloads not taken from stubs ({f['overloads']})")
    if rf == "alias":
        # the runtime member is an (unresolvable) import: it stays what it is, whatever the stubs say about that name
        if not (isinstance(summ.get("f"), tuple) and summ["f"][0] == "alias"):
            pr.append(f"the runtime import f was replaced or lost: {summ.get('f')}")
    elif rf and sf == "attr" and summ.get("f", {}).get("kind") != "function":
        pr.append("kind mismatch replaced the runtime member")
    if rc and "C" not in summ:
        pr.append("runtime class C lost")
    if rc and sc == "yes" and "C" in summ:
        want_cdoc = "C doc" if rc == "yes" else "C stub doc"
        if summ["C"].get("doc") != want_cdoc:
            pr.append(f"class docstring {summ['C'].get('doc')!r}, expected {want_cdoc!r} (the runtime docstring unless it is missing)")
        cm = summ["C"].get("members", {})
        if "x" not in cm or "m" not in cm:
            pr.append("runtime class members lost")
        else:
            if cm["x"].get("annotation") != "int":
                pr.append("attribute annotation not taken from stubs")
            if dict(cm["m"]["params"]).get("p") != "int" or cm["m"]["returns"] != "bool":
                pr.append("method annotations not taken from stubs")
            if "y" not in cm or cm["y"].get("runtime") is not False:
                pr.append("stub-only class member missing or not marked unavailable at runtime")
    if rv:
        if "v" not in summ or "i" not in summ:
            pr.append("runtime attribute / import lost")
        elif sv == "yes" and summ["v"].get("annotation") != "float":
            pr.append("module attribute annotation not taken from stubs")
        elif sv == "alias" and isinstance(summ["v"], tuple):
            pr.append("stub alias replaced a runtime member")
    if sv == "yes" and ("s" not in summ or (not isinstance(summ["s"], tuple) and summ["s"].get("runtime") is not False)):
        pr.append("stub-only member s missing or not marked unavailable at runtime")
    for name, m in summ.items():
        if isinstance(m, tuple) and m[0] == "alias" and m[2]:
            pr.append(f"alias {name} was resolved by merging")
    return pr


def sweep(limit=None, budget_s=120):
    import time
    t0 = time.time()
    bad, n = [], 0
    for key, rsrc, ssrc in sources():
        if limit and n >= limit or time.time() - t0 > budget_s or len(bad) >= 6:
            break
        for placement in ("sibling", "init", "separate", "subpackage"):
            res = {}
            for order in ("asc", "desc"):
                n += 1
                with tempfile.TemporaryDirectory() as tmp:
                    try:
                        mod, summ = load(tmp, placement, order, rsrc, ssrc)
                    except BaseException as e:  # noqa: BLE001
                        bad.append({"key": key, "placement": placement, "order": order, "problems": [f"merging raised {type(e).__name__}: {str(e)[:80]}"],
                                    "signature": f"stubs:{key}:{placement}:raise"})
                        continue
                    res[order] = summ
                    pr = expected_problems(key, mod, summ)
                    if placement == "subpackage":
                        if summ.get("child", {}).get("kind") != "module" or summ.get("other", {}).get("kind") != "module":
                            pr.append(f"submodules of a package with in-package stubs lost: {sorted(summ)}")
                        elif mod["other"]["w"].annotation is None or str(mod["other"]["w"].annotation) != "int":
                            pr.append("sibling stub of a submodule not merged")
                    if pr:
                        bad.append({"key": key, "placement": placement, "order": order, "problems": pr[:3], "runtime": rsrc, "stubs": ssrc,
                                    "signature": f"stubs:{key}:{placement}:{pr[0]}"})
            if len(res) == 2 and res["asc"] != res["desc"]:
                bad.append({"key": key, "placement": placement, "problems": ["result depends on which file is discovered first"],
                            "signature": f"stubs:{key}:{placement}:order"})
    return {"cases": n, "bad": bad}


def replay_stub_packages(w, obligation, expects):
    r = sweep(budget_s=90)
    b = r["bad"]
    return {"reproduced": bool(b), "detail": (json.dumps(b[0])[:600] if b else f"statement holds on {r['cases']} generated (module, stubs) loads"),
            "signature": b[0]["signature"] if b else "ok"}


if __name__ == "__main__":
    print(json.dumps(sweep(budget_s=int(sys.argv[1]) if len(sys.argv) > 1 else 120)))
