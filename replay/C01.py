"""Native replays for C01 (run under /venv/bin/python, PYTHONPATH=/repo/src)."""
from _griffe.models import Alias, Attribute, Class, Function, Module

KINDS = ["Module", "Class", "Function", "Attribute", "Alias"]


def _mk(kind, name):
    if kind == "Module":
        return Module(name)
    if kind == "Class":
        return Class(name)
    if kind == "Function":
        return Function(name)
    if kind == "Attribute":
        return Attribute(name)
    return Alias(name, "some.where." + (name or "x"))


def replay_visibility(w, obligation, expects):
    attr = obligation.split(".")[2]
    name = w["name"]
    obj = _mk(KINDS[w["cls"]], name)
    if w.get("public") is not None:
        obj.public = bool(w["public"])
    obj.runtime = bool(w["runtime"])
    if not w["parent_none"]:
        parent = Module("parentmod") if w["parent_cls"] == 0 else Class("ParentCls")
        if not w["exports_none"]:
            n = max(int(w["exports_n"]), 0)
            fill = [f"filler_{i}_{'x' if name != f'filler_{i}_x' else 'y'}" for i in range(n)]
            if w["name_in_exports"] and n > 0:
                fill[0] = name
            parent.exports = fill
        else:
            parent.exports = None
        if w["name_in_imports"]:
            parent.imports[name] = "other.mod." + (name or "x")
        obj.parent = parent
    expected = expects.get("result")
    try:
        actual = bool(getattr(obj, attr))
    except Exception as e:  # noqa: BLE001
        return {"reproduced": True, "detail": f"{attr} raised {type(e).__name__}: {e}; documented table says {expected}",
                "signature": f"{attr}:raises:{type(e).__name__}"}
    desc = (f"{KINDS[w['cls']]}(name={name!r}, public={w.get('public')!r}, runtime={w['runtime']}) parent="
            + ("None" if w["parent_none"] else f"{'Module' if w['parent_cls'] == 0 else 'Class'}(exports={getattr(obj.parent, 'exports', None)!r}, imports={dict(obj.parent.imports)!r})"))
    return {"reproduced": actual != bool(expected), "detail": f"{attr} of {desc} = {actual}; documented table says {expected}",
            "signature": f"{attr}:{actual}:{expected}"}


# =========================================================================== visitor oracle: what the source binds, walked independently with `ast`
import ast
import inspect
import itertools
import json
import random
import sys
import time

PROPERTY_DECOS = {"property": {"property"}, "functools.cached_property": {"cached", "property"}, "cached_property": {"cached", "property"}}
LABEL_DECOS = {"staticmethod": {"staticmethod"}, "classmethod": {"classmethod"}, "abc.abstractmethod": {"abstractmethod"},
               "functools.cache": {"cached"}, "functools.lru_cache": {"cached"}, "dataclasses.dataclass": {"dataclass"}}
LABEL_DECOS.update(PROPERTY_DECOS)
OVERLOADS = {"typing.overload", "typing_extensions.overload"}
TC = {"TYPE_CHECKING", "typing.TYPE_CHECKING"}


def _deco_path(d, imports):
    d = d.func if isinstance(d, ast.Call) else d
    try:
        text = ast.unparse(d)
    except Exception:  # noqa: BLE001
        return ""
    head, _, rest = text.partition(".")
    if head in imports:
        return imports[head] + ("." + rest if rest else "")
    return text


class Expected:
    """Expected members of one scope: name -> dict(kind, runtime, lineno, endlineno, labels, overloads, setter, deleter, members, params)."""

    def __init__(self):
        self.members = {}
        self.events = []


def _params(args):
    out = []
    pos = args.posonlyargs + args.args
    nd = len(args.defaults)
    for i, a in enumerate(pos):
        out.append((a.arg, "positional-only" if i < len(args.posonlyargs) else "positional or keyword", i >= len(pos) - nd))
    if args.vararg:
        out.append((args.vararg.arg, "variadic positional", None))
    for a, d in zip(args.kwonlyargs, args.kw_defaults):
        out.append((a.arg, "keyword-only", d is not None))
    if args.kwarg:
        out.append((args.kwarg.arg, "variadic keyword", None))
    return out


def _doc_literal(st):
    """(text, first line, last line) when the statement is a bare string literal, else None."""
    if isinstance(st, ast.Expr) and isinstance(st.value, ast.Constant) and isinstance(st.value.value, str):
        return (st.value.value, st.value.lineno, st.value.end_lineno)
    return None


def _body_doc(node):
    return _doc_literal(node.body[0]) if node.body else None


def expected_scope(body, scope_kind, guard=False, imports=None, pending=None, members=None, parent_node=None, cls_members=None, in_init=False, events=None, path=""):
    """Walk statements like CPython binds them, with Griffe's documented tie-break rules."""
    imports = {} if imports is None else imports
    members = {} if members is None else members
    pending = {} if pending is None else pending
    events = [] if events is None else events
    for idx_, st in enumerate(body):
        direct_conditional = isinstance(parent_node, (ast.If, ast.ExceptHandler))
        following = _doc_literal(body[idx_ + 1]) if idx_ + 1 < len(body) else None
        if isinstance(st, (ast.FunctionDef, ast.AsyncFunctionDef)):
            if in_init:
                continue
            decos = [_deco_path(d, imports) for d in st.decorator_list]
            labels = set()
            for d in decos:
                labels |= LABEL_DECOS.get(d, set())
            if isinstance(st, ast.AsyncFunctionDef):
                labels.add("async")
            lineno = st.decorator_list[0].lineno if st.decorator_list else st.lineno
            if "property" in labels:
                members[st.name] = dict(kind="attribute", runtime=not guard, lineno=lineno, endlineno=st.end_lineno, labels=labels, setter=False, deleter=False, doc=_body_doc(st))
                events.append(("instance", path + st.name))
                continue
            fn = dict(kind="function", runtime=not guard, lineno=lineno, endlineno=st.end_lineno, labels=labels, params=_params(st.args), overloads=[], members={}, doc=_body_doc(st))
            if any(d in OVERLOADS for d in decos):
                pending.setdefault(st.name, []).append(fn)
                events.append(("instance", path + st.name))
                continue
            prop = None
            for d in decos:
                base, _, acc = d.rpartition(".")
                if acc in ("setter", "deleter") and base == st.name and members.get(st.name, {}).get("kind") == "attribute" and "property" in members[st.name]["labels"]:
                    prop = acc
                    break
            if prop:
                members[st.name][prop] = True
                members[st.name]["labels"] = members[st.name]["labels"] | {"writable" if prop == "setter" else "deletable"}
                events.append(("instance", path + st.name))
                continue
            fn["overloads"] = pending.pop(st.name, [])
            members[st.name] = fn
            events.append(("instance", path + st.name))
            if scope_kind == "class" and st.name == "__init__":
                expected_scope(st.body, "function", guard, imports, None, members, st, None, True, events, path)
        elif isinstance(st, ast.ClassDef):
            if in_init:
                continue
            decos = [_deco_path(d, imports) for d in st.decorator_list]
            labels = set()
            for d in decos:
                labels |= LABEL_DECOS.get(d, set())
            sub = {}
            members[st.name] = dict(kind="class", runtime=not guard, lineno=st.decorator_list[0].lineno if st.decorator_list else st.lineno,
                                    endlineno=st.end_lineno, labels=labels, members=sub, doc=_body_doc(st))
            events.append(("instance", path + st.name))
            expected_scope(st.body, "class", guard, dict(imports), {}, sub, st, None, False, events, path + st.name + ".")
            events.append(("members", path + st.name))
        elif isinstance(st, (ast.Assign, ast.AnnAssign)):
            targets = st.targets if isinstance(st, ast.Assign) else [st.target]
            names = []
            for t in targets:
                for e in (t.elts if isinstance(t, (ast.Tuple, ast.List)) else [t]):
                    e = e.value if isinstance(e, ast.Starred) else e
                    if in_init:
                        if isinstance(e, ast.Attribute) and isinstance(e.value, ast.Name) and e.value.id == "self":
                            names.append(e.attr)
                    elif isinstance(e, ast.Name):
                        names.append(e.id)
            for nm in names:
                if nm in members and direct_conditional:
                    continue
                # Griffe's tie-break: a re-assignment that is not followed by a docstring literal keeps the docstring of the member it replaces
                prev = members.get(nm) or {}
                doc = following
                if prev.get("doc") is not None and doc is None:
                    doc = prev["doc"]
                members[nm] = dict(kind="attribute", runtime=not guard, lineno=st.lineno, endlineno=st.end_lineno, labels=None, doc=doc)
                events.append(("instance", path + nm))
        elif isinstance(st, ast.Import):
            if in_init:
                continue
            for a in st.names:
                nm = a.asname or a.name.split(".")[0]
                imports[nm] = a.name if a.asname else a.name.split(".")[0]
                members[nm] = dict(kind="alias", runtime=not guard, lineno=st.lineno, endlineno=st.end_lineno, labels=None, target=imports[nm])
        elif isinstance(st, ast.ImportFrom):
            if in_init or st.level:
                continue
            for a in st.names:
                if a.name == "*":
                    continue
                nm = a.asname or a.name
                imports[nm] = f"{st.module}.{a.name}"
                members[nm] = dict(kind="alias", runtime=not guard, lineno=st.lineno, endlineno=st.end_lineno, labels=None, target=imports[nm])
        elif isinstance(st, ast.If):
            tc = isinstance(parent_node, (ast.Module, ast.ClassDef)) and ast.unparse(st.test) in TC
            expected_scope(st.body, scope_kind, guard or tc, imports, pending, members, st, None, in_init, events, path)
            expected_scope(st.orelse, scope_kind, guard, imports, pending, members, st, None, in_init, events, path)
        elif isinstance(st, ast.Try):
            expected_scope(st.body, scope_kind, guard, imports, pending, members, st, None, in_init, events, path)
            for h in st.handlers:
                expected_scope(h.body, scope_kind, guard, imports, pending, members, h, None, in_init, events, path)
            expected_scope(st.orelse, scope_kind, guard, imports, pending, members, st, None, in_init, events, path)
            expected_scope(st.finalbody, scope_kind, guard, imports, pending, members, st, None, in_init, events, path)
        elif isinstance(st, (ast.For, ast.While, ast.With)):
            expected_scope(st.body, scope_kind, guard, imports, pending, members, st, None, in_init, events, path)
            expected_scope(getattr(st, "orelse", []), scope_kind, guard, imports, pending, members, st, None, in_init, events, path)
    return members, events


class Recorder:
    """Passive extension recording the event stream."""

    def __init__(self):
        self.events = []


def visit_source(src):
    import griffe
    from _griffe.extensions.base import Extension, Extensions

    rec = []

    class Rec(Extension):
        def on_instance(self, *, node, obj, agent, **kwargs):
            rec.append(("instance", obj))

        def on_members(self, *, node, obj, agent, **kwargs):
            rec.append(("members", obj))
    mod = griffe.visit("m", filepath=None, code=src, extensions=Extensions(Rec()))
    return mod, rec


def compare_scope(exp, obj, path, lines, out):
    got = dict(obj.members)
    for nm in sorted(set(exp) | set(got)):
        p = f"{path}{nm}"
        if nm not in got:
            out.append(f"{p}: bound in the source but missing from members")
            continue
        if nm not in exp:
            out.append(f"{p}: member not bound by the source")
            continue
        e, g = exp[nm], got[nm]
        kind = "alias" if g.is_alias else g.kind.value
        if kind != e["kind"]:
            out.append(f"{p}: kind {kind}, source binds a {e['kind']}")
            continue
        if g.runtime != e["runtime"]:
            out.append(f"{p}: runtime={g.runtime}, source says {'not ' if e['runtime'] else ''}type-guarded")
        gl, gel = (g.alias_lineno, g.alias_endlineno) if g.is_alias else (g.lineno, g.endlineno)
        if (gl, gel) != (e["lineno"], e["endlineno"]):
            out.append(f"{p}: span {gl}-{gel}, source {e['lineno']}-{e['endlineno']}")
        if "doc" in e and not g.is_alias:
            gd = None if g.docstring is None else (g.docstring.value, g.docstring.lineno, g.docstring.endlineno)
            ed = e["doc"] if e["doc"] is None else (inspect.cleandoc(e["doc"][0]), e["doc"][1], e["doc"][2])
            if gd != ed:
                out.append(f"{p}: docstring {gd}, source has {'no docstring literal' if ed is None else ed}")
        if e.get("labels") is not None and not g.is_alias:
            missing = e["labels"] - set(g.labels)
            extra = {l for l in set(g.labels) - e["labels"] if l in {"property", "cached", "staticmethod", "classmethod", "abstractmethod", "async", "writable", "deletable", "dataclass"}}
            if missing or extra:
                out.append(f"{p}: labels {sorted(g.labels)}, decorators give {sorted(e['labels'])}")
        if e["kind"] == "function":
            gp = [(q.name.lstrip("*"), q.kind.value, None if q.kind.value.startswith("variadic") else q.default is not None) for q in g.parameters]
            if gp != e["params"]:
                out.append(f"{p}: parameters {gp}, source {e['params']}")
            if [len(o.parameters) for o in (g.overloads or [])] != [len(o["params"]) for o in e["overloads"]]:
                out.append(f"{p}: {len(g.overloads or [])} overloads attached, source defines {len(e['overloads'])}")
        if e["kind"] == "attribute" and "setter" in e:
            if (g.setter is not None) != e["setter"] or (g.deleter is not None) != e["deleter"]:
                out.append(f"{p}: setter/deleter attached = {g.setter is not None}/{g.deleter is not None}, source {e['setter']}/{e['deleter']}")
        if e["kind"] == "class":
            compare_scope(e["members"], g, p + ".", lines, out)
        if not g.is_alias and (e["kind"] in ("function", "class") or (e["kind"] == "attribute" and "setter" in e)) and lines:
            first = lines[gl - 1].lstrip() if gl and gl <= len(lines) else ""
            if not (first.startswith("@") or first.startswith(("def ", "async def ", "class "))):
                out.append(f"{p}: slicing the source by the span does not start at the definition: {first!r}")


PRELUDE = "import typing\nimport dataclasses\nfrom typing import TYPE_CHECKING, overload\n"


def check_source(src):
    """-> list of disagreements between Griffe's static view of `src` and what the source binds."""
    if not src.startswith(PRELUDE):
        src = PRELUDE + src
    tree = ast.parse(src)
    exp, exp_events = expected_scope(tree.body, "module", False, parent_node=tree)
    try:
        mod, rec = visit_source(src)
    except Exception as e:  # noqa: BLE001
        return [f"static loading raised {type(e).__name__}: {e}"]
    out = []
    compare_scope(exp, mod, "", src.splitlines(), out)
    # events: every object placed in the tree announced exactly once, parent before members, members-complete after the last member
    def walk(o):
        yield o
        for m in o.members.values():
            if not m.is_alias:
                yield from walk(m)
                for extra in (getattr(m, "setter", None), getattr(m, "deleter", None)):
                    if extra is not None:
                        yield extra
                if m.is_function:
                    for ov in (m.overloads or []):
                        yield ov
    inst = [id(o) for k, o in rec if k == "instance"]
    for o in walk(mod):
        n = inst.count(id(o))
        if n != 1:
            out.append(f"{o.path.removeprefix('m.')}: placed in the tree but announced to extensions {n} times")
        elif o.parent is not None and not o.parent.is_function and id(o.parent) in inst and inst.index(id(o.parent)) > inst.index(id(o)):
            out.append(f"{o.path.removeprefix('m.')}: announced before its parent")
    done = {}
    for i, (kind, o) in enumerate(rec):
        if kind == "members":
            done[id(o)] = done.get(id(o), 0) + 1
            later = [q for k, q in rec[i + 1:] if k == "instance" and q.parent is o]
            if later:
                out.append(f"{o.path.removeprefix('m.')}: members-complete event fired before its member {later[0].name} was announced")
    for o in walk(mod):
        if (o.is_class or o.is_module) and done.get(id(o), 0) != 1:
            out.append(f"{o.path.removeprefix('m.')}: members-complete event fired {done.get(id(o), 0)} times")
    return out


SIMPLE = ["x = 1", "x: int = 2", "x = y = 3", "y = 4", "import os",
          "def f(a, b=1): pass", "async def f(): pass", "@staticmethod\ndef g(a, /, *, k=0): pass", "def g(): pass",
          "@overload\ndef f(a: int): ...", "@overload\n@staticmethod\ndef f(a: str, b): ...", "@typing.overload\ndef g(): ...",
          "@property\ndef p(self): return 1", "@p.setter\ndef p(self, v): pass", "@p.deleter\ndef p(self): pass", "from m2 import a, b as c",
          # docstrings: ordinary, empty-string and multi-line literals on functions, classes, properties and after assignments
          'def h():\n    """Doc of h."""\n    return 1', 'def h():\n    ""\n    return 1', 'class K:\n    ""', 'class K:\n    """Doc of K.\n\n    More.\n    """\n    k = 1\n    "Doc of k."',
          'x = 7\n""', 'y = 8\n"""Doc of y."""', "x = z['k'] = 3", "w = z[0].q = y = 4", '@property\ndef p(self):\n    ""\n    return 1', 'x = 9\n"Doc of x."\n"not a docstring"']
COMPOUND = ["if TYPE_CHECKING:\n{0}", "if TYPE_CHECKING:\n{0}\nelse:\n{1}", "if cond:\n{0}\nelse:\n{1}", "try:\n{0}\nexcept E:\n{1}", "for _ in z:\n{0}",
            "class C:\n{0}", "class C:\n{0}\n{1}", "if typing.TYPE_CHECKING:\n{0}\n{1}", "if cond:\n{0}", "if not typing.TYPE_CHECKING:\n{0}", "if x.TYPE_CHECKING:\n{0}",
            "if TYPE_CHECKING:\n    if cond:\n    {0}\n{1}", "class C:\n    def __init__(self):\n        self.x = self.w = 1\n{0}", "class C:\n{0}\n    def __init__(self):\n        self.opts.g = self.f.x = 2\n        self.y = 3",
            "@dataclasses.dataclass\nclass D:\n{0}"]


def indent(s, n=4):
    return "\n".join(" " * n + l for l in s.split("\n"))


def gen_modules(seed, n_random):
    """Deterministic catalogue (all compound x pairs of simple statements, followed by a trailing statement) + random deeper modules."""
    for comp in COMPOUND:
        for a, b in itertools.product(SIMPLE, repeat=2):
            yield "\n".join([comp.format(indent(a), indent(b)), "x = 5", "def f(z): pass"])
    rnd = random.Random(seed)

    def stmt(depth):
        if depth == 0 or rnd.random() < 0.45:
            return rnd.choice(SIMPLE)
        comp = rnd.choice(COMPOUND)
        return comp.format(indent(block(depth - 1)), indent(block(depth - 1)))

    def block(depth):
        return "\n".join(stmt(depth) for _ in range(rnd.randint(1, 3)))
    for _ in range(n_random):
        yield block(3)


def bounded_visitor(seed, n_random, budget_s):
    import logging
    logging.disable(logging.CRITICAL)
    t0 = time.time()
    bad, cases, sigs = [], 0, set()
    for src in gen_modules(seed, n_random):
        if time.time() - t0 > budget_s:
            break
        try:
            ast.parse(src)
        except SyntaxError:
            continue
        cases += 1
        for f in check_source(src)[:2]:
            sig = f.split(":", 1)[1].strip()[:40]
            sig = "".join(ch for ch in sig if not ch.isdigit())
            if sig not in sigs:
                sigs.add(sig)
                bad.append({"source": src, "failure": f, "signature": "visitor:" + sig})
    return {"cases": cases, "bad": bad, "wall_s": round(time.time() - t0, 1)}


def replay_visitor(w, obligation, expects):
    """Guided search: modules from the catalogue that exercise the refuted handler, checked against the source-level oracle."""
    import logging
    logging.disable(logging.CRITICAL)
    clause = (expects or {}).get("clause", "")
    want = {"visit_if": ("runtime=",), "handle_attribute": ("missing from members", "not bound by", "kind ", "docstring"), "handle_function": ("overloads", "labels", "setter", "parameters", "kind ", "missing"),
            "visit_classdef": ("span", "labels", "members-complete", "announced"), "docstring": ("docstring",)}.get(clause)
    t0 = time.time()
    for src in gen_modules(0, 3000):
        if time.time() - t0 > 90:
            break
        try:
            ast.parse(src)
        except SyntaxError:
            continue
        fails = check_source(src)
        hit = [f for f in fails if want is None or any(x in f for x in want)]
        if hit:
            return {"reproduced": True, "detail": hit[0], "input": {"source": src}, "signature": "visitor:" + "".join(ch for ch in hit[0].split(":", 1)[1].strip()[:40] if not ch.isdigit())}
    return {"reproduced": False, "detail": "no module of the catalogue disagrees with the source-level oracle"}


if __name__ == "__main__":
    print(json.dumps(bounded_visitor(int(sys.argv[1]), int(sys.argv[2]), float(sys.argv[3]))))
