"""Native replays for C01 (run under /venv/bin/python, PYTHONPATH=/repo/src)."""
from _griffe.models import Alias, Attribute, Class, Function, Module

KINDS = ["Module", "Class", "Function", "Attribute", "Alias"]


def _mk(kind, name):
    if kind == "Module":
        return Module(name)
    if kind == "Class":
        return Class(name)
    if kind == "Function":
        return Function(name)
    if kind == "Attribute":
        return Attribute(name)
    return Alias(name, "some.where." + (name or "x"))


def replay_visibility(w, obligation, expects):
    attr = obligation.split(".")[2]
    name = w["name"]
    obj = _mk(KINDS[w["cls"]], name)
    if w.get("public") is not None:
        obj.public = bool(w["public"])
    obj.runtime = bool(w["runtime"])
    if not w["parent_none"]:
        parent = Module("parentmod") if w["parent_cls"] == 0 else Class("ParentCls")
        if not w["exports_none"]:
            n = max(int(w["exports_n"]), 0)
            fill = [f"filler_{i}_{'x' if name != f'filler_{i}_x' else 'y'}" for i in range(n)]
            if w["name_in_exports"] and n > 0:
                fill[0] = name
            parent.exports = fill
        else:
            parent.exports = None
        if w["name_in_imports"]:
            parent.imports[name] = "other.mod." + (name or "x")
        obj.parent = parent
    expected = expects.get("result")
    try:
        actual = bool(getattr(obj, attr))
    except Exception as e:  # noqa: BLE001
        return {"reproduced": True, "detail": f"{attr} raised {type(e).__name__}: {e}; documented table says {expected}",
                "signature": f"{attr}:raises:{type(e).__name__}"}
    desc = (f"{KINDS[w['cls']]}(name={name!r}, public={w.get('public')!r}, runtime={w['runtime']}) parent="
            + ("None" if w["parent_none"] else f"{'Module' if w['parent_cls'] == 0 else 'Class'}(exports={getattr(obj.parent, 'exports', None)!r}, imports={dict(obj.parent.imports)!r})"))
    return {"reproduced": actual != bool(expected), "detail": f"{attr} of {desc} = {actual}; documented table says {expected}",
            "signature": f"{attr}:{actual}:{expected}"}
