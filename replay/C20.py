"""Native replays for C20: a real git repository, real load_git / tmp_worktree, fault injection on subprocess.run only."""
import logging
import os
import subprocess
import tempfile
from pathlib import Path

logging.disable(logging.CRITICAL)

import _griffe.git as ggit  # noqa: E402
from _griffe.loader import load_git  # noqa: E402

ENV = dict(os.environ, GIT_AUTHOR_NAME="t", GIT_AUTHOR_EMAIL="t@t", GIT_COMMITTER_NAME="t", GIT_COMMITTER_EMAIL="t@t",
           GIT_CONFIG_GLOBAL="/dev/null", GIT_CONFIG_SYSTEM="/dev/null")


def git(repo, *args):
    return subprocess.run(["git", "-C", str(repo), *args], capture_output=True, text=True, env=ENV, check=False).stdout


def make_repo(root):
    repo = Path(root) / "my-repo"
    repo.mkdir()
    git(repo, "init", "-q", "-b", "main")
    pkg = repo / "pkg"
    pkg.mkdir()
    (pkg / "__init__.py").write_text("def f(a, b=1):\n    '''doc'''\n    return a\n")
    git(repo, "add", "-A")
    git(repo, "commit", "-q", "-m", "one")
    git(repo, "tag", "v1")
    (pkg / "__init__.py").write_text("def f(a):\n    return a\n")
    git(repo, "commit", "-q", "-am", "two")
    git(repo, "branch", "feature/new-stuff")
    (repo / "untracked.txt").write_text("u")
    (pkg / "__init__.py").write_text("def f(a):\n    return a  # dirty\n")
    return repo


def snapshot(repo, tmpdir):
    return {
        "head": git(repo, "rev-parse", "HEAD"), "branches": git(repo, "branch", "--list", "--format=%(refname) %(objectname)"),
        "status": git(repo, "status", "--porcelain"), "worktrees": len(git(repo, "worktree", "list").strip().splitlines()),
        "tmp": sorted(p.name for p in Path(tmpdir).iterdir()),
    }


def scenario(inject_at=None, exc=KeyboardInterrupt, ref="v1", body_exc=None, inspect=False, user_branch=False):
    """Run load_git (or the bare context manager) with a fault injected at the inject_at-th subprocess.run call inside _griffe.git."""
    problems = []
    with tempfile.TemporaryDirectory() as root:
        repo = make_repo(root)
        if user_branch:
            # the user's own branch happens to carry the name of the temporary one (with a commit of its own): it must survive untouched
            norm = ref.replace("/", "-")
            git(repo, "branch", f"griffe-{norm}", "v1")
        private_tmp = Path(root) / "tmp"
        private_tmp.mkdir()
        old_tmp = tempfile.tempdir
        tempfile.tempdir = str(private_tmp)
        before = snapshot(repo, private_tmp)
        real_run = subprocess.run
        n = [0]

        def fake_run(*a, **k):
            n[0] += 1
            if inject_at is not None and n[0] == inject_at:
                raise exc("injected")
            k.setdefault("env", ENV)
            return real_run(*a, **k)
        ggit.subprocess.run = fake_run
        try:
            try:
                if body_exc is not None:
                    with ggit.tmp_worktree(str(repo), ref):
                        raise body_exc("body")
                else:
                    obj = load_git("pkg", ref=ref, repo=str(repo), force_inspection=inspect)
                    try:
                        lines = obj["f"].lines
                    except BaseException as e:  # noqa: BLE001
                        problems.append(f"source lines of the returned object unusable after the checkout was removed: {type(e).__name__}")
                    else:
                        if not lines or not obj["f"].source:
                            problems.append("returned object has no source lines after the checkout was removed")
                    import sys as _sys
                    for _m in [m for m in _sys.modules if m == "pkg" or m.startswith("pkg.")]:
                        del _sys.modules[_m]
            except BaseException as e:  # noqa: BLE001
                outcome = type(e).__name__
            else:
                outcome = "ok"
        finally:
            ggit.subprocess.run = real_run
            tempfile.tempdir = old_tmp
        after = snapshot(repo, private_tmp)
        for k in before:
            if before[k] != after[k]:
                problems.append(f"{k} changed: {before[k]!r} -> {after[k]!r}")
        # the next load of the same ref must still work
        if not problems and not user_branch:
            try:
                load_git("pkg", ref=ref, repo=str(repo))
            except BaseException as e:  # noqa: BLE001
                if ref in ("v1", "main", "feature/new-stuff"):
                    problems.append(f"a later load_git of {ref} fails: {type(e).__name__}")
    return outcome, problems


def replay_git(w, obligation, expects):
    problems = []
    for ref in ("v1", "feature/new-stuff", "no-such-ref"):
        for body_exc in (None, ValueError, KeyboardInterrupt):
            oc, pr = scenario(ref=ref, body_exc=body_exc)
            problems += [f"[ref={ref} body raises {getattr(body_exc, '__name__', None)} -> {oc}] {p}" for p in pr]
    for ref in ("v1", "feature/new-stuff"):
        oc, pr = scenario(ref=ref, inspect=True)
        problems += [f"[ref={ref} inspected -> {oc}] {p}" for p in pr]
    for ref in ("main", "feature/new-stuff"):
        oc, pr = scenario(ref=ref, user_branch=True)
        problems += [f"[ref={ref}, a branch griffe-{ref.replace('/', '-')} of the user exists -> {oc}] {p}" for p in pr]
    return {"reproduced": bool(problems), "detail": "; ".join(problems[:3]) or "repository, branches, worktrees and temp dir unchanged on every path",
            "signature": "git:" + (problems[0] if problems else "ok")}


def replay_git_interrupt_add(w, obligation, expects):
    problems = []
    for exc in (KeyboardInterrupt, OSError):
        for at in (1, 2):
            oc, pr = scenario(inject_at=at, exc=exc)
            problems += [f"[{exc.__name__} at git call {at} -> {oc}] {p}" for p in pr]
    return {"reproduced": bool(problems), "detail": "; ".join(problems[:3]) or "repository unchanged when rev-parse / worktree add is interrupted before running",
            "signature": "git-interrupt-add:" + (problems[0] if problems else "ok")}


def replay_git_interrupt_cleanup(w, obligation, expects):
    problems = []
    for at in range(3, 6):
        for exc in (KeyboardInterrupt, OSError):
            oc, pr = scenario(inject_at=at, exc=exc)
            problems += [f"[{exc.__name__} at git call {at} -> {oc}] {p}" for p in pr]
    return {"reproduced": bool(problems), "detail": "; ".join(problems[:3]) or "repository unchanged whichever clean-up call is interrupted",
            "signature": "C20-F1" if problems else "ok"}


if __name__ == "__main__":
    import json
    print(json.dumps([replay_git({}, "", {}), replay_git_interrupt_add({}, "", {}), replay_git_interrupt_cleanup({}, "", {})], indent=1))
