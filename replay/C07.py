"""Native bounded tier / replay for C07: exhaustive small hierarchies, CPython's type() as the oracle."""
import itertools
import json
import logging
import sys
import tempfile
from pathlib import Path

logging.disable(logging.CRITICAL)

from _griffe.c3linear import c3linear_merge  # noqa: E402
from _griffe.loader import GriffeLoader  # noqa: E402


def hierarchies(n, max_bases=3):
    """All ways for classes C0..C{n-1} to list up to max_bases ordered bases among the *other* classes (cycles included)."""
    names = [f"C{i}" for i in range(n)]
    choices = []
    for i in range(n):
        others = [x for x in names if x != names[i]]
        opts = [()]
        for k in range(1, max_bases + 1):
            opts += list(itertools.permutations(others, k))
        choices.append(opts)
    return names, itertools.product(*choices)


def cpython_mro(names, bases):
    """Linearise with CPython itself; None if CPython rejects (cycle / inconsistent)."""
    made = {}
    order = []
    state = {}

    def build(n, stack=()):
        if n in made:
            return made[n]
        if n in stack:
            raise TypeError("cycle")
        bs = tuple(Exception if b == "Exception" else build(b, stack + (n,)) for b in bases[n])
        made[n] = type(n, bs or (object,), {})
        return made[n]
    out = {}
    for n in names:
        try:
            c = build(n)
            out[n] = [k.__name__ for k in c.__mro__[1:-1] if k.__name__ in names]     # bases Griffe cannot resolve statically (builtins) are left out
        except TypeError:
            out[n] = None
    return out


def members_for(names, member_choice):
    return {n: member_choice[i] for i, n in enumerate(names)}


def check(names, combo, members, foreign_pos=None):
    bases = dict(zip(names, combo))
    if foreign_pos is not None:
        # the last class also derives from a class that is not in the loaded tree (a builtin), written at the given position among its bases
        last = list(bases[names[-1]])
        last.insert(min(foreign_pos, len(last)), "Exception")
        bases[names[-1]] = tuple(last)
    exp = cpython_mro(names, bases)
    # a class whose (transitive) bases cannot be linearised is itself uncomputable for CPython
    src = []
    # definition order does not matter for Griffe (static); write in name order
    for n in names:
        body = "\n".join((f"    def __init__(self, from_{n}): ..." if m == "__init__" else f"    {m} = '{n}.{m}'") for m in members[n]) or "    pass"
        src.append(f"class {n}({', '.join(bases[n])}):\n{body}\n")
    problems = []
    with tempfile.TemporaryDirectory() as tmp:
        (Path(tmp) / "hmod.py").write_text("\n".join(src))
        ld = GriffeLoader(search_paths=[tmp])
        try:
            mod = ld.load("hmod")
        except BaseException as e:  # noqa: BLE001
            return [f"loading the hierarchy raised {type(e).__name__}"], "\n".join(src)
        for n in names:
            cls = mod[n]
            try:
                got = [c.name for c in cls.mro()]
            except ValueError:
                got = None
            except RecursionError:
                problems.append(f"{n}: mro() overflowed the stack")
                continue
            if got != exp[n]:
                problems.append(f"{n}: griffe mro {got} != cpython {exp[n]}")
                continue
            try:
                inh = cls.inherited_members
            except BaseException as e:  # noqa: BLE001
                problems.append(f"{n}: inherited_members raised {type(e).__name__}")
                continue
            if exp[n] is None:
                if inh:
                    problems.append(f"{n}: uncomputable MRO but inherited members {sorted(inh)}")
                continue
            want = {}
            for b in reversed(exp[n]):
                for m in members[b]:
                    want[m] = f"hmod.{b}.{m}"
            for m in members[n]:
                want.pop(m, None)
            have = {k: v.target_path for k, v in inh.items()}
            if have != want:
                problems.append(f"{n}: inherited {have} != cpython {want}")
            for k, v in inh.items():
                if v.path != f"hmod.{n}.{k}" or not v.inherited or not v.is_alias:
                    problems.append(f"{n}.{k}: not an inherited alias under the subclass path ({v.path})")
            for m in members[n]:
                if cls.all_members[m].is_alias:
                    problems.append(f"{n}.{m}: own member shadowed by an inherited alias")
            # the constructor a class presents is the __init__ CPython finds through that order
            owner = next((b for b in [n, *exp[n]] if "__init__" in members[b]), None)
            try:
                got_params = [p.name for p in cls.parameters]
            except BaseException as e:  # noqa: BLE001
                got_params = f"raised {type(e).__name__}"
            if got_params != (["self", f"from_{owner}"] if owner else []):
                problems.append(f"{n}: CPython calls {owner}.__init__, Class.parameters gives {got_params}")
    return problems, "\n".join(src)


def c3_reference(lists):
    """Textbook C3 merge (Barrett et al.; the algorithm of CPython's type.mro): repeatedly take the first head that is in no tail."""
    seqs = [list(x) for x in lists if x]
    out = []
    while seqs:
        for seq in seqs:
            cand = seq[0]
            if not any(cand in other[1:] for other in seqs):
                break
        else:
            return None
        out.append(cand)
        seqs = [[x for x in seq if x != cand] if seq[0] == cand else seq for seq in seqs]
        seqs = [seq for seq in seqs if seq]
    return out


def c3_contract(lists):
    """Run-time-checked contract of c3linear_merge on one input: result is a duplicate-free merge that keeps every list's order."""
    try:
        res = c3linear_merge(*[list(x) for x in lists])
    except ValueError:
        return None
    probs = []
    if all(len(set(l)) == len(l) for l in lists):
        ref = c3_reference(lists)
        if ref is not None and ref != res:
            probs.append(f"c3linear_merge{lists} = {res}, the C3 merge is {ref}")
    allitems = [x for lst in lists for x in lst]
    if sorted(set(allitems)) != sorted(res) or len(set(res)) != len(res):
        probs.append(f"c3linear_merge{lists} = {res}: not a duplicate-free merge")
    for lst in lists:
        idx = [res.index(x) for x in lst if x in res]
        if idx != sorted(idx):
            probs.append(f"c3linear_merge{lists} = {res}: order of {lst} not kept")
    return probs


def c3_vs_cpython(n=5, max_bases=3, budget_s=60):
    """c3linear_merge driven the way Class._mro drives it, over every acyclic hierarchy of n classes (bases among earlier classes, <= max_bases,
    ordered); CPython's type() is the oracle (None = rejected)."""
    import time
    t0 = time.time()
    names = [f"K{i}" for i in range(n)]
    choices = []
    for i in range(n):
        earlier = names[:i]
        opts = [()]
        for k in range(1, min(max_bases, len(earlier)) + 1):
            opts += list(itertools.permutations(earlier, k))
        choices.append(opts)
    bad, count = [], 0
    for combo in itertools.product(*choices):
        if time.time() - t0 > budget_s:
            break
        bases = dict(zip(names, combo))
        want = cpython_mro(names, bases)
        got = {}
        for nm in names:
            try:
                bl = list(bases[nm])
                if any(got.get(b) is None for b in bl):
                    got[nm] = None
                    continue
                got[nm] = [nm, *c3linear_merge(*[list(got[b]) for b in bl], bl)] if bl else [nm]
            except ValueError:
                got[nm] = None
        count += 1
        for nm in names:
            w_ = None if want[nm] is None else [nm] + [x for x in want[nm]]
            if got[nm] != w_:
                src = "; ".join(f"class {k}({', '.join(bases[k])})" for k in names)
                bad.append({"source": src, "problems": [f"MRO of {nm}: c3linear_merge gives {got[nm]}, CPython {w_}"], "signature": "c3-vs-cpython:" + src})
                break
        if len(bad) >= 3:
            break
    return count, bad


def sweep(n, with_members, budget_s=200):
    import time
    t0 = time.time()
    names, combos = hierarchies(n)
    bad, count = [], 0
    member_opts = [((), ("x",)), ] if not with_members else None
    for combo in combos:
        if time.time() - t0 > budget_s or len(bad) >= 5:
            break
        # member placement: x defined in a rotating subset of classes, y in the last class only
        for mask in ((range(1 << n)) if with_members else (0,)):
            members = {nm: (("x",) if mask >> i & 1 else ()) for i, nm in enumerate(names)}
            count += 1
            pr, src = check(names, combo, members)
            if pr:
                bad.append({"source": src, "problems": pr[:3], "signature": "hierarchy:" + src})
                break
    # a base that cannot be resolved is skipped and only skipped: the bases around it still count
    names3, combos3 = hierarchies(3)
    for combo in combos3:
        if time.time() - t0 > budget_s * 1.3 or len(bad) >= 5:
            break
        if not combo[-1]:
            continue
        for pos in range(len(combo[-1]) + 1):
            members = {nm: ("x",) if i != 2 else () for i, nm in enumerate(names3)}
            count += 1
            pr, src = check(names3, combo, members, foreign_pos=pos)
            if pr:
                bad.append({"source": src, "problems": pr[:3], "signature": "hierarchy:" + src})
                break
    # diamonds of 4 classes with __init__ declared in every subset of them: the constructor presented is the nearest one in the MRO
    names4 = ["K0", "K1", "K2", "K3"]
    for combo in ((), ("K0",), ("K0",), ("K1", "K2")), ((), ("K0",), ("K0",), ("K2", "K1")), ((), ("K0",), (), ("K1", "K2")), ((), (), ("K0", "K1"), ("K2", "K1")):
        for mask in range(16):
            members = {nm: (("__init__",) if mask >> i & 1 else ()) for i, nm in enumerate(names4)}
            count += 1
            pr, src = check(names4, combo, members)
            if pr:
                bad.append({"source": src, "problems": pr[:3], "signature": "hierarchy:" + src})
                break
    # c3linear_merge contract on raw lists
    items = "abcd"
    lists_dom = [p for k in range(0, 4) for p in itertools.permutations(items, k)]
    c3n = 0
    for ls in itertools.product(lists_dom, repeat=3):
        c3n += 1
        pr = c3_contract([list(x) for x in ls])
        if pr:
            bad.append({"lists": ls, "problems": pr[:2], "signature": "c3:" + json.dumps(ls)})
            if len(bad) >= 8:
                break
    n5, bad5 = c3_vs_cpython(5, 3, 60)
    bad += bad5
    return {"hierarchies": count, "c3_inputs": c3n + n5, "bad": bad}


def replay_hierarchies(w, obligation, expects):
    r = sweep(3, True, 60)
    b = r["bad"]
    return {"reproduced": bool(b), "detail": (f"{b[0]['problems']} for\n{b[0].get('source', b[0].get('lists'))}" if b else f"agrees with CPython on {r['hierarchies']} hierarchies"),
            "signature": b[0]["signature"] if b else "ok"}


if __name__ == "__main__":
    n = int(sys.argv[1])
    print(json.dumps(sweep(n, sys.argv[2] == "1", int(sys.argv[3]) if len(sys.argv) > 3 else 200)))
