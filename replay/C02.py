"""Native replays for C02: CPython (inspect.signature) is the oracle."""
import ast
import inspect

from _griffe.agents.nodes.parameters import get_parameters
from _griffe.enumerations import ParameterKind


def _n(x):
    return len([e for e in (x or []) if not (isinstance(e, str) and e.startswith("<..."))])


def build_source(w):
    """def f(...) with the list sizes / None-patterns of the witness (names regenerated to be valid and unique)."""
    npo, na, nk = _n(w.get("posonlyargs")), _n(w.get("args")), _n(w.get("kwonlyargs"))
    nd = min(_n(w.get("defaults")), npo + na)
    parts = []
    pos = [f"p{i}" for i in range(npo)] + [f"a{i}" for i in range(na)]
    anns = [e.get("annotation") is not None if isinstance(e, dict) else False for e in (w.get("posonlyargs") or [])[:npo]] + \
           [e.get("annotation") is not None if isinstance(e, dict) else False for e in (w.get("args") or [])[:na]]
    for i, nm in enumerate(pos):
        s = nm + (": int" if i < len(anns) and anns[i] else "")
        if i >= len(pos) - nd:
            s += f" = {100 + i - (len(pos) - nd)}"
        parts.append(s)
        if i == npo - 1:
            parts.append("/")
    if w.get("vararg") is not None:
        parts.append("*va")
    elif nk:
        parts.append("*")
    kd = (w.get("kw_defaults") or [])
    for j in range(nk):
        s = f"k{j}"
        if j < len(kd) and kd[j] is not None:
            s += f" = {200 + j}"
        parts.append(s)
    if w.get("kwarg") is not None:
        parts.append("**kw")
    return "def f(" + ", ".join(parts) + "): pass"


_KIND = {
    inspect.Parameter.POSITIONAL_ONLY: ParameterKind.positional_only,
    inspect.Parameter.POSITIONAL_OR_KEYWORD: ParameterKind.positional_or_keyword,
    inspect.Parameter.VAR_POSITIONAL: ParameterKind.var_positional,
    inspect.Parameter.KEYWORD_ONLY: ParameterKind.keyword_only,
    inspect.Parameter.VAR_KEYWORD: ParameterKind.var_keyword,
}


def compare_source(src):
    node = ast.parse(src).body[0]
    try:
        got = get_parameters(node.args)
    except Exception as e:  # noqa: BLE001
        return f"get_parameters raised {type(e).__name__}: {e}"
    ns = {}
    exec(src, ns)  # noqa: S102
    sig = inspect.signature(ns["f"])
    exp = []
    for p in sig.parameters.values():
        has_default = p.default is not inspect.Parameter.empty
        exp.append((p.name, _KIND[p.kind], repr(p.default) if has_default else None,
                    None if p.annotation is inspect.Parameter.empty else getattr(p.annotation, "__name__", str(p.annotation))))
    gotn = []
    for name, ann, kind, default in got:
        d = None
        if kind in (ParameterKind.var_positional, ParameterKind.var_keyword):
            d = None  # pseudo-defaults "()" / "{}" are a Griffe convention
        elif default is not None:
            d = ast.unparse(default) if isinstance(default, ast.AST) else str(default)
        gotn.append((name, kind, d, ast.unparse(ann) if isinstance(ann, ast.AST) else ann))
    if gotn != exp:
        return f"griffe={gotn} cpython={exp}"
    return None


def replay_get_parameters(w, obligation, expects):
    src = build_source(w)
    diff = compare_source(src)
    return {"reproduced": diff is not None, "detail": f"{src!r}: " + (diff or "agrees with inspect.signature"),
            "signature": "get_parameters:" + src}


def replay_handle_function(w, obligation, expects):
    from replay.C01 import replay_visitor
    return replay_visitor(w, obligation, dict(expects or {}, clause="handle_function"))
