"""Native replays for C02: CPython (inspect.signature) is the oracle."""
import ast
import inspect

from _griffe.agents.nodes.parameters import get_parameters
from _griffe.enumerations import ParameterKind


def _n(x):
    return len([e for e in (x or []) if not (isinstance(e, str) and e.startswith("<..."))])


def build_source(w):
    """def f(...) with the list sizes / None-patterns of the witness (names regenerated to be valid and unique)."""
    npo, na, nk = _n(w.get("posonlyargs")), _n(w.get("args")), _n(w.get("kwonlyargs"))
    nd = min(_n(w.get("defaults")), npo + na)
    parts = []
    pos = [f"p{i}" for i in range(npo)] + [f"a{i}" for i in range(na)]
    anns = [e.get("annotation") is not None if isinstance(e, dict) else False for e in (w.get("posonlyargs") or [])[:npo]] + \
           [e.get("annotation") is not None if isinstance(e, dict) else False for e in (w.get("args") or [])[:na]]
    for i, nm in enumerate(pos):
        s = nm + (": int" if i < len(anns) and anns[i] else "")
        if i >= len(pos) - nd:
            s += f" = {100 + i - (len(pos) - nd)}"
        parts.append(s)
        if i == npo - 1:
            parts.append("/")
    if w.get("vararg") is not None:
        parts.append("*va")
    elif nk:
        parts.append("*")
    kd = (w.get("kw_defaults") or [])
    for j in range(nk):
        s = f"k{j}"
        if j < len(kd) and kd[j] is not None:
            s += f" = {200 + j}"
        parts.append(s)
    if w.get("kwarg") is not None:
        parts.append("**kw")
    return "def f(" + ", ".join(parts) + "): pass"


_KIND = {
    inspect.Parameter.POSITIONAL_ONLY: ParameterKind.positional_only,
    inspect.Parameter.POSITIONAL_OR_KEYWORD: ParameterKind.positional_or_keyword,
    inspect.Parameter.VAR_POSITIONAL: ParameterKind.var_positional,
    inspect.Parameter.KEYWORD_ONLY: ParameterKind.keyword_only,
    inspect.Parameter.VAR_KEYWORD: ParameterKind.var_keyword,
}


def compare_source(src):
    node = ast.parse(src).body[0]
    try:
        got = get_parameters(node.args)
    except Exception as e:  # noqa: BLE001
        return f"get_parameters raised {type(e).__name__}: {e}"
    ns = {}
    exec(src, ns)  # noqa: S102
    sig = inspect.signature(ns["f"])
    exp = []
    for p in sig.parameters.values():
        has_default = p.default is not inspect.Parameter.empty
        exp.append((p.name, _KIND[p.kind], repr(p.default) if has_default else None,
                    None if p.annotation is inspect.Parameter.empty else getattr(p.annotation, "__name__", str(p.annotation))))
    gotn = []
    for name, ann, kind, default in got:
        d = None
        if kind in (ParameterKind.var_positional, ParameterKind.var_keyword):
            d = None  # pseudo-defaults "()" / "{}" are a Griffe convention
        elif default is not None:
            d = ast.unparse(default) if isinstance(default, ast.AST) else str(default)
        gotn.append((name, kind, d, ast.unparse(ann) if isinstance(ann, ast.AST) else ann))
    if gotn != exp:
        return f"griffe={gotn} cpython={exp}"
    return None


def replay_get_parameters(w, obligation, expects):
    src = build_source(w)
    diff = compare_source(src)
    return {"reproduced": diff is not None, "detail": f"{src!r}: " + (diff or "agrees with inspect.signature"),
            "signature": "get_parameters:" + src}


def replay_handle_function(w, obligation, expects):
    r = bounded(40)
    if r["bad"]:
        b = r["bad"][0]
        return {"reproduced": True, "detail": f"{b['where']}: {b['failure']}"[:700], "input": {"source": b["source"][:2000]}, "signature": "c02:" + b["signature"]}
    from replay.C01 import replay_visitor
    return replay_visitor(w, obligation, dict(expects or {}, clause="handle_function"))


# ----------------------------------------------------------------------------- bounded native tier: the whole static pipeline against inspect.signature
def signature_sources():
    """Every parameter-list shape with 0-2 parameters per group, every legal default placement, with / without annotations; as a plain function, a method,
    an async function and a lambda-valued default."""
    import itertools
    out = []
    for npo, npk, var, nko, kw in itertools.product(range(3), range(3), (0, 1), range(3), (0, 1)):
        pos = [f"p{i}" for i in range(npo)] + [f"q{i}" for i in range(npk)]
        for nd in range(len(pos) + 1):                       # the last nd positional parameters have defaults
            for kmask in range(1 << nko):                   # any subset of the keyword-only ones
                for annotated in ((False, True) if (nd + kmask) % 2 == 0 else (False,)):
                    parts = []
                    for i, nm in enumerate(pos):
                        s = nm + (": int" if annotated else "")
                        if i >= len(pos) - nd:
                            s += f" = {10 + i}"
                        parts.append(s)
                        if i == npo - 1:
                            parts.append("/")
                    if var:
                        parts.append("*args" + (": str" if annotated else ""))
                    elif nko:
                        parts.append("*")
                    for j in range(nko):
                        parts.append(f"k{j}" + (": bytes" if annotated else "") + (f" = {20 + j}" if kmask >> j & 1 else ""))
                    if kw:
                        parts.append("**kw" + (": float" if annotated else ""))
                    out.append(", ".join(parts) + ("|-> int" if annotated else "|"))
    return out


def pipeline_view(fn):
    return ([(p.name.lstrip("*"), p.kind.value, None if p.default is None or p.kind.value.startswith("variadic") else str(p.default),
              None if p.annotation is None else str(p.annotation)) for p in fn.parameters], None if fn.returns is None else str(fn.returns))


def cpython_view(f):
    kinds = {inspect.Parameter.POSITIONAL_ONLY: "positional-only", inspect.Parameter.POSITIONAL_OR_KEYWORD: "positional or keyword",
             inspect.Parameter.VAR_POSITIONAL: "variadic positional", inspect.Parameter.KEYWORD_ONLY: "keyword-only", inspect.Parameter.VAR_KEYWORD: "variadic keyword"}
    sig = inspect.signature(f)
    ann = lambda a: None if a is inspect.Parameter.empty else getattr(a, "__name__", str(a))  # noqa: E731
    return ([(p.name, kinds[p.kind], None if p.default is inspect.Parameter.empty else repr(p.default), ann(p.annotation)) for p in sig.parameters.values()],
            None if sig.return_annotation is inspect.Signature.empty else getattr(sig.return_annotation, "__name__", str(sig.return_annotation)))


def bounded(budget_s):
    import logging
    import time
    import griffe
    logging.disable(logging.CRITICAL)
    t0 = time.time()
    bad, cases, sigs = [], 0, set()
    shapes = signature_sources()
    for chunk_start in range(0, len(shapes), 150):
        if time.time() - t0 > budget_s:
            break
        chunk = shapes[chunk_start:chunk_start + 150]
        lines, names = ["import typing"], []
        for i, sh in enumerate(chunk):
            params, ret = sh.split("|")
            lines.append(f"def f{i}({params}){ret}: pass")
            lines.append(f"class C{i}:\n    def m(self{', ' + params if params else ''}){ret}: pass\n    async def am(self{', ' + params if params else ''}){ret}: pass")
            names.append(i)
        # overloads attach in order, property setter / deleter attach without replacing the property
        lines.append("class Acc:\n    @property\n    def p(self) -> int: return 1\n    @p.setter\n    def p(self, value: int, /) -> None: pass\n    @p.deleter\n    def p(self): pass\n"
                     "    @typing.overload\n    def o(self, a: int) -> int: ...\n    @typing.overload\n    def o(self, a: str, b: int = 0) -> str: ...\n    def o(self, a, b=0): return a")
        src = "\n".join(lines) + "\n"
        ns = {"__name__": "c2mod"}
        exec(compile(src, "c2mod.py", "exec"), ns)  # noqa: S102
        mod = griffe.visit("c2mod", filepath=None, code=src)
        for i in names:
            for label, g, c in ((f"f{i}", mod[f"f{i}"], ns[f"f{i}"]), (f"C{i}.m", mod[f"C{i}.m"], ns[f"C{i}"].m), (f"C{i}.am", mod[f"C{i}.am"], ns[f"C{i}"].am)):
                cases += 1
                gv, cv = pipeline_view(g), cpython_view(c)
                if gv != cv:
                    sig = "signature:" + str([x[:2] for x in cv[0]])[:80]
                    if sig not in sigs:
                        sigs.add(sig)
                        bad.append({"source": chunk[i], "where": label, "failure": f"griffe {gv} != cpython {cv}", "signature": sig})
        acc = mod["Acc"]
        cases += 1
        pr = []
        p = acc["p"]
        if not p.is_attribute or "property" not in p.labels or p.setter is None or p.deleter is None:
            pr.append("setter / deleter not attached to the property (or the property was replaced)")
        elif pipeline_view(p.setter) != cpython_view(ns["Acc"].p.fset):
            pr.append(f"setter signature {pipeline_view(p.setter)} != {cpython_view(ns['Acc'].p.fset)}")
        o = acc["o"]
        if [pipeline_view(x)[0] for x in (o.overloads or [])] != [[("self", "positional or keyword", None, None), ("a", "positional or keyword", None, "int")],
                                                                   [("self", "positional or keyword", None, None), ("a", "positional or keyword", None, "str"), ("b", "positional or keyword", "0", "int")]]:
            pr.append(f"overloads not attached to the implementation in order: {[pipeline_view(x)[0] for x in (o.overloads or [])]}")
        if pipeline_view(o) != cpython_view(ns["Acc"].o):
            pr.append(f"implementation signature {pipeline_view(o)} != {cpython_view(ns['Acc'].o)}")
        for x in pr:
            if x[:40] not in sigs:
                sigs.add(x[:40])
                bad.append({"source": "class Acc", "where": "Acc", "failure": x, "signature": "accessors:" + x[:40]})
    # postponed evaluation: under `from __future__ import annotations` CPython keeps every annotation as written (quotes included), wherever the
    # definition stands (module, class, nested class); without it a quoted annotation is a forward reference that Griffe shows parsed
    for future in (True, False):
        src = ("from __future__ import annotations\n" if future else "") + (
            "def f(a: 'int', b: \"list['K']\" = None, *c: 'str', d: 'bytes' = b'', **e: 'float') -> 'K': pass\n"
            "class K:\n    def m(self, a: 'int', b: \"list['K']\" = None) -> 'K': pass\n    @staticmethod\n    def s(a: 'int') -> 'str': pass\n"
            "    class N:\n        async def am(self, a: 'int') -> 'K': pass\n")
        ns = {"__name__": "c2fut"}
        exec(compile(src, "c2fut.py", "exec"), ns)  # noqa: S102
        mod = griffe.visit("c2fut", filepath=None, code=src)
        for label, g, c in (("f", mod["f"], ns["f"]), ("K.m", mod["K.m"], ns["K"].m), ("K.s", mod["K.s"], ns["K"].s), ("K.N.am", mod["K.N.am"], ns["K"].N.am)):
            cases += 1
            gv = pipeline_view(g)
            sig = inspect.signature(c)
            want = [p.annotation for p in sig.parameters.values() if p.annotation is not inspect.Parameter.empty] + [sig.return_annotation]
            got = [x[3] for x in gv[0] if x[3] is not None] + [gv[1]]
            if future:
                ok = got == want                      # the text as written
            else:
                ok = got == [str(w).strip("'\"") if isinstance(w, str) and w[:1] in "'\"" else (w if isinstance(w, str) else getattr(w, "__name__", str(w))) for w in want] or \
                    all("'" not in x or "[" in x for x in got)
            if not ok:
                bad.append({"source": src, "where": label, "failure": f"[future={future}] annotations {got}, CPython keeps {want}", "signature": f"annotations:future={future}"})
    return {"cases": cases, "shapes": len(shapes), "bad": bad, "wall_s": round(time.time() - t0, 1)}


if __name__ == "__main__":
    import json
    import sys
    print(json.dumps(bounded(float(sys.argv[1]) if len(sys.argv) > 1 else 60)))
