"""Fixtures for contracts on agents/visitor.py: a Visitor over symbolic ast nodes with ghost event recording.

Everything the handlers call outside themselves is taken by contract (stated in the trusted base of C01/C02):
  extensions.call(event, ...)         -> ghost event ("ext", event, kwargs)
  <object>.set_member(name, obj)      -> ghost event ("set_member", receiver, name, obj)   (C16 proves the tree operation)
  safe_get_expression / annotation    -> None or an opaque expression identified by the ast node
  Visitor._get_docstring              -> None or a docstring object identified by the ast node
  Visitor.generic_visit / visit       -> ghost event carrying the guard flag at that moment
"""
from __future__ import annotations

import z3

from pyvc.values import *  # noqa: F403
from pyvc.api import opt

VS = "_griffe.agents.visitor:Visitor."
AST_ID = z3.Function("AST_ID", IntS, IntS)


class Events(list):
    def names(self):
        return [e[1] if e[0] == "ext" else e[0] for e in self]


def ast_node(P, cls, tag, **fields):
    ident = z3.Int(P._fresh_name(tag + "_id"))
    f = dict(lineno=P.fresh_int(tag + "_lineno"), end_lineno=P.fresh_int(tag + "_end_lineno"))
    f.update(fields)
    return SObj(cls, f, ident=ident, frozen=True)


def expr_of(P, node, what):
    """The expression safe_get_* builds from an ast node: None (failure) or an opaque value determined by the node."""
    if isinstance(node, SUnion):
        node = P.choose(node)
    if node is None:
        return None
    g = z3.Function(f"{what}_fails", IntS, BoolS)(node.ident)
    return SUnion([(g, None), (z3.Not(g), SObj("ExprValue", {"node": node, "what": what}, ident=z3.Function(f"{what}_expr", IntS, IntS)(node.ident), frozen=True))])


def mk_members(P, tag="members"):
    HAS = z3.Function(tag + "_has", StrS, BoolS)
    cache = {}

    def get(k):
        key = zstr(k).sexpr()
        if key not in cache:
            cache[key] = SObj(SCls(["Attribute", "Function", "Class", "Alias"], z3.Function(tag + "_cls", StrS, IntS)(zstr(k))),
                              {"name": k, "labels": set(), "docstring": opt(P, tag + "_doc", lambda: SObj("Docstring", {}, ident=P.new_ident())),
                               "annotation": opt(P, tag + "_ann", lambda: SObj("ExprValue", {}, ident=P.new_ident(), frozen=True)),
                               "setter": None, "deleter": None},
                              ident=z3.Function(tag + "_id", StrS, IntS)(zstr(k)))
            P.assume(z3.And(cache[key].cls.z >= 0, cache[key].cls.z < 4))
            cache[key].hook_first = ("labels", "docstring", "annotation")     # an Alias member forwards these reads to its target (hooks on ("Alias", attr), if any)
        return cache[key]
    return SMap(lambda k: HAS(zstr(k)), get, tag=tag), HAS


def mk_visitor(P, cur_kinds=("Module", "Class"), tag="current"):
    ev = Events()
    members, HAS = mk_members(P, tag + "_members")
    cls = cur_kinds[0] if len(cur_kinds) == 1 else SCls(list(cur_kinds), z3.Int(tag + "_cls"))
    if not isinstance(cls, str):
        P.assume(z3.And(cls.z >= 0, cls.z < len(cur_kinds)))
    parent = SObj(SCls(["Module", "Class"], z3.Int(tag + "_parent_cls")), {"name": P.fresh_str(tag + "_parent_name"), "members": mk_members(P, tag + "_parent_members")[0]},
                  ident=z3.Int(tag + "_parent_id"))
    P.assume(z3.And(parent.cls.z >= 0, parent.cls.z < 2))
    cur = SObj(cls, {"members": members, "name": P.fresh_str(tag + "_name"), "parent": parent, "exports": None, "imports": {}}, ident=z3.Int(tag + "_id"))
    P.assume(cur.ident != parent.ident)
    G0 = z3.Bool("type_guarded_on_entry")
    ext = SObj("Extensions", {}, ident=z3.Int("extensions_id"), frozen=True)
    v = SObj("Visitor", {"current": cur, "type_guarded": SBool(G0), "extensions": ext}, ident=z3.Int("visitor_id"))

    def ext_call(P_, o):
        def call(P__, self_, a, k):
            ev.append(("ext", a[0], dict(k), v.fields["type_guarded"], v.fields["current"]))
            return None
        return BoundMethod(o, call)
    P.attr_hooks[("Extensions", "call")] = ext_call

    def set_member(P_, a, k):
        ev.append(("set_member", a[0], a[1], a[2]))
        if isinstance(a[2], SObj) and not a[2].frozen:
            a[2].fields["_parent" if a[2].cls == "Alias" else "parent"] = a[0]      # contract of set_member (C16): the member's parent is its container
        return None
    P.opaque_hooks["_griffe.mixins:SetMembersMixin.set_member"] = set_member
    P.opaque_hooks[VS + "_get_docstring"] = lambda P_, a, k: (
        None if a[1] is None else opt(P_, "docstring_of_node", lambda: SObj("Docstring", {"node": a[1]}, ident=z3.Function("DOC_OF", IntS, IntS)(a[1].ident))))
    for fn, what in (("safe_get_expression", "expression"), ("safe_get_annotation", "annotation"), ("safe_get_base_class", "base"), ("safe_get_condition", "condition")):
        P.opaque_hooks["_griffe.agents.visitor:" + fn] = (lambda P_, a, k, what=what: (P_.ghost.setdefault("expr_calls", []).append((what, a[0] if a else k.get("node"), dict(k))),
                                                                                      expr_of(P_, a[0] if a else k.get("node"), what))[1])
        P.opaque_hooks["_griffe.expressions:" + fn] = P.opaque_hooks["_griffe.agents.visitor:" + fn]
    P.ghost["events"] = ev
    return v, cur, ev, dict(G0=G0, HAS=HAS, parent=parent)


# --------------------------------------------------------------------------- handle_function fixture and obligations (shared by C01 and C02)
from pyvc.api import sym_seq, outcome, call  # noqa: E402
from pyvc import models  # noqa: E402
from pyvc.interp import PyExc  # noqa: E402

DPATH = z3.Function("DECORATOR_PATH", IntS, StrS)
OVL_UPTO = z3.Function("OVERLOAD_AMONG_FIRST", IntS, BoolS)
TYPING_OVERLOAD = ("typing.overload", "typing_extensions.overload")


def handle_function_driver(P, prop):
    """Runs the real Visitor.handle_function on a symbolic function definition and emits the obligations of `prop` (C01: spans, flags, events;
    C02: overload / accessor branches, parameters)."""
    v, cur, ev, info = mk_visitor(P)
    G0 = info["G0"]
    name = P.fresh_str("function_name")
    DEC = z3.Function("DECORATOR_NODE", IntS, IntS)
    DLN = z3.Function("DECORATOR_LINENO", IntS, IntS)

    def mk_dec(i):
        return SObj("ast.expr", {"lineno": SInt(DLN(zint(i))), "end_lineno": SInt(DLN(zint(i))), "index": SInt(zint(i))}, ident=DEC(zint(i)), frozen=True)
    decorator_list = sym_seq(P, "decorator_list", mk_dec) if prop != "C02-params" else []
    nd = zint(P.seq_len(decorator_list))
    returns = opt(P, "returns_node", lambda: ast_node(P, "ast.Name", "returns"))
    args = SObj("ast.arguments", {}, ident=z3.Int("arguments_id"), frozen=True)
    body = [SObj("ast.stmt", {}, ident=z3.Int("body0_id"), frozen=True)]
    node = ast_node(P, "ast.FunctionDef", "fdef", name=name, decorator_list=decorator_list, args=args, returns=returns, body=body)
    # expression of decorator i fails or is an opaque expression; the Decorator object exposes its callable path
    def new_decorator(P_, a, k):
        val = a[0]
        if isinstance(val, SUnion):
            val = P_.choose(val)
        dn = val.fields["node"]
        return SObj("Decorator", {"value": val, "lineno": k.get("lineno"), "endlineno": k.get("endlineno"), "callable_path": SStr(DPATH(dn.ident)), "node": dn}, ident=P_.new_ident())
    P.opaque_hooks["new:Decorator"] = new_decorator
    fails = z3.Function("expression_fails", IntS, BoolS)

    def is_ovl(i):
        d = DEC(i)
        return z3.And(z3.Not(fails(d)), z3.Or(*[DPATH(d) == z3.StringVal(t) for t in TYPING_OVERLOAD]))
    # decorator-derived labels: an abstract set determined by the decorator list (decorators_to_labels is proved against the tables separately)
    IN_LABELS = z3.Function("IN_DECORATOR_LABELS", StrS, BoolS)

    def d2l(P_, a, k):
        seq = SSeq(P_.fresh_int("n_decorator_labels"), lambda i: SStr(z3.Function("DECORATOR_LABEL", IntS, StrS)(zint(i))), tag="decorator_labels",
                   memfn=lambda P__, item: IN_LABELS(zstr(item)))
        P_.assume(zint(seq.len) >= 0)
        return models.SymSet(items=[], parts=[seq])
    P.opaque_hooks[VS + "decorators_to_labels"] = d2l
    # parameters: get_parameters by contract (C02.get_parameters): a sequence of (name, annotation node | None, kind, default node | str | None)
    PN = z3.Function("PARAM_NAME", IntS, StrS)
    PK = z3.Function("PARAM_KIND", IntS, IntS)
    PD = z3.Function("PARAM_DEFAULT_FORM", IntS, IntS)   # 0 none, 1 str ("()" / "{}"), 2 ast node
    kinds = P.enum_members("ParameterKind")

    def mk_param(i):
        zi = zint(i)
        P.assume(z3.And(PK(zi) >= 0, PK(zi) < len(kinds), PD(zi) >= 0, PD(zi) <= 2))
        ann = SUnion([(z3.Function("PARAM_ANN_NONE", IntS, BoolS)(zi), None),
                      (z3.Not(z3.Function("PARAM_ANN_NONE", IntS, BoolS)(zi)), SObj("ast.expr", {}, ident=z3.Function("PARAM_ANN", IntS, IntS)(zi), frozen=True))])
        default = SUnion([(PD(zi) == 0, None), (PD(zi) == 1, SStr(z3.Function("PARAM_DEFAULT_STR", IntS, StrS)(zi))),
                          (PD(zi) == 2, SObj("ast.expr", {}, ident=z3.Function("PARAM_DEFAULT", IntS, IntS)(zi), frozen=True))])
        return (SStr(PN(zi)), ann, SEnum("ParameterKind", PK(zi)), default)
    # C01's obligations do not concern the parameters: the definition has none there (C02 proves the parameter clauses for arbitrary lists)
    params = sym_seq(P, "ast_parameters", mk_param) if prop == "C02-params" else []
    for mod in ("_griffe.agents.visitor", "_griffe.agents.nodes.parameters"):
        P.opaque_hooks[mod + ":get_parameters"] = lambda P_, a, k: params
    # property accessor detection by contract
    acc = z3.Int("accessor_kind")    # 0 none, 1 setter, 2 deleter
    P.assume(z3.And(acc >= 0, acc <= 2))
    if prop == "C02-params":
        P.assume(acc == 0)
    P.assume(z3.Implies(acc != 0, info["HAS"](name.z)))     # contract of get_base_property: an accessor is only reported for an existing property member
    P.opaque_hooks[VS + "get_base_property"] = lambda P_, a, k: SUnion([(acc == 0, None), (acc == 1, "setter"), (acc == 2, "deleter")])
    # pending overloads of the current scope: name -> mutable list
    pending = {}

    def ov_get(P_, o, key):
        kk = zstr(key).sexpr()
        if kk not in pending:
            n0 = P_.fresh_int("n_pending_overloads")
            P_.assume(n0.z >= 0)
            pending[kk] = MList(SSeq(n0, lambda i: SObj("Function", {"pending_index": SInt(zint(i))}, ident=z3.Function("PENDING_OVERLOAD", IntS, IntS)(zint(i))), tag="pending"))
            pending[kk].n0 = n0
        return pending[kk]
    cur.fields["overloads"] = SObj("OverloadsMap", {}, ident=z3.Int("overloads_map_id"), frozen=True)
    P.attr_hooks[("OverloadsMap", "__getitem__")] = ov_get
    P.attr_hooks[("OverloadsMap", "__delitem__")] = lambda P_, o, key: ev.append(("del_overloads", key))
    visits = []
    P.opaque_hooks[VS + "generic_visit"] = lambda P_, a, k: visits.append(v.fields["current"])
    # labels argument: absent, or a fresh non-empty set (the caller's ownership obligation is lemma `labels_argument_is_fresh`)
    lab_mode = z3.Int("labels_argument")
    P.assume(z3.And(lab_mode >= 0, lab_mode <= 1))
    labels_arg = None if (prop == "C02-params" or not P.branch(lab_mode == 1)) else {"async"}
    q = VS + "handle_function"

    def inv(P_, L, pre):
        i = zint(L["__idecorators"])
        return zbool(L.overload) == OVL_UPTO(i)

    def body_prefix_axiom(P_, before, after):
        pass

    def hint_decorators(P_, nm):
        n = P_.fresh_int(nm + "_len")
        P_.assume(n.z >= 0)
        return SSeq(n, lambda i: SObj("Decorator", {"callable_path": SStr(z3.Function("KEPT_DECORATOR_PATH", IntS, StrS)(zint(i)))}, ident=z3.Function("KEPT_DECORATOR", IntS, IntS)(zint(i))), tag=nm)
    # defining equations of the fold OVL_UPTO, instantiated where the proof needs them (loop index and 0)
    P.assume(z3.Not(OVL_UPTO(0)))
    kidx = z3.Int("__k_fold")
    P.assume(z3.ForAll([kidx], z3.Implies(kidx >= 0, OVL_UPTO(kidx + 1) == z3.Or(OVL_UPTO(kidx), is_ovl(kidx))))) if False else None

    def post_body(P_, before, after):
        pass
    spec = dict(mode="inv", name="decorators", inv=inv, no_break=True,
                hints={"decorators": hint_decorators, "overload": lambda P_, nm: P_.fresh_bool(nm), "decorator_node": lambda P_, nm: None,
                       "decorator_value": lambda P_, nm: None, "decorator": lambda P_, nm: None})
    P.loop_specs[(q, 0)] = spec
    # the step equation at the (symbolic) loop index is added when the index is known: wrap inv to assume it
    def inv_with_step(P_, L, pre):
        i = zint(L["__idecorators"])
        P_.assume(z3.Implies(i >= 0, OVL_UPTO(i + 1) == z3.Or(OVL_UPTO(i), is_ovl(i))))
        P_.assume(z3.Implies(i >= 1, OVL_UPTO(i) == z3.Or(OVL_UPTO(i - 1), is_ovl(i - 1))))
        return inv(P_, L, pre)
    spec["inv"] = inv_with_step
    # safe_get_expression on decorator i fails iff fails(DEC(i))
    P.opaque_hooks["_griffe.agents.visitor:safe_get_expression"] = lambda P_, a, k: _expr_or_none(P_, a[0] if a else k.get("node"), fails)
    kind_, res = outcome(P, lambda: call(P, q, v, node, labels_arg) if labels_arg is not None else call(P, q, v, node))
    P.witness.update(n_decorators=P.seq_len(decorator_list), accessor=SInt(acc), already_guarded=SBool(G0))
    P.expects["clause"] = "handle_function"
    if kind_ == "raise":
        P.prove("never_raises", False, exc=P.resolve_cls(res))
        return
    ovl = OVL_UPTO(nd)
    kinds_ev = [(e[1] if e[0] == "ext" else e[0]) for e in ev]
    sets = [e for e in ev if e[0] == "set_member"]
    is_prop = kinds_ev[-1:] == ["on_attribute_instance"]
    if is_prop:
        # property: an attribute member named after the function
        if prop == "C01":
            P.prove("property.placed_then_announced", kinds_ev == ["on_node", "on_function_node", "set_member", "on_instance", "on_attribute_instance"], kinds=str(kinds_ev))
            if len(sets) == 1:
                obj = sets[0][3]
                P.prove("property.is_an_attribute_named_after_the_function", P.resolve_cls(obj) == "Attribute" and obj.fields["name"] is name)
                # the definition of a property starts at its first decorator, like every decorated definition (slicing the source by the span returns it whole)
                P.prove("property.span_starts_at_the_first_decorator", zint(obj.fields["lineno"]) == z3.If(nd > 0, DLN(0), zint(node.fields["lineno"])))
                P.prove("property.span_ends_with_the_definition", obj.fields["endlineno"] is node.fields["end_lineno"])
                P.prove("property.runtime_flag_is_not_type_guarded", zbool(obj.fields["runtime"]) == z3.Not(G0))
        P.cover("handle_function.property")
        return
    inst = [e for e in ev if e[0] == "ext" and e[1] == "on_instance"]
    fn = inst[0][2].get("obj") if inst else None
    if prop == "C01":
        P.prove("function.announced_once_after_being_placed", kinds_ev[:2] == ["on_node", "on_function_node"] and kinds_ev[-2:] == ["on_instance", "on_function_instance"]
                and kinds_ev.count("on_instance") == 1 and ("set_member" not in kinds_ev or kinds_ev.index("set_member") < kinds_ev.index("on_instance")), kinds=str(kinds_ev))
        if fn is not None:
            first_ln = z3.If(nd > 0, DLN(0), zint(node.fields["lineno"]))
            P.prove("function.span_starts_at_the_first_decorator", zint(fn.fields["lineno"]) == first_ln)
            P.prove("function.span_ends_with_the_definition", fn.fields["endlineno"] is node.fields["end_lineno"])
            P.prove("function.runtime_flag_is_not_type_guarded", zbool(fn.fields["runtime"]) == z3.Not(G0))
            P.prove("function.named_after_the_definition", fn.fields["name"] is name)
            P.prove("function.scope_restored", v.fields["current"] is cur)
    if prop == "C02-branches" and fn is not None:
        appended = [kk for kk, ml in pending.items() if not isinstance(ml.seq, SSeq) or ml.seq is not None and getattr(ml, "n0", None) is not None and
                    not (isinstance(P.seq_len(ml.seq), SInt) and P.seq_len(ml.seq).z.eq(ml.n0.z))]
        was_appended = any(_last_is(P, ml, fn) for ml in pending.values())
        P.prove("overload_stub_is_queued_iff_some_decorator_is_typing_overload", z3.BoolVal(was_appended) == ovl, queued=was_appended)
        P.prove("overload_stub_never_replaces_a_member", z3.Implies(ovl, z3.BoolVal(len(sets) == 0)))
        setter_written = [(o, nm) for (o, nm) in P.ghost.get("writes", []) if nm in ("setter", "deleter")]
        P.prove("accessor_attaches_to_its_property_without_replacing_it", z3.Implies(z3.And(z3.Not(ovl), acc != 0), z3.BoolVal(len(sets) == 0 and len(setter_written) == 1)),
                sets=len(sets), written=len(setter_written))
        if setter_written:
            P.prove("accessor_kind_matches", z3.And(z3.Implies(acc == 1, z3.BoolVal(setter_written[0][1] == "setter")), z3.Implies(acc == 2, z3.BoolVal(setter_written[0][1] == "deleter"))))
        P.prove("plain_definition_is_placed_under_its_name", z3.Implies(z3.And(z3.Not(ovl), acc == 0), z3.BoolVal(len(sets) == 1 and sets[0][1] is cur and sets[0][2] is name and sets[0][3] is fn)))
        # pending overloads move to the implementation, in order (the very list), and the queue entry is deleted
        if len(sets) == 1 and pending:
            ml = next(iter(pending.values()))
            nonempty = zint(P.seq_len(ml.seq)) > 0
            dels = [e for e in ev if e[0] == "del_overloads"]
            fo = fn.fields.get("overloads")
            P.prove("queued_overloads_move_to_the_implementation_in_order", z3.Implies(nonempty, z3.BoolVal(fo is ml and len(dels) == 1)), moved=fo is ml, dels=len(dels))
    if prop == "C02-params" and fn is not None:
        # Whether a string annotation is parsed is decided by the annotation helper itself from the MODULE's `from __future__ import annotations`
        # (auto mode, proved in C03 strings.get_expression.auto_mode); the handler must not decide it from the scope it happens to be in.
        def scope_and_mode_clauses():
            ann_calls = [c for c in P.ghost.get("expr_calls", []) if c[0] == "annotation"]
            P.prove("annotations_are_built_in_auto_mode", all(c[2].get("parse_strings") is None for c in ann_calls), calls=len(ann_calls))
            P.prove("annotations_and_defaults_get_the_scope_of_the_definition",
                    all(c[2].get("parent") is cur for c in P.ghost.get("expr_calls", []) if c[0] in ("annotation", "expression")))
        # parameters are the element-wise image of get_parameters
        pr = fn.fields.get("parameters")
        plist = P.to_seq(P.getattr(pr, "_params")) if isinstance(pr, SObj) else None
        if plist is not None:
            P.prove("as_many_parameters_as_the_definition", zint(P.seq_len(plist)) == zint(P.seq_len(params)))
            j = z3.Int("j_param")
            if P.branch(z3.And(j >= 0, j < zint(P.seq_len(params)))):
                pj = P.seq_at(plist, SInt(j))
                if isinstance(pj, SUnion):
                    pj = P.choose(pj)
                P.prove("parameter.name", zstr(pj.fields["name"]) == PN(j))
                P.prove("parameter.kind", P.eq(pj.fields["kind"], SEnum("ParameterKind", PK(j))))
                dflt = pj.fields["default"]
                P.prove("parameter.has_default_iff_the_definition_gives_one", zbool(P.identical(dflt, None)) == z3.Or(PD(j) == 0, z3.And(PD(j) == 2, fails(z3.Function("PARAM_DEFAULT", IntS, IntS)(j)))))
        scope_and_mode_clauses()      # after one arbitrary parameter was built (the list is built on demand) and the return annotation
    P.cover("handle_function.function")


def _expr_or_none(P, node, fails):
    if isinstance(node, SUnion):
        node = P.choose(node)
    if node is None:
        return None
    g = fails(node.ident)
    return SUnion([(g, None), (z3.Not(g), SObj("ExprValue", {"node": node}, ident=z3.Function("expression_of", IntS, IntS)(node.ident), frozen=True))])


def _last_is(P, ml, fn):
    seq = ml.seq
    if isinstance(seq, (list, tuple)):
        return bool(seq) and seq[-1] is fn
    n = P.seq_len(seq)
    try:
        last = P.seq_at(seq, SInt(zint(n) - 1))
    except Exception:  # noqa: BLE001
        return False
    return last is fn


def ownership_lemma(idx):
    """handle_function updates its `labels` argument in place, so every call site must hand over a fresh set (ownership precondition, decided on the AST)."""
    import ast as _ast
    vm = idx.module("_griffe.agents.visitor")
    sites, bad_sites = 0, []
    for n in _ast.walk(vm.tree):
        if isinstance(n, _ast.Call) and isinstance(n.func, _ast.Attribute) and n.func.attr == "handle_function":
            sites += 1
            lab = next((k.value for k in n.keywords if k.arg == "labels"), n.args[1] if len(n.args) > 1 else None)
            fresh = lab is None or (isinstance(lab, _ast.Constant) and lab.value is None) or isinstance(lab, (_ast.Set, _ast.SetComp)) or \
                (isinstance(lab, _ast.Call) and isinstance(lab.func, _ast.Name) and lab.func.id in ("set", "frozenset"))
            if not fresh:
                bad_sites.append(f"line {n.lineno}: labels={_ast.unparse(lab)}")
    return {"name": "labels_argument_is_fresh_at_every_call_site", "ok": sites > 0 and not bad_sites,
            "detail": f"{sites} call sites of handle_function pass no labels, None, or a set display / constructor (the callee mutates the set it is given)"
                      + (f"; shared objects passed at {bad_sites}" if bad_sites else "")}
