"""Fixtures for contracts on agents/visitor.py: a Visitor over symbolic ast nodes with ghost event recording.

Everything the handlers call outside themselves is taken by contract (stated in the trusted base of C01/C02):
  extensions.call(event, ...)         -> ghost event ("ext", event, kwargs)
  <object>.set_member(name, obj)      -> ghost event ("set_member", receiver, name, obj)   (C16 proves the tree operation)
  safe_get_expression / annotation    -> None or an opaque expression identified by the ast node
  Visitor._get_docstring              -> None or a docstring object identified by the ast node
  Visitor.generic_visit / visit       -> ghost event carrying the guard flag at that moment
"""
from __future__ import annotations

import z3

from pyvc.values import *  # noqa: F403
from pyvc.api import opt

VS = "_griffe.agents.visitor:Visitor."
AST_ID = z3.Function("AST_ID", IntS, IntS)


class Events(list):
    def names(self):
        return [e[1] if e[0] == "ext" else e[0] for e in self]


def ast_node(P, cls, tag, **fields):
    ident = z3.Int(P._fresh_name(tag + "_id"))
    f = dict(lineno=P.fresh_int(tag + "_lineno"), end_lineno=P.fresh_int(tag + "_end_lineno"))
    f.update(fields)
    return SObj(cls, f, ident=ident, frozen=True)


def expr_of(P, node, what):
    """The expression safe_get_* builds from an ast node: None (failure) or an opaque value determined by the node."""
    if node is None:
        return None
    g = z3.Function(f"{what}_fails", IntS, BoolS)(node.ident)
    return SUnion([(g, None), (z3.Not(g), SObj("ExprValue", {"node": node, "what": what}, ident=z3.Function(f"{what}_expr", IntS, IntS)(node.ident), frozen=True))])


def mk_members(P, tag="members"):
    HAS = z3.Function(tag + "_has", StrS, BoolS)
    cache = {}

    def get(k):
        key = zstr(k).sexpr()
        if key not in cache:
            cache[key] = SObj(SCls(["Attribute", "Function", "Class", "Alias"], z3.Function(tag + "_cls", StrS, IntS)(zstr(k))),
                              {"name": k, "labels": set(), "docstring": opt(P, tag + "_doc", lambda: SObj("Docstring", {}, ident=P.new_ident())),
                               "annotation": opt(P, tag + "_ann", lambda: SObj("ExprValue", {}, ident=P.new_ident(), frozen=True)),
                               "setter": None, "deleter": None},
                              ident=z3.Function(tag + "_id", StrS, IntS)(zstr(k)))
            P.assume(z3.And(cache[key].cls.z >= 0, cache[key].cls.z < 4))
        return cache[key]
    return SMap(lambda k: HAS(zstr(k)), get, tag=tag), HAS


def mk_visitor(P, cur_kinds=("Module", "Class"), tag="current"):
    ev = Events()
    members, HAS = mk_members(P, tag + "_members")
    cls = cur_kinds[0] if len(cur_kinds) == 1 else SCls(list(cur_kinds), z3.Int(tag + "_cls"))
    if not isinstance(cls, str):
        P.assume(z3.And(cls.z >= 0, cls.z < len(cur_kinds)))
    parent = SObj(SCls(["Module", "Class"], z3.Int(tag + "_parent_cls")), {"name": P.fresh_str(tag + "_parent_name"), "members": mk_members(P, tag + "_parent_members")[0]},
                  ident=z3.Int(tag + "_parent_id"))
    P.assume(z3.And(parent.cls.z >= 0, parent.cls.z < 2))
    cur = SObj(cls, {"members": members, "name": P.fresh_str(tag + "_name"), "parent": parent, "exports": None, "imports": {}}, ident=z3.Int(tag + "_id"))
    P.assume(cur.ident != parent.ident)
    G0 = z3.Bool("type_guarded_on_entry")
    ext = SObj("Extensions", {}, ident=z3.Int("extensions_id"), frozen=True)
    v = SObj("Visitor", {"current": cur, "type_guarded": SBool(G0), "extensions": ext}, ident=z3.Int("visitor_id"))

    def ext_call(P_, o):
        def call(P__, self_, a, k):
            ev.append(("ext", a[0], dict(k), v.fields["type_guarded"], v.fields["current"]))
            return None
        return BoundMethod(o, call)
    P.attr_hooks[("Extensions", "call")] = ext_call

    def set_member(P_, a, k):
        ev.append(("set_member", a[0], a[1], a[2]))
        return None
    P.opaque_hooks["_griffe.mixins:SetMembersMixin.set_member"] = set_member
    P.opaque_hooks[VS + "_get_docstring"] = lambda P_, a, k: (
        None if a[1] is None else opt(P_, "docstring_of_node", lambda: SObj("Docstring", {"node": a[1]}, ident=z3.Function("DOC_OF", IntS, IntS)(a[1].ident))))
    for fn, what in (("safe_get_expression", "expression"), ("safe_get_annotation", "annotation"), ("safe_get_base_class", "base"), ("safe_get_condition", "condition")):
        P.opaque_hooks["_griffe.agents.visitor:" + fn] = (lambda P_, a, k, what=what: expr_of(P_, a[0] if a else k.get("node"), what))
        P.opaque_hooks["_griffe.expressions:" + fn] = P.opaque_hooks["_griffe.agents.visitor:" + fn]
    P.ghost["events"] = ev
    return v, cur, ev, dict(G0=G0, HAS=HAS, parent=parent)
