"""Abstract file-system / pathlib.Path model for contracts on finder.py.

A path is an SObj('pathlib.Path') whose identity is a z3 Int built by uninterpreted constructors
(PATHSTR, JOIN, WITHSUF); the file system is a set of uninterpreted predicates (EXISTS, IN_CONTENTS, ...).
"""
from __future__ import annotations

import z3

from pyvc.values import *  # noqa: F403
from pyvc.interp import Unsupported

PATHSTR = z3.Function("PATHSTR", StrS, IntS)
JOIN = z3.Function("JOIN", IntS, IntS, IntS)
WITHSUF = z3.Function("WITHSUF", IntS, StrS, IntS)
SUFFIX = z3.Function("SUFFIX", IntS, StrS)
EXISTS = z3.Function("EXISTS", IntS, BoolS)
IN_CONTENTS = z3.Function("IN_CONTENTS", IntS, IntS, BoolS)   # (directory, entry)
NONEMPTY = z3.Function("NONEMPTY", IntS, BoolS)
NS_STYLE = z3.Function("NS_STYLE", IntS, BoolS)
DEPTH = z3.Function("DEPTH", IntS, IntS)      # number of components below the search path: JOIN adds one (single-component right operands only)


def mk(ident):
    return SObj("pathlib.Path", {}, ident=ident, frozen=True)


def install(P):
    def new_path(P_, a, k):
        if len(a) == 1 and isinstance(a[0], (str, SStr)):
            return mk(PATHSTR(zstr(a[0])))
        if len(a) == 1 and isinstance(a[0], SObj):
            return a[0]
        raise Unsupported("Path() with several parts")
    P.opaque_hooks["new:pathlib.Path"] = new_path

    def truediv(P_, a, b):
        bid = b.ident if isinstance(b, SObj) else PATHSTR(zstr(b))
        r = mk(JOIN(a.ident, bid))
        P_.assume(SUFFIX(r.ident) == SUFFIX(bid))
        P_.assume(DEPTH(r.ident) == DEPTH(a.ident) + 1)
        return r
    P.attr_hooks[("pathlib.Path", "__truediv__")] = truediv
    P.attr_hooks[("pathlib.Path", "suffix")] = lambda P_, o: SStr(SUFFIX(o.ident))

    def with_suffix(P_, o):
        def call(P2, s, a, k):
            r = mk(WITHSUF(o.ident, zstr(a[0])))
            P2.assume(SUFFIX(r.ident) == zstr(a[0]))
            P2.assume(DEPTH(r.ident) == DEPTH(o.ident))
            return r
        return BoundMethod(o, call)
    P.attr_hooks[("pathlib.Path", "with_suffix")] = with_suffix
    P.attr_hooks[("pathlib.Path", "exists")] = lambda P_, o: BoundMethod(o, lambda P2, s, a, k: SBool(EXISTS(o.ident)))
    P.opaque_hooks["_griffe.finder:_is_pkg_style_namespace"] = lambda P_, a, k: SBool(NS_STYLE(a[0].ident))

    def contents(P_, a, k):
        d = a[1]
        seq = SSeq(P_.fresh_int("n_entries"), lambda i: mk(z3.Function("ENTRY", IntS, IntS, IntS)(d.ident, zint(i))), tag="contents",
                   memfn=lambda P2, item: IN_CONTENTS(d.ident, item.ident))
        P_.assume((zint(seq.len) > 0) == NONEMPTY(d.ident))
        return seq
    P.opaque_hooks["_griffe.finder:ModuleFinder._contents"] = contents
