"""Symbolic object-tree fixtures for contracts on models/mixins code.

Objects are SObj with a z3 Int identity; distinct fixtures get distinct identities
(aliasing cases are built explicitly by passing the same SObj twice).
`path` of tree objects is the uninterpreted PATH_v(ident) where v is a heap version
bumped by every write to a parent link or a name; Object.path/canonical_path and
Alias.path are verified against the recursive definition in their own contract.
"""
from __future__ import annotations

import z3

from pyvc.values import *  # noqa: F403
from pyvc.interp import PyExc, Unsupported

OBJ_KINDS = ["Module", "Class", "Function", "Attribute"]
ALL_KINDS = OBJ_KINDS + ["Alias"]


def _forwarding(name, own):
    def read(P_, o_):
        if P_.resolve_cls(o_) == "Alias":
            member = P_.find_class_member("Alias", name)
            if member is not None and member[0] == "property":
                return P_.call_closure(member[1], [o_], {})
        return own(P_, o_)
    return read


class Heap:
    def __init__(self, P, hook_path=True, forward_alias_reads=True):
        self.P = P
        self.forward_alias_reads = forward_alias_reads
        self.objs = []
        self.ids = []
        self.version = 0
        P.ghost["heap"] = self
        self.final_memo = {}
        P.attr_hooks[("Alias", "final_target")] = self._final_target_hook
        # constructing the alias exceptions is taken by contract (message formatting only; see trusted base)
        P.opaque_hooks["new:AliasResolutionError"] = lambda P_, a, k: SObj("AliasResolutionError", {"args": tuple(a), "alias": a[0] if a else k.get("alias")})
        P.opaque_hooks["new:CyclicAliasError"] = lambda P_, a, k: SObj("CyclicAliasError", {"args": tuple(a), "chain": a[0] if a else k.get("chain")})
        if hook_path:
            for c in ("Object", "Alias"):
                P.attr_hooks[(c, "path")] = self._path_hook
            P.attr_hooks[("Object", "canonical_path")] = self._path_hook

    # -- paths ---------------------------------------------------------
    def pathf(self):
        return z3.Function(f"PATH_v{self.version}", IntS, StrS)

    def _path_hook(self, P, o):
        return SStr(self.pathf()(o.ident))

    def path_of(self, o):
        return self.pathf()(o.ident)

    def bump(self):
        self.version += 1

    def _final_target_hook(self, P, al):
        """Alias.final_target by contract (proved in C06): a non-alias object, or AliasResolutionError / CyclicAliasError."""
        key = id(al)
        if key not in self.final_memo:
            tag = getattr(al, "tag", "alias") + ".final"
            self.final_memo[key] = (z3.Int(tag + "_outcome"), self.obj(tag, OBJ_KINDS))
        oc, obj = self.final_memo[key]
        P.assume(z3.And(oc >= 0, oc <= 2))
        if P.branch(oc == 0):
            return obj
        if P.branch(oc == 1):
            raise PyExc(SObj("AliasResolutionError", {"args": (al,), "alias": al}))
        raise PyExc(SObj("CyclicAliasError", {"args": ([],), "chain": []}))

    # -- objects ---------------------------------------------------------
    def _register(self, o):
        for other in self.ids:
            self.P.assume(o.ident != other)
        self.ids.append(o.ident)
        self.objs.append(o)
        return o

    def smap(self, tag, value_fn, iterable=False):
        has = z3.Function(tag + "_has", StrS, BoolS)
        memo = {}

        def get(k):
            zk = zstr(k)
            key = zk.sexpr()
            if key in memo:
                return memo[key][1]
            # a key provably/possibly equal to one already looked up denotes the same entry (fork when undetermined)
            for k2, (zk2, v2) in list(memo.items()):
                if self.P.branch(zk == zk2):
                    return v2
            memo[key] = (zk, value_fn(k))
            return memo[key][1]
        keys_seq = None
        if iterable:
            n = z3.Int(tag + "_size")
            self.P.assume(n >= 0)
            keyf = z3.Function(tag + "_key", IntS, StrS)

            def key_at(i):
                zi = zint(i)
                self.P.assume(has(keyf(zi)))
                return SStr(keyf(zi))
            keys_seq = SSeq(SInt(n), key_at, tag=tag + "_keys")
        return SMap(lambda k: has(zstr(k)), get, tag=tag, keys_seq=keys_seq), has

    def obj(self, tag, classes=None, **fields):
        """A tree object (Module/Class/Function/Attribute/Alias) with lazily created symbolic fields."""
        P = self.P
        classes = classes or ALL_KINDS
        if isinstance(classes, str):
            cls = classes
        elif len(classes) == 1:
            cls = classes[0]
        else:
            z = z3.Int(tag + "_cls")
            P.assume(z3.And(z >= 0, z < len(classes)))
            cls = SCls(classes, z)
        o = SObj(cls, {}, ident=z3.Int(tag + "_id"))
        o.tag = tag
        heap = self

        def lazy(name):
            def deco(f):
                o.lazy[name] = lambda P_, o_: f()
                return f
            return deco

        @lazy("name")
        def _name():
            return SStr(z3.String(tag + "_name"))

        @lazy("members")
        def _members():
            m, has = heap.smap(tag + "_members", lambda k: heap.obj(f"{tag}.m[{zstr(k).sexpr()[:24]}]"), iterable=True)
            o.members_has = has
            return m

        def _aliases():
            m, has = heap.smap(tag + "_aliases", lambda k: heap.obj(f"{tag}.a[{zstr(k).sexpr()[:24]}]", ["Alias"]), iterable=True)
            o.aliases_has = has
            return m

        def aliases_val(P_, o_):
            # an Alias has no table of its own: the real property forwards to its final target (and raises what that raises)
            if P_.resolve_cls(o_) == "Alias":
                member = P_.find_class_member("Alias", "aliases")
                if member is not None and member[0] == "property":
                    return P_.call_closure(member[1], [o_], {})
            return _aliases()
        o.lazy["aliases"] = aliases_val

        def parent_val():
            if tag.count(".parent") >= 3:
                raise Unsupported("unbounded walk up the parent chain: the callee needs a contract (hook)")
            g = z3.Bool(tag + "_parent_none")
            return SUnion([(g, None), (z3.Not(g), heap.obj(tag + ".parent", ["Module", "Class"]))])
        o.lazy["parent"] = lambda P_, o_: parent_val() if P_.resolve_cls(o_) != "Alias" else P_.obj_getattr(o_, "_parent")
        o.lazy["_parent"] = lambda P_, o_: parent_val()

        @lazy("_target")
        def _target():
            if tag.count(".target") >= 2:
                raise Unsupported("unbounded walk down the alias chain: the callee needs a contract (hook)")
            g = z3.Bool(tag + "_target_none")
            return SUnion([(g, None), (z3.Not(g), heap.obj(tag + ".target"))])

        @lazy("target_path")
        def _tp():
            return SStr(z3.String(tag + "_target_path"))

        @lazy("_passed_through")
        def _pt():
            return SBool(z3.Bool(tag + "_passed_through"))

        @lazy("runtime")
        def _rt():
            return SBool(z3.Bool(tag + "_runtime"))

        @lazy("_filepath")
        def _fp():
            a, b = z3.Bool(tag + "_filepath_none"), z3.Bool(tag + "_filepath_list")
            return SUnion([(a, None), (z3.And(z3.Not(a), b), [Opaque("path", z3.Int(tag + "_filepath_item_id"))]),
                           (z3.And(z3.Not(a), z3.Not(b)), Opaque("path", z3.Int(tag + "_filepath_id")))])

        @lazy("_modules_collection")
        def _mc():
            return None

        @lazy("imports")
        def _imports():
            m, has = heap.smap(tag + "_imports", lambda k: SStr(z3.Function(tag + "_imports_get", StrS, StrS)(zstr(k))))
            return m
        def opt_int(field):
            def mk(P_, o_):
                g = z3.Bool(f"{tag}_{field}_none")
                return SUnion([(g, None), (z3.Not(g), SInt(z3.Int(f"{tag}_{field}")))])
            return mk
        for f_ in ("lineno", "endlineno", "alias_lineno", "alias_endlineno"):
            o.lazy[f_] = opt_int(f_)
        o.lazy["exports"] = lambda P_, o_: None
        o.lazy["public"] = lambda P_, o_: None
        o.lazy["inherited"] = lambda P_, o_: False
        # An Alias has none of these of its own: the real class forwards them to its (final) target and raises what resolving it raises.  For an
        # object whose class is (or may be) Alias the real property is run, so that code reading them from a member that happens to be an alias is
        # checked against the alias errors exactly where they can occur.
        if heap.forward_alias_reads:
            for fname in ("members", "lineno", "endlineno", "exports", "imports", "_filepath"):
                o.lazy[fname] = _forwarding(fname, o.lazy[fname])
        for k, v in fields.items():
            o.fields[k] = v
        return self._register(o)

    def collection(self, tag="coll"):
        o = SObj("ModulesCollection", {}, ident=z3.Int(tag + "_id"))
        m, has = self.smap(tag + "_members", lambda k: self.obj(f"{tag}.m[{zstr(k).sexpr()[:24]}]", ["Module"]))
        o.fields["members"] = m
        o.members_has = has
        return self._register(o)


def key_seq(P, tag, minlen=1):
    """A key given as a tuple of names (symbolic length >= minlen)."""
    from pyvc.api import sym_seq
    f = z3.Function(tag + "_part", IntS, StrS)
    return sym_seq(P, tag, lambda i: SStr(f(i)), kind="tuple", minlen=minlen), f
