"""C01 — static extraction is faithful to the source: contracts.

Part 1: visibility decision tables (mixins.ObjectAliasMixin.*), loop-free => complete.
"""
from __future__ import annotations

import z3

from pyvc.api import *  # noqa: F403
from pyvc.values import *  # noqa: F403
from pyvc import models

MIX = "_griffe.mixins:ObjectAliasMixin."
KINDS = ["Module", "Class", "Function", "Attribute", "Alias"]

# these native replays search on their own (guided by the obligation / expected outcome), not from the abstract witness: one run per obligation
REPLAY_KEYED_BY_EXPECTS = {"replay_visitor"}

TRUSTED_BASE = [
    "documented visibility table = docstring of ObjectAliasMixin.is_public + docs/guide/users/navigating.md; `import *` rule = Python language reference 7.11",
    "objects handed to the predicates satisfy the model type invariant: name: str, public: bool|None, runtime: bool, parent: Module|Class|None, exports: list[str]|None, imports: dict[str,str]",
]
ASSUMPTIONS = [
    "not covered: 'exactly one member per bound name' for whole modules is the fold of the per-handler contracts over the statement list (paper induction, DESIGN 3/C01)",
]


def mk_parent(P, tag="parent"):
    """A Module-or-Class parent with symbolic exports/imports."""
    cls = SCls(["Module", "Class"], z3.Int(P._fresh_name(tag + "_cls")))
    P.assume(z3.And(cls.z >= 0, cls.z < 2))
    exp_n = P.fresh_int(tag + "_exports_n")
    P.assume(exp_n.z >= 0)
    in_exports = z3.Function(tag + "_in_exports", StrS, BoolS)
    exp_at = z3.Function(tag + "_exports_at", IntS, StrS)
    def memfn(P_, item):
        zi = zstr(item)
        P_.assume(z3.Implies(in_exports(zi), exp_n.z > 0))
        return in_exports(zi)
    exports_seq = SSeq(exp_n, lambda i: SStr(exp_at(zint(i))), tag="exports", memfn=memfn)
    exports = SUnion([(z3.Bool(tag + "_exports_none"), None), (z3.Not(z3.Bool(tag + "_exports_none")), exports_seq)])
    in_imports = z3.Function(tag + "_in_imports", StrS, BoolS)
    imp_get = z3.Function(tag + "_imports_get", StrS, StrS)
    imports = SMap(lambda k: in_imports(zstr(k)), lambda k: SStr(imp_get(zstr(k))), tag="imports")
    o = SObj(cls, {"exports": exports, "imports": imports, "name": P.fresh_str(tag + "_name")}, ident=z3.Int(tag + "_id"))
    o.frozen = True
    return o, dict(exports_none=z3.Bool(tag + "_exports_none"), exports_n=exp_n.z, in_exports=in_exports,
                   in_imports=in_imports, cls=cls.z, seq=exports_seq)


def mk_self(P, with_parent="opt"):
    cls = SCls(KINDS, z3.Int("self_cls"))
    P.assume(z3.And(cls.z >= 0, cls.z < len(KINDS)))
    name = P.fresh_str("name")
    public = SUnion([(z3.Bool("public_none"), None), (z3.Not(z3.Bool("public_none")), SBool(z3.Bool("public_val")))])
    parent, info = mk_parent(P)
    if with_parent == "opt":
        par = SUnion([(z3.Bool("parent_none"), None), (z3.Not(z3.Bool("parent_none")), parent)])
    else:
        par = parent
        P.assume(z3.Not(z3.Bool("parent_none")))
    runtime = SBool(z3.Bool("runtime"))
    o = SObj(cls, {"name": name, "public": public, "parent": par, "runtime": runtime}, ident=z3.Int("self_id"))
    o.frozen = True
    P.assume(z3.Implies(info["in_exports"](name.z), z3.And(z3.Not(info["exports_none"]), info["exports_n"] > 0)))
    info.update(name=name.z, public_none=z3.Bool("public_none"), public_val=z3.Bool("public_val"),
                parent_none=z3.Bool("parent_none"), runtime=z3.Bool("runtime"), self_cls=cls.z)
    P.witness.update(name=name, cls=SEnumLike(cls), public=public, parent_none=SBool(z3.Bool("parent_none")),
                     parent_cls=SEnumLike(parent.cls), exports_none=SBool(info["exports_none"]),
                     exports_n=SInt(info["exports_n"]), name_in_exports=SBool(info["in_exports"](name.z)),
                     name_in_imports=SBool(info["in_imports"](name.z)), runtime=runtime)
    return o, info


class SEnumLike(SInt):
    """Witness view of a symbolic class tag."""

    def __init__(self, scls):
        super().__init__(scls.z)
        self.cands = scls.cands


def sw(z, p):
    return z3.PrefixOf(z3.StringVal(p), z)


def ew(z, p):
    return z3.SuffixOf(z3.StringVal(p), z)


# spec tables (written from the documentation, not from the code) ---------------------------------
def T_special(i):
    return z3.And(sw(i["name"], "__"), ew(i["name"], "__"))


def T_private(i):
    return z3.And(sw(i["name"], "_"), z3.Not(T_special(i)))


def parent_is(i, k):
    return z3.And(z3.Not(i["parent_none"]), i["cls"] == ["Module", "Class"].index(k))


def T_class_private(i):
    return z3.And(parent_is(i, "Class"), sw(i["name"], "__"), z3.Not(ew(i["name"], "__")))


def T_imported(i):
    return z3.And(z3.Not(i["parent_none"]), i["in_imports"](i["name"]))


def T_exported(i):
    # listed in the __all__ of the parent module (an object without parent is listed nowhere)
    return z3.And(parent_is(i, "Module"), z3.Not(i["exports_none"]), i["in_exports"](i["name"]))


def T_wildcard(i):
    is_alias = i["self_cls"] == KINDS.index("Alias")
    is_module = i["self_cls"] == KINDS.index("Module")
    return z3.And(
        i["runtime"], parent_is(i, "Module"),
        z3.If(z3.Not(i["exports_none"]),
              i["in_exports"](i["name"]),
              z3.And(z3.Not(sw(i["name"], "_")), z3.Or(is_alias, z3.Not(is_module), T_imported(i)))))


def T_public(i):
    is_alias = i["self_cls"] == KINDS.index("Alias")
    is_module = i["self_cls"] == KINDS.index("Module")
    # "If the parent (module) defines __all__ and the object is not listed in, it is private": a DECLARED __all__, the empty one included
    has_all = z3.And(parent_is(i, "Module"), z3.Not(i["exports_none"]))
    return z3.If(z3.Not(i["public_none"]), i["public_val"],
           z3.If(z3.And(z3.Not(is_alias), is_module, z3.Not(sw(i["name"], "_"))), True,
           z3.If(has_all, i["in_exports"](i["name"]),
           z3.If(T_private(i), False,
           z3.If(T_imported(i), False, True)))))


def _table_contract(attr, table, need_parent=False):
    def driver(P):
        o, info = mk_self(P, "req" if need_parent else "opt")
        kind, r = outcome(P, lambda: P.getattr(o, attr))
        exp = table(info)
        P.expects["result"] = SBool(exp)
        if kind == "raise":
            P.prove(f"{attr}.raises", False, exc=P.resolve_cls(r))
            return
        P.prove(f"{attr}.table", py_bool(P, r) == exp)
        P.cover(attr)
    return driver


for _attr, _table, _np in [("is_special", T_special, False), ("is_private", T_private, False),
                           ("is_class_private", T_class_private, False), ("is_imported", T_imported, False),
                           ("is_exported", T_exported, False), ("is_wildcard_exposed", T_wildcard, True),
                           ("is_public", T_public, False)]:
    contract("C01", f"table.{_attr}", [MIX + _attr], replay="replay_visibility")(_table_contract(_attr, _table, _np))


# =========================================================================== Part 2: visitor handlers (ghost event traces)
from specs import visitorfx as VF  # noqa: E402

VS = VF.VS
TRUSTED_BASE += [
    "visitor handlers: extensions.call, set_member (C16), safe_get_* (C03), _get_docstring and the recursive visit are taken by contract and recorded as ghost "
    "events; ast nodes satisfy the CPython ast invariants (lineno <= end_lineno, decorator_list / body / orelse are lists)",
]
STR_OF = z3.Function("STR_OF_EXPR", IntS, StrS)


def install_expr_str(P):
    P.attr_hooks[("ExprValue", "__str__")] = lambda P_, o: SStr(STR_OF(o.ident))


@contract("C01", "visitor.visit_if.guard_discipline", [VS + "visit_if"], floor=3, replay="replay_visitor")
def c_visit_if(P):
    """Definitions in the body of `if TYPE_CHECKING:` (module / class level) are type-guarded, those in its else branch and after it are not
    (unless an enclosing block already is): test/body under old|tc, orelse under old, flag restored on exit, every child visited once in order."""
    install_expr_str(P)
    v, cur, ev, info = VF.mk_visitor(P)
    G0 = info["G0"]
    pk = z3.Int("if_parent_cls")
    parent_classes = ["ast.Module", "ast.ClassDef", "ast.If", "ast.FunctionDef", "ast.Try", "ast.With"]
    P.assume(z3.And(pk >= 0, pk < len(parent_classes)))
    test = VF.ast_node(P, "ast.Name", "test")
    BODY, ORELSE = z3.Function("BODY_STMT", IntS, IntS), z3.Function("ORELSE_STMT", IntS, IntS)
    def mk_body(i):
        # distinct statements are distinct objects (instantiated per accessed element: quantifier-free)
        P.assume(z3.And(BODY(zint(i)) != ORELSE(0), BODY(zint(i)) != test.ident))
        return SObj("ast.stmt", {"slot": "body", "index": SInt(zint(i))}, ident=BODY(zint(i)), frozen=True)

    def mk_orelse(i):
        P.assume(z3.And(z3.Implies(zint(i) != 0, ORELSE(zint(i)) != ORELSE(0)), ORELSE(zint(i)) != test.ident))
        return SObj("ast.stmt", {"slot": "orelse", "index": SInt(zint(i))}, ident=ORELSE(zint(i)), frozen=True)
    body = sym_seq(P, "body", mk_body, minlen=1)
    orelse = sym_seq(P, "orelse", mk_orelse)
    node = VF.ast_node(P, "ast.If", "ifnode", test=test, body=body, orelse=orelse, parent=SObj(SCls(parent_classes, pk), {}, ident=z3.Int("if_parent_id"), frozen=True))
    nb, no = zint(body.len), zint(orelse.len)
    cond_fail = z3.Function("condition_fails", IntS, BoolS)(test.ident)
    cond_str = STR_OF(z3.Function("condition_expr", IntS, IntS)(test.ident))
    tc = z3.And(z3.Or(pk == 0, pk == 1), z3.Not(cond_fail), z3.Or(cond_str == z3.StringVal("typing.TYPE_CHECKING"), cond_str == z3.StringVal("TYPE_CHECKING")))
    P.witness.update(parent_class=SInt(pk), already_guarded=SBool(G0), condition=SStr(cond_str), condition_fails=SBool(cond_fail), n_orelse=orelse.len, n_body=body.len)
    P.expects["clause"] = "visit_if"
    children = P.seq_concat(P.seq_concat([test], body), orelse)     # contract of ast_children for ast.If: _fields order test, body, orelse
    P.opaque_hooks["_griffe.agents.visitor:ast_children"] = lambda P_, a, k: children
    P.opaque_hooks["_griffe.agents.nodes.ast:ast_children"] = P.opaque_hooks["_griffe.agents.visitor:ast_children"]
    visits = []

    def expected_flag(child):
        slot = child.fields.get("slot") if isinstance(child, SObj) else None
        return G0 if slot == "orelse" else z3.Or(G0, tc)

    def hook_visit(P_, a, k):
        child = a[1]
        if isinstance(child, SUnion):
            child = P_.choose(child)
        flag = zbool(v.fields["type_guarded"])
        visits.append(child)
        if child is test:
            return None
        P_.prove("child_visited_under_the_right_guard:" + str(child.fields.get("slot")), flag == expected_flag(child), slot=child.fields.get("slot"))
        return None

    def hook_generic(P_, a, k):
        flag = zbool(v.fields["type_guarded"])
        visits.append("all")
        P_.prove("child_visited_under_the_right_guard:body", flag == z3.Or(G0, tc))
        P_.prove("child_visited_under_the_right_guard:orelse", z3.Implies(no > 0, flag == G0))
        return None
    P.opaque_hooks[VS + "visit"] = hook_visit
    P.opaque_hooks[VS + "generic_visit"] = hook_generic
    q = VS + "visit_if"

    def inv(P_, L, pre):
        i = zint(L["__ichildren"])
        return zbool(v.fields["type_guarded"]) == z3.If(i <= 1 + nb, z3.Or(G0, tc), G0)

    def post_body(P_, before, after):
        # exactly the iterated child was visited in this iteration
        P_.prove("each_child_is_visited_exactly_once_in_order", len(visits) == 1 and isinstance(visits[0], SObj))
    P.loop_specs[(q, 0)] = dict(mode="inv", name="children", inv=inv, post_body=post_body, havoc_fields=[(v, "type_guarded", lambda P_, nm: P_.fresh_bool(nm))])
    kind, res = outcome(P, lambda: call(P, q, v, node))
    if kind == "raise":
        P.prove("never_raises", False, exc=P.resolve_cls(res))
        return
    P.prove("flag_restored_on_exit", zbool(v.fields["type_guarded"]) == G0)
    P.cover("visit_if")


def install_alias_member_reads(P):
    """Reading labels / docstring / annotation of an existing member that is an alias resolves it: value or AliasResolutionError / CyclicAliasError.
    Every read is recorded (ghost) with its outcome."""
    reads = P.ghost.setdefault("alias_member_reads", [])

    def mk(attr):
        def hook(P_, o):
            which = P_.fresh_int("alias_read_" + attr)
            P_.assume(z3.And(which.z >= 0, which.z <= 2))
            if P_.branch(which.z == 1):
                reads.append((o, attr, "raise"))
                raise PyExc(SObj("AliasResolutionError", {"args": ()}))
            if P_.branch(which.z == 2):
                reads.append((o, attr, "raise"))
                raise PyExc(SObj("CyclicAliasError", {"args": ()}))
            reads.append((o, attr, "ok"))
            return o.fields[attr]
        return hook
    for attr in ("labels", "docstring", "annotation"):
        P.attr_hooks[("Alias", attr)] = mk(attr)


@contract("C01", "visitor.handle_attribute.per_name", [VS + "handle_attribute"], floor=6, replay="replay_visitor", split=16)
def c_handle_attribute(P):
    """One generic target name of an assignment, from an arbitrary carried state: dotted names create nothing; a conditional re-assignment of an
    existing name creates nothing and does not stop the loop; otherwise exactly one attribute member named after the target, on the right parent,
    with the statement's span and the runtime flag, announced after it was placed."""
    install_expr_str(P)
    install_alias_member_reads(P)
    v, cur, ev, info = VF.mk_visitor(P, cur_kinds=("Module", "Class", "Function"))
    G0 = info["G0"]
    stmt_parent_classes = ["ast.Module", "ast.ClassDef", "ast.If", "ast.ExceptHandler", "ast.Try", "ast.For", "ast.FunctionDef"]
    spk = z3.Int("stmt_parent_cls")
    P.assume(z3.And(spk >= 0, spk < len(stmt_parent_classes)))
    value = opt(P, "value_node", lambda: VF.ast_node(P, "ast.Constant", "value"))
    node = VF.ast_node(P, "ast.Assign", "assign", value=value, parent=SObj(SCls(stmt_parent_classes, spk), {}, ident=z3.Int("stmt_parent_id"), frozen=True))
    NAME = z3.Function("TARGET_NAME", IntS, StrS)
    names = sym_seq(P, "names", lambda i: SStr(NAME(zint(i))))
    unsupported = z3.Bool("targets_unsupported")

    def get_names(P_, a, k):
        if P_.branch(unsupported):
            raise PyExc(P_.mk_exc("KeyError", "unsupported target"))
        return names
    for mod in ("_griffe.agents.visitor", "_griffe.agents.nodes.assignments"):
        P.opaque_hooks[mod + ":get_names"] = get_names
        P.opaque_hooks[mod + ":get_instance_names"] = get_names
    nxt = z3.Bool("has_next_statement")

    def ast_next(P_, a, k):
        if P_.branch(nxt):
            return VF.ast_node(P_, "ast.Expr", "next_stmt")
        raise PyExc(SObj("LastNodeError", {"args": ()}))
    P.opaque_hooks["_griffe.agents.visitor:ast_next"] = ast_next
    P.opaque_hooks["_griffe.agents.visitor:safe_get__all__"] = lambda P_, a, k: []
    annotation = opt(P, "annotation", lambda: SObj("ExprValue", {}, ident=z3.Int("annotation_id"), frozen=True))
    q = VS + "handle_attribute"
    from pyvc.models import SymSet
    # the docstring of the statement: what _get_docstring makes of the statement that follows (taken by contract, its own contract is visitor._get_docstring)
    stmt_docs = []
    inner_get_docstring = P.opaque_hooks[VS + "_get_docstring"]
    P.opaque_hooks[VS + "_get_docstring"] = lambda P_, a, k: (stmt_docs.append(inner_get_docstring(P_, a, k)), stmt_docs[-1])[1]
    alias_reads = P.ghost["alias_member_reads"]

    def hint_labels(P_, nm):
        return SymSet(items=[], parts=[sym_seq(P_, "carried_labels", lambda i: SStr(z3.Function("CARRIED_LABEL", IntS, StrS)(zint(i))))])

    def hint_doc(P_, nm):
        return opt(P_, "carried_docstring", lambda: SObj("Docstring", {}, ident=z3.Int("carried_docstring_id")))

    def hint_ann(P_, nm):
        return opt(P_, "carried_annotation", lambda: SObj("ExprValue", {}, ident=z3.Int("carried_annotation_id"), frozen=True))
    P.expects["clause"] = "handle_attribute"
    P.witness.update(statement_parent=SInt(spk))

    def post_body(P_, before, after):
        it_events = list(ev[2:])      # on_node, on_attribute_node precede the loop
        name = after["name"]
        target = after["parent"]
        if isinstance(target, SUnion):
            target = P_.choose(target)
        exists = zbool(models.map_has(P_, target.fields["members"], name))
        conditional = z3.Or(spk == stmt_parent_classes.index("ast.If"), spk == stmt_parent_classes.index("ast.ExceptHandler"))
        skip = z3.Or(z3.Contains(zstr(name), z3.StringVal(".")), z3.And(exists, conditional))
        sets = [e for e in it_events if e[0] == "set_member"]
        P_.prove("member_created_unless_dotted_or_conditional_reassignment", z3.BoolVal(len(sets) == 0) == skip, n=len(sets))
        P_.prove("at_most_one_member_per_target", len(sets) <= 1)
        if len(sets) != 1:
            P_.prove("nothing_announced_when_nothing_is_placed", not [e for e in it_events if e[0] == "ext"])
            return
        _, recv, key, obj = sets[0]
        expected_parent = cur if P_.resolve_cls(cur) != "Function" else cur.fields["parent"]
        P_.prove("placed_on_the_scope_that_owns_the_name", recv is expected_parent or (isinstance(recv, SObj) and isinstance(expected_parent, SObj) and recv.ident.eq(expected_parent.ident)))
        P_.prove("keyed_and_named_by_the_target", z3.And(zstr(key) == zstr(name), zstr(obj.fields["name"]) == zstr(name)))
        P_.prove("is_an_attribute", P_.resolve_cls(obj) == "Attribute")
        P_.prove("span_is_the_statement", obj.fields["lineno"] is node.fields["lineno"] and obj.fields["endlineno"] is node.fields["end_lineno"])
        P_.prove("runtime_flag_is_not_type_guarded", zbool(obj.fields["runtime"]) == z3.Not(G0))
        kinds = [(e[1] if e[0] == "ext" else e[0]) for e in it_events]
        P_.prove("announced_once_after_being_placed", kinds == ["set_member", "on_instance", "on_attribute_instance"], kinds=str(kinds))
        ann_ev = [e for e in it_events if e[0] == "ext"]
        P_.prove("the_placed_object_is_the_one_announced", all((e[2].get("obj") or e[2].get("attr")) is obj for e in ann_ev))
        # docstring: the literal that follows THIS statement; when there is none, the docstring of the member of THIS name that is being replaced
        # (Griffe's documented tie-break); never something carried over from another name of the same assignment
        sd = stmt_docs[-1] if stmt_docs else None
        if isinstance(sd, SUnion):
            sd = P_.choose(sd)
        expected = sd
        if sd is None and P_.branch(exists):
            em = models.map_get(P_, target.fields["members"], name)
            if P_.resolve_cls(em) == "Alias":
                mine = [r for r in alias_reads if r[0] is em]
                failed = any(r[2] == "raise" for r in mine if r[1] in ("labels", "docstring"))
                expected = None if failed or not any(r[1] == "docstring" for r in mine) else em.fields["docstring"]
            else:
                expected = em.fields["docstring"]
            if isinstance(expected, SUnion):
                expected = P_.choose(expected)
        got = obj.fields["docstring"]
        if isinstance(got, SUnion):
            got = P_.choose(got)
        P_.prove("docstring_is_the_statements_or_else_the_replaced_members", P_.identical(got, expected), got=repr(got), expected=repr(expected))
    P.loop_specs[(q, 0)] = dict(mode="inv", name="names", no_break=True, post_body=post_body, may_write=("parent", "exports"),
                                hints={"labels": hint_labels, "docstring": hint_doc, "annotation": hint_ann, "name": lambda P_, nm: P_.fresh_str(nm),
                                       "existing_member": lambda P_, nm: None, "attribute": lambda P_, nm: None})
    kind, res = outcome(P, lambda: call(P, q, v, node, annotation))
    if kind == "raise":
        P.prove("never_raises", False, exc=P.resolve_cls(res))
        return
    P.cover("handle_attribute")


@contract("C01", "visitor.handle_function.spans_flags_events", [VS + "handle_function"], floor=5, replay="replay_visitor", split=16)
def c_handle_function_c01(P):
    VF.handle_function_driver(P, "C01")


# =========================================================================== names bound by an assignment statement
ASG = "_griffe.agents.nodes.assignments:"


@contract("C01", "nodes.get_names.per_target", [ASG + "_get_assign_names", ASG + "get_name"], floor=3, replay="replay_visitor")
def c_get_assign_names(P):
    """One arbitrary target of `t1 = t2 = ... = value`, from any list of names collected so far: a plain name contributes its identifier, an attribute chain
    rooted at a name its dotted text, a target that cannot be named (subscript, tuple, call result ...) contributes nothing -- and only nothing: the
    targets written before and after it are still bound by the statement, no target ends the loop, nothing raises."""
    P.expects["clause"] = "handle_attribute"
    KIND = z3.Function("TARGET_KIND", IntS, IntS)        # 0 name, 1 attribute of a name, 2 something that cannot be named
    IDF = z3.Function("TARGET_ID", IntS, StrS)
    ATTR = z3.Function("TARGET_ATTR", IntS, StrS)

    def mk_target(i):
        zi = zint(i)
        P.assume(z3.And(KIND(zi) >= 0, KIND(zi) <= 2, z3.Length(IDF(zi)) > 0))
        name_node = SObj("ast.Name", {"id": SStr(IDF(zi))}, ident=z3.Function("NAME_NODE", IntS, IntS)(zi), frozen=True)
        return SUnion([(KIND(zi) == 0, name_node),
                       (KIND(zi) == 1, SObj("ast.Attribute", {"value": name_node, "attr": SStr(ATTR(zi))}, ident=z3.Function("ATTR_NODE", IntS, IntS)(zi), frozen=True)),
                       (KIND(zi) == 2, SObj("ast.Subscript", {}, ident=z3.Function("SUB_NODE", IntS, IntS)(zi), frozen=True))])
    targets = sym_seq(P, "targets", mk_target)
    node = SObj("ast.Assign", {"targets": targets}, ident=z3.Int("assign_id"), frozen=True)
    q = ASG + "_get_assign_names"

    def hint_names(P_, nm):
        return sym_seq(P_, "names_so_far", lambda i: SStr(z3.Function("NAME_SO_FAR", IntS, StrS)(zint(i))))

    def post_body(P_, before, after):
        n0, n1 = zint(P_.seq_len(P_.to_seq(before["names"]))), zint(P_.seq_len(P_.to_seq(after["names"])))
        i = zint(before["__itargets"])
        P_.prove("a_nameable_target_adds_one_name_an_unnameable_one_adds_nothing", n1 == n0 + z3.If(KIND(i) == 2, 0, 1))
        if P_.branch(KIND(i) != 2):
            last = P_.seq_at(P_.to_seq(after["names"]), SInt(n0))
            want = z3.If(KIND(i) == 0, IDF(i), z3.Concat(IDF(i), z3.StringVal("."), ATTR(i)))
            P_.prove("the_name_added_is_the_targets_text", zstr(last) == want)
    P.loop_specs[("*", "iter:node.targets")] = dict(mode="inv", name="targets", no_break=True, post_body=post_body, hints={"names": hint_names, "target": lambda P_, nm: None})
    kind, res = outcome(P, lambda: call(P, q, node))
    P.prove("never_raises", kind == "ok", exc=(P.resolve_cls(res) if kind == "raise" else ""))
    P.cover("get_assign_names")


@contract("C01", "nodes.get_instance_names.self_attributes_only", [ASG + "get_instance_names"], floor=3, replay="replay_visitor")
def c_get_instance_names(P):
    """In `__init__`, an assignment binds an instance attribute for each target `self.<name>`: the attribute is named by everything after `self.` (so a
    deeper chain `self.a.b` keeps its dot and is not taken for an attribute `b` of the instance -- the handler skips dotted names), other targets bind nothing."""
    P.expects["clause"] = "handle_attribute"
    NAMEF = z3.Function("TARGET_TEXT", IntS, StrS)
    names = sym_seq(P, "target_names", lambda i: SStr(NAMEF(zint(i))))
    for mod in ("_griffe.agents.nodes.assignments",):
        P.opaque_hooks[mod + ":get_names"] = lambda P_, a, k: names
    node = SObj("ast.Assign", {}, ident=z3.Int("assign_id"), frozen=True)
    kind, res = outcome(P, lambda: call(P, ASG + "get_instance_names", node))
    P.prove("never_raises", kind == "ok", exc=(P.resolve_cls(res) if kind == "raise" else ""))
    if kind != "ok":
        return
    from pyvc import loops as _loops
    if not isinstance(res, _loops.SFilter):
        raise Unsupported("expected a filter over the names of the targets")
    i = z3.Int("some_target")
    P.assume(z3.And(i >= 0, i < zint(names.len)))
    is_self_attr = z3.PrefixOf(z3.StringVal("self."), NAMEF(i))
    if P.branch(is_self_attr):
        keep, val = res.pred_elt(mk_int(i))
        P.prove("a_target_self_dot_name_is_kept", zbool(keep))
        P.prove("named_by_everything_after_self_dot", z3.Concat(z3.StringVal("self."), zstr(val)) == NAMEF(i))
    else:
        # the element expression is only evaluated for kept targets (it may not even be defined for the others)
        k2, r2 = outcome(P, lambda: res.pred_elt(mk_int(i)))
        if k2 == "ok":
            P.prove("any_other_target_binds_no_instance_attribute", z3.Not(zbool(r2[0])))
    P.cover("get_instance_names")


# =========================================================================== docstrings: text and line span agree with the source
GD = "_griffe.agents.nodes.docstrings:get_docstring"


@contract("C01", "nodes.get_docstring.literal_and_span", [GD], floor=4, replay="replay_visitor")
def c_get_docstring(P):
    """The docstring of a definition is the string literal that is its first statement (strict mode: the given expression statement itself), with the
    literal's own line span -- also when the literal is the empty string; anything else (no body, another statement, a non-string constant, a
    non-constant expression) is no docstring."""
    strict = z3.Bool("strict")
    P.witness["strict"] = SBool(strict)
    P.expects["clause"] = "docstring"
    lit_is_str = z3.Bool("literal_is_a_string")
    text = P.fresh_str("literal_text")          # any string, "" included
    const_value = SUnion([(lit_is_str, text), (z3.Not(lit_is_str), SInt(z3.Int("literal_number")))])
    is_const = z3.Bool("expression_is_a_constant")
    const = VF.ast_node(P, "ast.Constant", "literal", value=const_value)
    other = VF.ast_node(P, "ast.Name", "other_expr")
    expr_value = const if P.branch(is_const) else other
    expr_stmt = VF.ast_node(P, "ast.Expr", "expr_stmt", value=expr_value)
    shape = z3.Int("node_shape")     # 0: the node is the expression statement itself; 1: a definition whose first statement is it; 2: a definition starting with
    P.assume(z3.And(shape >= 0, shape <= 3))     # another statement; 3: a definition with an empty body
    P.witness["node_shape"] = SInt(shape)
    if P.branch(shape == 0):
        node = expr_stmt
    elif P.branch(shape == 1):
        node = VF.ast_node(P, "ast.FunctionDef", "definition", body=[expr_stmt, SObj("ast.stmt", {}, ident=z3.Int("second_stmt"), frozen=True)])
    elif P.branch(shape == 2):
        node = VF.ast_node(P, "ast.ClassDef", "definition", body=[VF.ast_node(P, "ast.Assign", "first_stmt"), expr_stmt])
    else:
        node = VF.ast_node(P, "ast.Module", "definition", body=[])
    kind, res = outcome(P, lambda: call(P, GD, node, strict=SBool(strict)))
    if kind == "raise":
        P.prove("never_raises", False, exc=P.resolve_cls(res))
        return
    found = z3.And(is_const, lit_is_str, z3.Or(shape == 0, z3.And(shape == 1, z3.Not(strict))))
    r = P.to_seq(res) if not isinstance(res, (tuple, list)) else res
    value, lineno, endlineno = (r[0], r[1], r[2]) if isinstance(r, (tuple, list)) else (r.at(0), r.at(1), r.at(2))
    none = zbool(P.identical(value, None))
    P.prove("a_docstring_is_reported_exactly_for_a_leading_string_literal", z3.Not(none) == found)
    if P.branch(found):
        P.prove("text_is_the_literal_even_when_empty", zbool(P.eq(value, text)))
        P.prove("span_is_the_literals", z3.And(zbool(P.eq(lineno, const.fields["lineno"])), zbool(P.eq(endlineno, const.fields["end_lineno"]))))
    else:
        P.prove("no_span_without_a_docstring", z3.And(zbool(P.identical(lineno, None)), zbool(P.identical(endlineno, None))))
    P.cover("get_docstring")


@contract("C01", "visitor._get_docstring.wraps_every_literal", [VS + "_get_docstring"], floor=4, replay="replay_visitor")
def c_visitor_get_docstring(P):
    """Visitor._get_docstring turns what get_docstring found into a Docstring carrying exactly that text and span and the visitor's parser settings;
    no docstring object exactly when no literal was found -- an empty-string literal IS a docstring (CPython: __doc__ == '')."""
    P.expects["clause"] = "docstring"
    parser = SObj("Parser", {}, ident=z3.Int("parser_id"), frozen=True)
    options = SObj("dict", {}, ident=z3.Int("options_id"), frozen=True)
    v = SObj("Visitor", {"docstring_parser": parser, "docstring_options": options}, ident=z3.Int("visitor_id"))
    node = VF.ast_node(P, "ast.FunctionDef", "definition")
    has = z3.Bool("literal_found")
    text = P.fresh_str("literal_text")
    ln, eln = P.fresh_int("literal_lineno"), P.fresh_int("literal_end_lineno")
    strict = z3.Bool("strict")
    seen = []

    def get_docstring(P_, a, k):
        seen.append((a, dict(k)))
        if P_.branch(has):
            return (text, ln, eln)
        return (None, None, None)
    P.opaque_hooks[GD] = get_docstring
    P.opaque_hooks["_griffe.agents.visitor:get_docstring"] = get_docstring
    made = []
    P.opaque_hooks["new:Docstring"] = lambda P_, a, k: (made.append((a, dict(k))), SObj("Docstring", {"value": a[0] if a else k.get("value"), **{x: k.get(x) for x in ("lineno", "endlineno", "parser", "parser_options")}}, ident=P_.new_ident()))[1]
    kind, res = outcome(P, lambda: call(P, VS + "_get_docstring", v, node, strict=SBool(strict)))
    if kind == "raise":
        P.prove("never_raises", False, exc=P.resolve_cls(res))
        return
    P.prove("asks_get_docstring_about_this_node_with_the_same_strictness", len(seen) == 1 and seen[0][0][0] is node and zbool(seen[0][1].get("strict", False)) == strict if seen else False)
    P.prove("a_docstring_object_exactly_when_a_literal_was_found", z3.BoolVal(res is not None) == has)
    if res is not None:
        f = res.fields
        P.prove("text_is_the_literal_even_when_empty", zbool(P.eq(f["value"], text)))
        P.prove("span_is_the_literals", z3.And(zbool(P.eq(f["lineno"], ln)), zbool(P.eq(f["endlineno"], eln))))
        P.prove("parser_settings_are_the_visitors", f["parser"] is parser and f["parser_options"] is options)
    P.cover("_get_docstring")


def lemmas(tier, seed):
    from pyvc.source import SourceIndex
    idx = SourceIndex()
    idx.load_all()
    out = [VF.ownership_lemma(idx)]
    # string lemma used by visitor.get_base_property.table: the decomposition of a string at its last dot is unique
    import subprocess, tempfile, os
    x, a, b = z3.String("x"), z3.String("a"), z3.String("b")
    ok = True
    for c_ in ("setter", "deleter"):
        s_ = z3.Solver()
        p = z3.Concat(x, z3.StringVal("." + c_))
        s_.add(p == z3.Concat(a, z3.StringVal("."), b), z3.Not(z3.Contains(b, z3.StringVal("."))), z3.Not(z3.And(a == x, b == z3.StringVal(c_))))
        with tempfile.NamedTemporaryFile("w", suffix=".smt2", delete=False) as f:
            f.write(s_.to_smt2())
            fn = f.name
        try:
            r = subprocess.run(["/usr/bin/cvc5", "--strings-exp", "--tlimit=60000", fn], capture_output=True, text=True, timeout=70)
            ok = ok and r.stdout.strip().splitlines()[:1] == ["unsat"]
        except subprocess.TimeoutExpired:
            ok = False
        finally:
            os.unlink(fn)
    out.append({"name": "rsplit_is_unique", "ok": ok, "on_fail": "undecided",
                "detail": "x + '.setter' == a + '.' + b with a dot-free b implies a == x and b == 'setter' (same for 'deleter'); discharged by cvc5 --strings-exp"})
    return out


def bounded_checks(tier, seed):
    import json, os, subprocess, time
    from pyvc.run import VERIF, VENV_PY, REPO_SRC
    t0 = time.time()
    n_random, budget = (400, 60) if tier == "quick" else (20000, 900)
    r = subprocess.run([VENV_PY, "-m", "replay.C01", str(seed), str(n_random), str(budget)], capture_output=True, text=True, cwd=str(VERIF),
                       env=dict(os.environ, PYTHONPATH=str(REPO_SRC)), timeout=budget + 300)
    if r.returncode != 0:
        raise RuntimeError("bounded C01 catalogue crashed: " + r.stderr[-1500:])
    d = json.loads(r.stdout.strip().splitlines()[-1])
    return [{"check": "module_catalogue", "tool": "griffe.visit vs. an independent `ast` walk of the same source (members, kinds, runtime flags, spans, decorator labels, "
             "overloads, accessors, parameters, extension event order); statement templates nested in if TYPE_CHECKING / else / try / for / class / __init__",
             "bound": f"every compound template x every ordered pair of simple statements (29 simple statements incl. docstring literals, multi-target and property forms; 16 compound templates incl. __init__ bodies) + {n_random} random modules nested to depth 3; members, kinds, spans, labels, docstrings, events against a source-level oracle",
             "cases": d["cases"], "failing": len(d["bad"]), "wall_s": round(time.time() - t0, 1), "violations": d["bad"]}]


@contract("C01", "visitor.visit_classdef.span_events_scope", [VS + "visit_classdef"], floor=6, replay="replay_visitor", split=16)
def c_visit_classdef(P):
    visit_classdef_driver(P, "C01")


def visit_classdef_driver(P, clause):
    """A class definition: span from the first decorator to the end of the definition, runtime flag, placed in the current scope under its name, announced
    after it was placed, its body visited with the class as current scope, members-complete events after the body, scope restored."""
    install_expr_str(P)
    v, cur, ev, info = VF.mk_visitor(P)
    G0 = info["G0"]
    if clause == "C04":
        # the scoping clauses only (the rest of the handler's contract belongs to C01)
        real_prove = P.prove
        keep = ("decorators_resolve_in_the_enclosing_scope", "bases_resolve_in_the_enclosing_scope", "one_base_expression_per_base_in_the_source", "scope_restored",
                "body_is_visited_with_the_class_as_scope", "never_raises")
        P.prove = lambda nm, *a, **k: real_prove(nm, *a, **k) if nm in keep else None
    name = P.fresh_str("class_name")
    DLN = z3.Function("DECORATOR_LINENO", IntS, IntS)
    decorator_list = sym_seq(P, "decorator_list", lambda i: SObj("ast.expr", {"lineno": SInt(DLN(zint(i))), "end_lineno": SInt(DLN(zint(i)))},
                                                                 ident=z3.Function("DECORATOR_NODE", IntS, IntS)(zint(i)), frozen=True))
    bases = sym_seq(P, "bases", lambda i: SObj("ast.expr", {}, ident=z3.Function("BASE_NODE", IntS, IntS)(zint(i)), frozen=True))
    node = VF.ast_node(P, "ast.ClassDef", "cdef", name=name, decorator_list=decorator_list, bases=bases, body=[SObj("ast.stmt", {}, ident=z3.Int("body0"), frozen=True)])
    P.opaque_hooks["new:Decorator"] = lambda P_, a, k: SObj("Decorator", {"value": a[0], "lineno": k.get("lineno"), "endlineno": k.get("endlineno")}, ident=P_.new_ident())
    from pyvc.models import SymSet
    P.opaque_hooks[VS + "decorators_to_labels"] = lambda P_, a, k: SymSet(items=[], parts=[sym_seq(P_, "decorator_labels", lambda i: SStr(z3.Function("DECORATOR_LABEL", IntS, StrS)(zint(i))))])
    calls = []

    def safe_get_expression(P_, a, k):
        calls.append((a[0] if a else k.get("node"), dict(k)))
        return VF.expr_of(P_, a[0] if a else k.get("node"), "expression")
    P.opaque_hooks["_griffe.agents.visitor:safe_get_expression"] = safe_get_expression
    base_calls = []
    P.opaque_hooks["_griffe.agents.visitor:safe_get_base_class"] = lambda P_, a, k: (base_calls.append(dict(k)), VF.expr_of(P_, a[0], "base"))[1]
    body_scope = []
    P.opaque_hooks[VS + "generic_visit"] = lambda P_, a, k: (body_scope.append(v.fields["current"]), ev.append(("generic_visit",)))[0] and None
    P.expects["clause"] = "visit_classdef"
    kind, res = outcome(P, lambda: call(P, VS + "visit_classdef", v, node))
    if kind == "raise":
        P.prove("never_raises", False, exc=P.resolve_cls(res))
        return
    kinds = [(e[1] if e[0] == "ext" else e[0]) for e in ev]
    P.prove("placed_announced_body_visited_members_complete_in_this_order",
            kinds == ["on_node", "on_class_node", "set_member", "on_instance", "on_class_instance", "generic_visit", "on_members", "on_class_members"], kinds=str(kinds))
    sets = [e for e in ev if e[0] == "set_member"]
    if len(sets) != 1:
        return
    _, recv, key, cls = sets[0]
    nd = zint(decorator_list.len)
    P.prove("placed_in_the_current_scope_under_its_name", recv is cur and key is name and cls.fields["name"] is name)
    P.prove("is_a_class", P.resolve_cls(cls) == "Class")
    P.prove("span_starts_at_the_first_decorator", zint(cls.fields["lineno"]) == z3.If(nd > 0, DLN(0), zint(node.fields["lineno"])))
    P.prove("span_ends_with_the_definition", cls.fields["endlineno"] is node.fields["end_lineno"])
    P.prove("runtime_flag_is_not_type_guarded", zbool(cls.fields["runtime"]) == z3.Not(G0))
    P.prove("body_is_visited_with_the_class_as_scope", len(body_scope) == 1 and body_scope[0] is cls)
    P.prove("scope_restored", v.fields["current"] is cur)
    for e in ev:
        if e[0] == "ext" and e[1] in ("on_instance", "on_class_instance", "on_members", "on_class_members"):
            P.prove("events_carry_the_placed_class", (e[2].get("obj") or e[2].get("cls")) is cls)
    P.prove("decorators_and_bases_are_never_parsed_as_string_annotations", all(k.get("parse_strings") is False for _, k in calls), calls=len(calls))
    scope_clauses(P, cur, calls, base_calls, cls, bases)
    P.cover("visit_classdef")


def scope_clauses(P, cur, calls, base_calls, cls, bases):
    # names in decorators and base classes are bound where the class statement stands (Python evaluates them before the class body exists):
    # their scope is the scope current on entry, never the class being defined
    bf = cls.fields.get("bases")
    if bf is not None and not isinstance(bf, (list, tuple)):
        # the stored list is built element by element on demand: look at one arbitrary base so that its construction is observed
        k_ = P.fresh_int("some_base_index")
        if P.branch(z3.And(k_.z >= 0, k_.z < zint(P.seq_len(bf)))):
            P.seq_at(bf, k_)
    P.prove("decorators_resolve_in_the_enclosing_scope", all(k.get("parent") is cur for _, k in calls), calls=len(calls))
    P.prove("bases_resolve_in_the_enclosing_scope", all(k.get("parent") is cur for k in base_calls), calls=len(base_calls))
    if isinstance(cls.fields.get("bases"), (list, SSeq)) or cls.fields.get("bases") is not None:
        nb = P.seq_len(cls.fields["bases"])
        P.prove("one_base_expression_per_base_in_the_source", zint(nb) == zint(bases.len))


BUILTIN_DECORATORS = {"property": "property", "staticmethod": "staticmethod", "classmethod": "classmethod"}
STDLIB_DECORATORS = {"abc.abstractmethod": {"abstractmethod"}, "functools.cache": {"cached"}, "functools.cached_property": {"cached", "property"},
                     "cached_property.cached_property": {"cached", "property"}, "functools.lru_cache": {"cached"}, "dataclasses.dataclass": {"dataclass"}}


@contract("C01", "visitor.decorators_to_labels.table", [VS + "decorators_to_labels"], floor=2, replay="replay_visitor")
def c_decorators_to_labels(P):
    """Labels are exactly the union, over the decorators, of the documented label set of each decorator's callable path (bounded: <= 2 decorators, symbolic paths)."""
    v, cur, ev, info = VF.mk_visitor(P)
    n = z3.Int("n_decorators")
    P.assume(z3.And(n >= 0, n <= 2))
    size = 0 if P.branch(n == 0) else (1 if P.branch(n == 1) else 2)
    paths = [P.fresh_str(f"callable_path{i}") for i in range(size)]
    decs = [SObj("Decorator", {"callable_path": p}, ident=z3.Int(f"decorator{i}"), frozen=True) for i, p in enumerate(paths)]
    kind, res = outcome(P, lambda: call(P, VS + "decorators_to_labels", v, decs))
    if kind == "raise":
        P.prove("never_raises", False, exc=P.resolve_cls(res))
        return
    table = dict({k: {val} for k, val in BUILTIN_DECORATORS.items()}, **STDLIB_DECORATORS)
    all_labels = sorted({l for s in table.values() for l in s})
    for lab in all_labels:
        want = z3.Or(*[z3.Or(*[p.z == z3.StringVal(path) for path, labs in table.items() if lab in labs]) for p in paths]) if paths else z3.BoolVal(False)
        got = models.contains(P, res, lab)
        P.prove("label_present_iff_some_decorator_gives_it:" + lab, zbool(got) == want)
    P.cover("decorators_to_labels")


@contract("C01", "visitor.visit_module.events_scope", [VS + "visit_module"], floor=3, replay="replay_visitor")
def c_visit_module(P):
    """The module object is created first, announced, becomes the current scope for its body, and its members-complete events come last."""
    v, cur, ev, info = VF.mk_visitor(P)
    for f, val in (("module_name", P.fresh_str("module_name")), ("filepath", Opaque("lenient:path")), ("parent", None), ("lines_collection", Opaque("lines")),
                   ("modules_collection", Opaque("modules"))):
        v.fields[f] = val
    node = VF.ast_node(P, "ast.Module", "mod", body=[SObj("ast.stmt", {}, ident=z3.Int("body0"), frozen=True)])
    scope = []
    P.opaque_hooks[VS + "generic_visit"] = lambda P_, a, k: (scope.append(v.fields["current"]), ev.append(("generic_visit",)))[0] and None
    created = []
    P.opaque_hooks["new:Module"] = lambda P_, a, k: (created.append(SObj("Module", dict(k, name=k.get("name", a[0] if a else None)), ident=P_.new_ident())), created[-1])[1]
    kind, res = outcome(P, lambda: call(P, VS + "visit_module", v, node))
    if kind == "raise":
        P.prove("never_raises", False, exc=P.resolve_cls(res))
        return
    kinds = [(e[1] if e[0] == "ext" else e[0]) for e in ev]
    P.expects["clause"] = "visit_module"
    P.prove("announced_then_body_then_members_complete", kinds == ["on_node", "on_module_node", "on_instance", "on_module_instance", "generic_visit", "on_members", "on_module_members"], kinds=str(kinds))
    P.prove("one_module_object_named_after_the_module", len(created) == 1 and created[0].fields.get("name") is v.fields["module_name"])
    if len(created) == 1:
        m = created[0]
        P.prove("body_is_visited_with_the_module_as_scope", scope == [m] and v.fields["current"] is m)
        P.prove("events_carry_the_module", all((e[2].get("obj") or e[2].get("mod")) is m for e in ev if e[0] == "ext" and e[1] not in ("on_node", "on_module_node")))
        P.prove("docstring_is_the_module_docstring", m.fields.get("docstring") is None or isinstance(m.fields.get("docstring"), (SObj, SUnion)))
    P.cover("visit_module")


@contract("C01", "visitor.get_base_property.table", [VS + "get_base_property"], floor=3, replay="replay_visitor", split=16)
def c_get_base_property(P):
    """A function is a property accessor iff one of its decorators is <its own path>.setter / .deleter and the member of that name is a property
    (bounded: <= 2 decorators, symbolic paths); the answer is that accessor kind."""
    v, cur, ev, info = VF.mk_visitor(P)
    n = z3.Int("n_decorators")
    P.assume(z3.And(n >= 0, n <= 2))
    size = 0 if P.branch(n == 0) else (1 if P.branch(n == 1) else 2)
    paths = [P.fresh_str(f"callable_path{i}") for i in range(size)]
    decs = [SObj("Decorator", {"callable_path": p}, ident=z3.Int(f"decorator{i}"), frozen=True) for i, p in enumerate(paths)]
    fpath = P.fresh_str("function_path")
    fname = P.fresh_str("function_name")
    fn = SObj("Function", {"path": fpath, "name": fname}, ident=z3.Int("function_id"), frozen=True)
    P.attr_hooks[("Function", "path")] = lambda P_, o: o.fields["path"]
    is_prop = z3.Bool("member_is_a_property")
    missing = z3.Bool("member_missing")
    member = SObj("Attribute", {}, ident=z3.Int("member_id"), frozen=True)
    P.attr_hooks[("Attribute", "has_labels")] = lambda P_, o: BoundMethod(o, lambda P__, s_, a, k: SBool(is_prop))

    P.assume(missing == z3.Not(info["HAS"](fname.z)))      # get_member(name) fails exactly when the scope has no such member (C16)

    def get_member(P_, a, k):
        if P_.branch(missing):
            raise PyExc(P_.mk_exc("KeyError", "no such member"))
        return member
    P.opaque_hooks["_griffe.mixins:GetMembersMixin.get_member"] = get_member
    # uniqueness of the split at the last dot (a fact of the theory of strings, discharged once by lemma `rsplit_is_unique`): a string that is
    # <x>.<c> with a dot-free c splits into exactly x and c
    HEAD, TAIL = models.ufn("rsplit1_2e_head", StrS, StrS), models.ufn("rsplit1_2e_tail", StrS, StrS)
    for p_ in paths:
        for c_ in ("setter", "deleter"):
            P.assume(z3.Implies(p_.z == z3.Concat(fpath.z, z3.StringVal("." + c_)),
                                z3.And(HEAD(p_.z) == fpath.z, TAIL(p_.z) == z3.StringVal(c_), z3.Contains(p_.z, z3.StringVal(".")))))
            P.assume(z3.Implies(z3.And(HEAD(p_.z) == fpath.z, TAIL(p_.z) == z3.StringVal(c_), z3.Contains(p_.z, z3.StringVal("."))),
                                p_.z == z3.Concat(fpath.z, z3.StringVal("." + c_))))
    kind, res = outcome(P, lambda: call(P, VS + "get_base_property", v, decs, fn))
    acc = [z3.Or(p.z == z3.Concat(fpath.z, z3.StringVal(".setter")), p.z == z3.Concat(fpath.z, z3.StringVal(".deleter"))) for p in paths]
    P.expects["clause"] = "handle_function"
    if kind == "raise":
        P.prove("never_raises", False, exc=P.resolve_cls(res))
        return
    want_some = z3.And(z3.Or(*acc) if acc else z3.BoolVal(False), z3.Not(missing), is_prop)
    if res is None:
        P.prove("none_iff_no_decorator_is_an_accessor_of_a_property", z3.Not(want_some))
    else:
        P.prove("an_accessor_kind_only_for_an_accessor_of_a_property", want_some)
        P.prove("the_kind_is_setter_or_deleter", z3.Or(zstr(res) == z3.StringVal("setter"), zstr(res) == z3.StringVal("deleter")))
    P.cover("get_base_property")
