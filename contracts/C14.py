"""C14 — module discovery: contract on ModuleFinder.find_package over an abstract file system (restricted claim)."""
from __future__ import annotations

import z3

from pyvc.api import *  # noqa: F403
from pyvc.values import *  # noqa: F403
from pyvc import models
from specs import paths as FS

FN = "_griffe.finder:ModuleFinder.find_package"

TRUSTED_BASE = [
    "abstract file system: directory listings are consumed through membership only (IN_CONTENTS), existence through EXISTS; a code change that starts to "
    "depend on listing order leaves the abstraction and is reported undecided",
    "the requested top-level module name contains no dot, so Path(name) has no suffix and Path(name + '.py') has suffix '.py'",
    "find_package: the per-search-path decision is proved for one generic iteration from an arbitrary list of namespace directories collected so far; "
    "first-match-wins over the search paths is the fold of that decision (early return)",
]
ASSUMPTIONS = [
    "not covered: equality of the loaded module set with pkgutil.walk_packages / the import system, and listing-order independence of iter_submodules: "
    "decided by the bounded native tier (generated file trees, shuffled os.walk / iterdir), never counted as proved",
]


@contract("C14", "find_package.per_search_path", [FN], floor=7, replay="replay_file_trees", shard_bits=2)
def c_find_package(P):
    FS.install(P)
    name = P.fresh_str("module_name")
    P.assume(z3.Not(z3.Contains(name.z, z3.StringVal("."))))
    P.assume(z3.Not(z3.SuffixOf(z3.StringVal("-stubs"), name.z)))
    sp = sym_seq(P, "search_paths", lambda i: FS.mk(z3.Function("SEARCH_PATH", IntS, IntS)(i)), minlen=1)
    finder = SObj("ModuleFinder", {"search_paths": sp}, ident=z3.Int("finder_id"))
    P.opaque_hooks["new:Package"] = lambda P_, a, k: SObj("Package", {"name": a[0], "path": a[1], "stubs": a[2] if len(a) > 2 else k.get("stubs")}, ident=P_.new_ident())
    P.opaque_hooks["new:NamespacePackage"] = lambda P_, a, k: SObj("NamespacePackage", {"name": a[0], "path": a[1]}, ident=P_.new_ident())
    P.assume(FS.SUFFIX(FS.PATHSTR(name.z)) == z3.StringVal(""))
    P.assume(FS.SUFFIX(FS.PATHSTR(z3.Concat(name.z, z3.StringVal(".py")))) == z3.StringVal(".py"))
    seen = {}

    def hint_ns(P_, n):
        f = z3.Function("NS_DIR", IntS, IntS)
        return sym_seq(P_, "namespace_dirs_so_far", lambda i: FS.mk(f(i)))

    def post_body(P_, before, after):
        # reached only when the iteration neither returned nor raised
        seen["continued"] = (before, after)
        p = P_.frame.locals["path"] if "path" in P_.frame.locals else None
    P.loop_specs[(FN, 0)] = dict(mode="inv", name="search_paths", hints={"namespace_dirs": hint_ns}, post_body=post_body)
    # decision of the generic iteration is observed through the function's outcome on that path
    kind, res = outcome(P, lambda: call(P, FN, finder, name))
    # reconstruct the generic element: the loop index ghost
    idx = [v for k, v in P.frames[-1].locals.items()] if P.frames else None
    P.ghost["result"] = (kind, res)
    if kind == "raise":
        P.prove("only_ModuleNotFoundError", P.resolve_cls(res) == "ModuleNotFoundError", exc=P.resolve_cls(res))
        P.cover("find_package.raise")
        return
    rc = P.resolve_cls(res)
    if rc == "NamespacePackage":
        P.prove("namespace_package_keeps_requested_name", P.identical(res.fields["name"], name))
        P.cover("find_package.namespace")
        return
    P.prove("returns_a_package", rc == "Package")
    path, stubs = res.fields["path"], res.fields["stubs"]
    i = z3.Int("i_sp")
    # the returned path lives under some search path p = search_paths[i] (Skolem by matching constructors)
    D = lambda pid: FS.JOIN(pid, FS.PATHSTR(name.z))  # noqa: E731
    F = lambda pid: FS.JOIN(pid, FS.PATHSTR(z3.Concat(name.z, z3.StringVal(".py"))))  # noqa: E731
    INITPY = lambda pid: FS.JOIN(D(pid), FS.PATHSTR(z3.StringVal("__init__.py")))  # noqa: E731
    INITPYI = lambda pid: FS.JOIN(D(pid), FS.PATHSTR(z3.StringVal("__init__.pyi")))  # noqa: E731
    pid = z3.Int("winning_search_path")
    in_sp = z3.Exists([i], z3.And(i >= 0, i < zint(sp.len), z3.Function("SEARCH_PATH", IntS, IntS)(i) == pid))
    reg = z3.And(path.ident == INITPY(pid), FS.IN_CONTENTS(pid, D(pid)), FS.EXISTS(INITPY(pid)), z3.Not(FS.NS_STYLE(INITPY(pid))))
    stubpkg = z3.And(path.ident == INITPYI(pid), FS.IN_CONTENTS(pid, D(pid)), FS.EXISTS(INITPYI(pid)),
                     z3.Not(z3.And(FS.EXISTS(INITPY(pid)), z3.Not(FS.NS_STYLE(INITPY(pid))))))
    modfile = z3.And(path.ident == F(pid), FS.IN_CONTENTS(pid, F(pid)),
                     # a regular or stubs-only package directory in the same search path takes precedence over name.py
                     z3.Not(z3.And(FS.IN_CONTENTS(pid, D(pid)), z3.Or(z3.And(FS.EXISTS(INITPY(pid)), z3.Not(FS.NS_STYLE(INITPY(pid)))), FS.EXISTS(INITPYI(pid))))))
    P.prove("package_is_justified_by_the_file_system", z3.Exists([pid], z3.And(in_sp, FS.NONEMPTY(pid), z3.Or(reg, stubpkg, modfile))))
    if stubs is not None and not (isinstance(stubs, SUnion)):
        P.prove("stubs_only_when_sibling_pyi_exists", FS.EXISTS(stubs.ident))
    P.cover("find_package.package")


@contract("C14", "find_package.module_file_not_hidden", [FN], floor=2, replay="replay_file_trees")
def c_module_file(P):
    """One search path holding name.py (and possibly a bare directory of the same name): the module file is found."""
    FS.install(P)
    name = P.fresh_str("module_name")
    P.assume(z3.Not(z3.Contains(name.z, z3.StringVal("."))))
    P.assume(z3.Not(z3.SuffixOf(z3.StringVal("-stubs"), name.z)))
    p0 = FS.mk(z3.Int("sp0"))
    finder = SObj("ModuleFinder", {"search_paths": [p0]}, ident=z3.Int("finder_id"))
    P.opaque_hooks["new:Package"] = lambda P_, a, k: SObj("Package", {"name": a[0], "path": a[1], "stubs": a[2] if len(a) > 2 else k.get("stubs")}, ident=P_.new_ident())
    P.opaque_hooks["new:NamespacePackage"] = lambda P_, a, k: SObj("NamespacePackage", {"name": a[0], "path": a[1]}, ident=P_.new_ident())
    P.assume(FS.SUFFIX(FS.PATHSTR(name.z)) == z3.StringVal(""))
    P.assume(FS.SUFFIX(FS.PATHSTR(z3.Concat(name.z, z3.StringVal(".py")))) == z3.StringVal(".py"))
    pid = p0.ident
    D = FS.JOIN(pid, FS.PATHSTR(name.z))
    F = FS.JOIN(pid, FS.PATHSTR(z3.Concat(name.z, z3.StringVal(".py"))))
    INITPY = FS.JOIN(D, FS.PATHSTR(z3.StringVal("__init__.py")))
    INITPYI = FS.JOIN(D, FS.PATHSTR(z3.StringVal("__init__.pyi")))
    for child, parent in ((D, pid), (F, pid), (INITPY, D), (INITPYI, D)):
        P.assume(FS.DEPTH(child) == FS.DEPTH(parent) + 1)
    kind, res = outcome(P, lambda: call(P, FN, finder, name))
    pkgdir = z3.And(FS.IN_CONTENTS(pid, D), z3.Or(z3.And(FS.EXISTS(INITPY), z3.Not(FS.NS_STYLE(INITPY))), FS.EXISTS(INITPYI)))
    has_file = z3.And(FS.NONEMPTY(pid), FS.IN_CONTENTS(pid, F))
    if kind == "raise":
        P.prove("not_found_only_when_nothing_matches", z3.Not(z3.And(FS.NONEMPTY(pid), z3.Or(FS.IN_CONTENTS(pid, D), FS.IN_CONTENTS(pid, F)))))
        return
    rc = P.resolve_cls(res)
    if rc == "NamespacePackage":
        P.prove("namespace_only_when_no_module_file_and_no_init", z3.And(z3.Not(has_file), z3.Not(pkgdir)))
    else:
        P.prove("module_file_found_when_no_package_dir", z3.Implies(z3.And(has_file, z3.Not(pkgdir)), res.fields["path"].ident == F))
        P.prove("package_dir_takes_precedence", z3.Implies(z3.And(FS.NONEMPTY(pid), pkgdir), res.fields["path"].ident != F))
    P.cover("module_file." + rc)


def bounded_checks(tier, seed):
    import json, os, subprocess, time
    from pyvc.run import VERIF, VENV_PY, REPO_SRC
    t0 = time.time()
    n_random, budget = (150, 90) if tier == "quick" else (3000, 1200)
    r = subprocess.run([VENV_PY, "-m", "replay.C14", str(seed), str(n_random), str(budget)], capture_output=True, text=True, cwd=str(VERIF),
                       env=dict(os.environ, PYTHONPATH=str(REPO_SRC)), timeout=budget + 300)
    if r.returncode != 0:
        raise RuntimeError("bounded C14 sweep crashed: " + r.stderr[-1500:])
    d = json.loads(r.stdout.strip().splitlines()[-1])
    return [{"check": "file_trees", "tool": "generated file trees over two search paths; CPython's path-finder rules + pkgutil as oracle; os.walk / iterdir order permuted (asc, desc, shuffled); request by name and by path",
             "bound": f"7x7 top-level layouts with fixed inner trees + {n_random} random layouts (11 inner entries incl. stubs, sub-packages, __pycache__, nested namespace dirs, data files) x 3 listing orders",
             "cases": d["cases"], "failing": len(d["bad"]), "wall_s": round(time.time() - t0, 1), "class_match": True, "violations": d["bad"]}]
