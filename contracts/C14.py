"""C14 — module discovery: contract on ModuleFinder.find_package over an abstract file system (restricted claim)."""
from __future__ import annotations

import z3

from pyvc.api import *  # noqa: F403
from pyvc.values import *  # noqa: F403
from pyvc import models
from specs import paths as FS

FN = "_griffe.finder:ModuleFinder.find_package"

# these native replays search on their own (guided by the obligation / expected outcome), not from the abstract witness: one run per obligation
REPLAY_KEYED_BY_EXPECTS = {"replay_file_trees"}

TRUSTED_BASE = [
    "abstract file system: directory listings are consumed through membership only (IN_CONTENTS), existence through EXISTS; a code change that starts to "
    "depend on listing order leaves the abstraction and is reported undecided",
    "the requested top-level module name contains no dot, so Path(name) has no suffix and Path(name + '.py') has suffix '.py'",
    "find_package: the per-search-path decision is proved for one generic iteration from an arbitrary list of namespace directories collected so far; "
    "first-match-wins over the search paths is the fold of that decision (early return)",
]
ASSUMPTIONS = [
    "not covered: equality of the loaded module set with pkgutil.walk_packages / the import system, and listing-order independence of iter_submodules: "
    "decided by the bounded native tier (generated file trees, shuffled os.walk / iterdir), never counted as proved",
]


@contract("C14", "find_package.per_search_path", [FN], floor=7, replay="replay_file_trees", shard_bits=2)
def c_find_package(P):
    FS.install(P)
    name = P.fresh_str("module_name")
    P.assume(z3.Not(z3.Contains(name.z, z3.StringVal("."))))
    P.assume(z3.Not(z3.SuffixOf(z3.StringVal("-stubs"), name.z)))
    sp = sym_seq(P, "search_paths", lambda i: FS.mk(z3.Function("SEARCH_PATH", IntS, IntS)(i)), minlen=1)
    finder = SObj("ModuleFinder", {"search_paths": sp}, ident=z3.Int("finder_id"))
    P.opaque_hooks["new:Package"] = lambda P_, a, k: SObj("Package", {"name": a[0], "path": a[1], "stubs": a[2] if len(a) > 2 else k.get("stubs")}, ident=P_.new_ident())
    P.opaque_hooks["new:NamespacePackage"] = lambda P_, a, k: SObj("NamespacePackage", {"name": a[0], "path": a[1]}, ident=P_.new_ident())
    P.assume(FS.SUFFIX(FS.PATHSTR(name.z)) == z3.StringVal(""))
    P.assume(FS.SUFFIX(FS.PATHSTR(z3.Concat(name.z, z3.StringVal(".py")))) == z3.StringVal(".py"))
    seen = {}

    def hint_ns(P_, n):
        f = z3.Function("NS_DIR", IntS, IntS)
        return sym_seq(P_, "namespace_dirs_so_far", lambda i: FS.mk(f(i)))

    def post_body(P_, before, after):
        # reached only when the iteration neither returned nor raised
        seen["continued"] = (before, after)
        p = P_.frame.locals["path"] if "path" in P_.frame.locals else None
    P.loop_specs[(FN, 0)] = dict(mode="inv", name="search_paths", hints={"namespace_dirs": hint_ns}, post_body=post_body)
    # decision of the generic iteration is observed through the function's outcome on that path
    kind, res = outcome(P, lambda: call(P, FN, finder, name))
    # reconstruct the generic element: the loop index ghost
    idx = [v for k, v in P.frames[-1].locals.items()] if P.frames else None
    P.ghost["result"] = (kind, res)
    if kind == "raise":
        P.prove("only_ModuleNotFoundError", P.resolve_cls(res) == "ModuleNotFoundError", exc=P.resolve_cls(res))
        P.cover("find_package.raise")
        return
    rc = P.resolve_cls(res)
    if rc == "NamespacePackage":
        P.prove("namespace_package_keeps_requested_name", P.identical(res.fields["name"], name))
        P.cover("find_package.namespace")
        return
    P.prove("returns_a_package", rc == "Package")
    path, stubs = res.fields["path"], res.fields["stubs"]
    i = z3.Int("i_sp")
    # the returned path lives under some search path p = search_paths[i] (Skolem by matching constructors)
    D = lambda pid: FS.JOIN(pid, FS.PATHSTR(name.z))  # noqa: E731
    F = lambda pid: FS.JOIN(pid, FS.PATHSTR(z3.Concat(name.z, z3.StringVal(".py"))))  # noqa: E731
    INITPY = lambda pid: FS.JOIN(D(pid), FS.PATHSTR(z3.StringVal("__init__.py")))  # noqa: E731
    INITPYI = lambda pid: FS.JOIN(D(pid), FS.PATHSTR(z3.StringVal("__init__.pyi")))  # noqa: E731
    pid = z3.Int("winning_search_path")
    in_sp = z3.Exists([i], z3.And(i >= 0, i < zint(sp.len), z3.Function("SEARCH_PATH", IntS, IntS)(i) == pid))
    reg = z3.And(path.ident == INITPY(pid), FS.IN_CONTENTS(pid, D(pid)), FS.EXISTS(INITPY(pid)), z3.Not(FS.NS_STYLE(INITPY(pid))))
    stubpkg = z3.And(path.ident == INITPYI(pid), FS.IN_CONTENTS(pid, D(pid)), FS.EXISTS(INITPYI(pid)),
                     z3.Not(z3.And(FS.EXISTS(INITPY(pid)), z3.Not(FS.NS_STYLE(INITPY(pid))))))
    modfile = z3.And(path.ident == F(pid), FS.IN_CONTENTS(pid, F(pid)),
                     # a regular or stubs-only package directory in the same search path takes precedence over name.py
                     z3.Not(z3.And(FS.IN_CONTENTS(pid, D(pid)), z3.Or(z3.And(FS.EXISTS(INITPY(pid)), z3.Not(FS.NS_STYLE(INITPY(pid)))), FS.EXISTS(INITPYI(pid))))))
    P.prove("package_is_justified_by_the_file_system", z3.Exists([pid], z3.And(in_sp, FS.NONEMPTY(pid), z3.Or(reg, stubpkg, modfile))))
    if stubs is not None and not (isinstance(stubs, SUnion)):
        P.prove("stubs_only_when_sibling_pyi_exists", FS.EXISTS(stubs.ident))
    P.cover("find_package.package")


@contract("C14", "find_package.module_file_not_hidden", [FN], floor=2, replay="replay_file_trees")
def c_module_file(P):
    """One search path holding name.py (and possibly a bare directory of the same name): the module file is found."""
    FS.install(P)
    name = P.fresh_str("module_name")
    P.assume(z3.Not(z3.Contains(name.z, z3.StringVal("."))))
    P.assume(z3.Not(z3.SuffixOf(z3.StringVal("-stubs"), name.z)))
    p0 = FS.mk(z3.Int("sp0"))
    finder = SObj("ModuleFinder", {"search_paths": [p0]}, ident=z3.Int("finder_id"))
    P.opaque_hooks["new:Package"] = lambda P_, a, k: SObj("Package", {"name": a[0], "path": a[1], "stubs": a[2] if len(a) > 2 else k.get("stubs")}, ident=P_.new_ident())
    P.opaque_hooks["new:NamespacePackage"] = lambda P_, a, k: SObj("NamespacePackage", {"name": a[0], "path": a[1]}, ident=P_.new_ident())
    P.assume(FS.SUFFIX(FS.PATHSTR(name.z)) == z3.StringVal(""))
    P.assume(FS.SUFFIX(FS.PATHSTR(z3.Concat(name.z, z3.StringVal(".py")))) == z3.StringVal(".py"))
    pid = p0.ident
    D = FS.JOIN(pid, FS.PATHSTR(name.z))
    F = FS.JOIN(pid, FS.PATHSTR(z3.Concat(name.z, z3.StringVal(".py"))))
    INITPY = FS.JOIN(D, FS.PATHSTR(z3.StringVal("__init__.py")))
    INITPYI = FS.JOIN(D, FS.PATHSTR(z3.StringVal("__init__.pyi")))
    for child, parent in ((D, pid), (F, pid), (INITPY, D), (INITPYI, D)):
        P.assume(FS.DEPTH(child) == FS.DEPTH(parent) + 1)
    kind, res = outcome(P, lambda: call(P, FN, finder, name))
    pkgdir = z3.And(FS.IN_CONTENTS(pid, D), z3.Or(z3.And(FS.EXISTS(INITPY), z3.Not(FS.NS_STYLE(INITPY))), FS.EXISTS(INITPYI)))
    has_file = z3.And(FS.NONEMPTY(pid), FS.IN_CONTENTS(pid, F))
    if kind == "raise":
        P.prove("not_found_only_when_nothing_matches", z3.Not(z3.And(FS.NONEMPTY(pid), z3.Or(FS.IN_CONTENTS(pid, D), FS.IN_CONTENTS(pid, F)))))
        return
    rc = P.resolve_cls(res)
    if rc == "NamespacePackage":
        P.prove("namespace_only_when_no_module_file_and_no_init", z3.And(z3.Not(has_file), z3.Not(pkgdir)))
    else:
        P.prove("module_file_found_when_no_package_dir", z3.Implies(z3.And(has_file, z3.Not(pkgdir)), res.fields["path"].ident == F))
        P.prove("package_dir_takes_precedence", z3.Implies(z3.And(FS.NONEMPTY(pid), pkgdir), res.fields["path"].ident != F))
    P.cover("module_file." + rc)


def bounded_checks(tier, seed):
    import json, os, subprocess, time
    from pyvc.run import VERIF, VENV_PY, REPO_SRC
    t0 = time.time()
    n_random, budget = (150, 90) if tier == "quick" else (3000, 1200)
    r = subprocess.run([VENV_PY, "-m", "replay.C14", str(seed), str(n_random), str(budget)], capture_output=True, text=True, cwd=str(VERIF),
                       env=dict(os.environ, PYTHONPATH=str(REPO_SRC)), timeout=budget + 300)
    if r.returncode != 0:
        raise RuntimeError("bounded C14 sweep crashed: " + r.stderr[-1500:])
    d = json.loads(r.stdout.strip().splitlines()[-1])
    return [{"check": "file_trees", "tool": "generated file trees over two search paths; CPython's path-finder rules + pkgutil as oracle; os.walk / iterdir order permuted (asc, desc, shuffled); request by name and by path",
             "bound": f"7x7 top-level layouts with fixed inner trees + {n_random} random layouts (11 inner entries incl. stubs, sub-packages, __pycache__, nested namespace dirs, data files, a module file next to a same-named package) x 3 listing orders; 3 directed layouts with a sub-package and a module whose names start with two underscores; directed second-portion sub-packages; .pth additions against site.addsitedir; a package requested by path (str / Path) with no search path above it, 4 search-path configurations incl. a same-named package on a configured path",
             "cases": d["cases"], "failing": len(d["bad"]), "wall_s": round(time.time() - t0, 1), "class_match": True, "violations": d["bad"]}]


PARENT = z3.Function("PATH_PARENT", IntS, IntS)
STEM = z3.Function("PATH_STEM", IntS, StrS)
RELTO = z3.Function("PATH_RELATIVE_TO", IntS, IntS, IntS)
NPARTS = z3.Function("PATH_NPARTS", IntS, IntS)
PART = z3.Function("PATH_PART", IntS, IntS, StrS)
WITHNAME = z3.Function("PATH_WITH_NAME", IntS, StrS, IntS)
ITER = "_griffe.finder:ModuleFinder.iter_submodules"


def install_relpaths(P):
    FS.install(P)
    P.attr_hooks[("pathlib.Path", "stem")] = lambda P_, o: SStr(STEM(o.ident))
    P.attr_hooks[("pathlib.Path", "parent")] = lambda P_, o: FS.mk(PARENT(o.ident))

    def parts(P_, o):
        n = NPARTS(o.ident)
        P_.assume(n >= 1)
        return SSeq(SInt(n), lambda i, o=o: SStr(PART(o.ident, zint(i))), kind="tuple", tag="parts")
    P.attr_hooks[("pathlib.Path", "parts")] = parts
    P.attr_hooks[("pathlib.Path", "relative_to")] = lambda P_, o: BoundMethod(o, lambda P2, s, a, k: FS.mk(RELTO(o.ident, a[0].ident)))
    P.attr_hooks[("pathlib.Path", "with_name")] = lambda P_, o: BoundMethod(o, lambda P2, s, a, k: FS.mk(WITHNAME(o.ident, zstr(a[0]))))


@contract("C14", "iter_submodules.per_file", [ITER], floor=5, replay="replay_file_trees", split=16)
def c_iter_submodules(P):
    """One generic module file of a package directory, from an arbitrary set of already-claimed sub-package directories: a file under a claimed directory is
    skipped; the package's own __init__ yields nothing; a sub-package __init__ yields the sub-package (named by its directory parts) and claims that directory
    for later search paths; a .py file yields its dotted parts without suffix, any other module file its parts with the name cut at the first dot; exactly
    the file itself is reported; the set consulted for skipping is the one handed in -- it is not changed by the pass itself."""
    install_relpaths(P)
    exts = [".py", ".pyc", ".pyo", ".pyd", ".pyi", ".so"]
    finder = SObj("ModuleFinder", {"accepted_py_module_extensions": exts, "extensions_set": set(exts)}, ident=z3.Int("finder_id"), frozen=True)
    pkg = FS.mk(z3.Int("package_path"))
    files = sym_seq(P, "module_files", lambda i: FS.mk(z3.Function("MODULE_FILE", IntS, IntS)(zint(i))))
    P.opaque_hooks["_griffe.finder:ModuleFinder._filter_py_modules"] = lambda P_, a, k: files
    from pyvc.models import SymSet
    SEEN_HAS = z3.Function("ALREADY_CLAIMED", IntS, BoolS)
    seen_none = z3.Bool("seen_is_none")
    nseen = P.fresh_int("n_claimed")
    P.assume(nseen.z >= 0)
    claimed = SSeq(nseen, lambda i: FS.mk(z3.Function("CLAIMED_DIR", IntS, IntS)(zint(i))), tag="claimed", memfn=lambda P2, item: SEEN_HAS(item.ident))
    P.assume(z3.Implies(nseen.z == 0, z3.ForAll([z3.Int("d_")], z3.Not(SEEN_HAS(z3.Int("d_"))))))
    seen = None if P.branch(seen_none) else SymSet(items=[], parts=[claimed])
    yielded = []
    sizes = []

    def inv(P_, L, pre):
        sk = L["skip"] if L.has("skip") else None
        sizes.append(len(sk.items) if isinstance(sk, SymSet) else None)
        return z3.BoolVal(True)

    def post_body(P_, before, after):
        sub = after["subpath"]
        rel = RELTO(sub.ident, after["path"].ident)
        sk = after["skip"]
        in_skip = z3.And(z3.Not(seen_none), SEEN_HAS(PARENT(rel)))
        ys = list(P_.frame.yields or [])
        items = [y[1] for y in ys if y[0] == "item"]
        is_py = FS.SUFFIX(rel) == z3.StringVal(".py")
        stem = STEM(rel)
        cut = models.ufn("split1_2e_head", StrS, StrS)(stem)
        is_init = z3.If(is_py, stem == z3.StringVal("__init__"), z3.If(z3.Contains(stem, z3.StringVal(".")), cut == z3.StringVal("__init__"), stem == z3.StringVal("__init__")))
        top_init = z3.And(is_init, NPARTS(rel) == 1)
        P_.prove("a_file_under_a_claimed_directory_or_the_own_init_yields_nothing", z3.BoolVal(len(items) == 0) == z3.Or(in_skip, top_init), n=len(items))
        P_.prove("at_most_one_module_per_file", len(items) <= 1)
        if isinstance(sk, SymSet) and len(sizes) >= 2 and sizes[1] is not None:
            P_.prove("the_skip_set_of_the_pass_is_not_changed_by_the_pass", len(sk.items) == sizes[1], grew=len(sk.items) - sizes[1])
        if len(items) == 1:
            parts, path_ = items[0]
            P_.prove("the_file_itself_is_reported", path_ is sub)
            claimed_now = [x for x in (seen.items if isinstance(seen, SymSet) else [])]
            P_.prove("only_a_sub_package_init_claims_its_directory", z3.BoolVal(len(claimed_now) == 1) == z3.And(is_init, z3.Not(seen_none)) if seen is not None else z3.BoolVal(True))
            if claimed_now:
                P_.prove("the_claimed_directory_is_the_sub_package", claimed_now[0].ident.eq(PARENT(rel)))
        P_.frame.yields.clear() if P_.frame.yields else None
    P.loop_specs[(ITER, 1)] = dict(mode="inv", name="files", inv=inv, post_body=post_body,
                                   hints={"seen": lambda P_, nm: seen, "subpath": lambda P_, nm: None, "rel_subpath": lambda P_, nm: None, "py_file": lambda P_, nm: P_.fresh_bool(nm), "stem": lambda P_, nm: P_.fresh_str(nm)})
    P.assume(STEM(pkg.ident) != z3.StringVal("__init__"))
    P.assume(FS.SUFFIX(pkg.ident) == z3.StringVal(""))
    kind, res = outcome(P, lambda: call(P, ITER, finder, pkg, seen))
    if kind == "raise":
        P.prove("never_raises", False, exc=P.resolve_cls(res))
        return
    P.cover("iter_submodules")


# --------------------------------------------------------------------------- submodules(): load order
@contract("C14", "submodules.sort_key", ["_griffe.finder:_module_depth"], floor=1, replay="replay_file_trees")
def c_module_depth(P):
    """The sort key of ModuleFinder.submodules is the depth (number of name parts) alone, an integer.  With Python's stable sort this keeps, among entries
    of equal depth, the enumeration order of iter_submodules -- os.walk lists `pkg/x.py` with pkg's files before it descends into `pkg/x/`, so a sub-package
    `x/__init__.py` is loaded after a same-named module file `x.py` and wins, as it does for CPython.  A key that also looks at the path reorders them."""
    from pyvc.api import sym_seq
    PARTF = z3.Function("NAME_PART", IntS, StrS)
    parts = sym_seq(P, "name_parts", lambda i: SStr(PARTF(zint(i))), kind="tuple")
    path = SObj("pathlib.Path", {}, ident=z3.Int("file_id"), frozen=True)
    r = call(P, "_griffe.finder:_module_depth", (parts, path))
    is_int = isinstance(r, SInt) or isinstance(r, int)
    P.prove("the_key_is_an_integer", is_int, note=f"got {type(r).__name__}")
    if is_int:
        P.prove("the_key_is_the_number_of_name_parts", zint(r) == zint(parts.len))
    P.cover("module_depth")


TOPNAME = "_griffe.finder:ModuleFinder._top_module_name"


@contract("C14", "top_module_name.requested_directory_comes_first", [TOPNAME, "_griffe.finder:ModuleFinder.insert_search_path"], floor=2, replay="replay_file_trees",
          tier="BS", note="search path lists of length 0-2 (contents symbolic); the directory climb is havocked (no invariant needed for the clause), its termination is not proved")
def c_top_module_name(P):
    """A package requested by the path of its directory: when a configured search path lies above the directory nothing is added and the name is the first
    component below the FIRST such search path; otherwise the parent of the directory whose name is returned becomes the first search path (so that
    find_package, first match wins, finds that directory and not a same-named package on a configured path) unless it was configured already."""
    install_relpaths(P)
    ISDIR = z3.Function("IS_DIR", IntS, BoolS)
    RESOLVE = z3.Function("PATH_RESOLVE", IntS, IntS)
    NAME = z3.Function("PATH_NAME", IntS, StrS)
    UNDER = z3.Function("IS_UNDER", IntS, IntS, BoolS)
    P.attr_hooks[("pathlib.Path", "is_dir")] = lambda P_, o: BoundMethod(o, lambda P2, s_, a, k: SBool(ISDIR(o.ident)))
    P.attr_hooks[("pathlib.Path", "resolve")] = lambda P_, o: BoundMethod(o, lambda P2, s_, a, k: FS.mk(RESOLVE(o.ident)))
    named = []

    def name_of(P_, o):
        named.append(o)
        return SStr(NAME(o.ident))
    P.attr_hooks[("pathlib.Path", "name")] = name_of
    tried = []

    def relative_to(P_, o):
        def callm(P2, s_, a, k):
            tried.append((o, a[0]))
            if not P2.branch(UNDER(o.ident, a[0].ident)):
                raise PyExc(P2.mk_exc("ValueError", "not in the subpath"))
            return FS.mk(RELTO(o.ident, a[0].ident))
        return BoundMethod(o, callm)
    P.attr_hooks[("pathlib.Path", "relative_to")] = relative_to
    n = z3.Int("n_search_paths")
    P.assume(z3.And(n >= 0, n <= 2))
    k = 0 if P.branch(n == 0) else (1 if P.branch(n == 1) else 2)
    before = [FS.mk(z3.Int(f"search_path_{i}")) for i in range(k)]
    finder = SObj("ModuleFinder", {"search_paths": list(before)}, ident=z3.Int("finder_id"))
    request = FS.mk(z3.Int("requested_path"))
    q = TOPNAME
    P.loop_specs[(q, "test:parent_path.parent != parent_path and (parent_path.parent / '__init__.py').exists()")] = dict(
        mode="inv", name="climb", default_hint=lambda P_, nm, cur: FS.mk(P_.fresh_int(nm).z) if isinstance(cur, SObj) and P_.resolve_cls(cur) == "pathlib.Path" else None)
    kind, res = outcome(P, lambda: call(P, q, finder, request))
    P.prove("never_raises", kind == "ok", exc=(P.resolve_cls(res) if kind == "raise" else ""))
    if kind != "ok":
        return
    after = finder.fields["search_paths"]
    if not named:
        # returned from inside the search-path loop
        P.prove("a_search_path_above_the_request_adds_nothing", len(after) == len(before) and all(x is y for x, y in zip(after, before)))
        P.prove("the_first_search_path_above_the_request_decides", len(tried) >= 1 and all(t[1].ident.sexpr() in (RESOLVE(b.ident).sexpr(), b.ident.sexpr()) for t, b in zip(tried, before)),
                tried=len(tried))
        P.cover("top_module_name.under_a_search_path")
        return
    d = named[-1]
    x = RESOLVE(PARENT(d.ident))
    P.prove("every_search_path_was_tried_first", len(tried) == len(before), tried=len(tried))
    P.prove("the_returned_name_is_that_of_the_directory_whose_parent_is_added", zstr(res) == NAME(d.ident))
    P.prove("configured_search_paths_are_all_kept", all(any(y is b for y in after) for b in before) and len(after) <= len(before) + 1)
    P.prove("the_parent_of_the_requested_package_comes_first_unless_already_configured",
            z3.Or(*([after[0].ident == x] if after else []), *[b.ident == x for b in before]) if (after or before) else False)
    P.cover("top_module_name.added")


def lemmas(tier, seed):
    import ast as _ast
    from pyvc.source import SourceIndex
    idx = SourceIndex()
    idx.load_all()
    out = []
    try:
        mi, node, cls = idx.find_function("_griffe.finder:ModuleFinder.submodules")
    except Exception:  # noqa: BLE001
        node = None
    ok, detail = False, "ModuleFinder.submodules not found"
    if node is not None:
        rets = [n for n in _ast.walk(node) if isinstance(n, _ast.Return) and n.value is not None]
        detail = "submodules does not end in a single `return sorted(..., key=_module_depth)`"
        if len(rets) == 1 and isinstance(rets[0].value, _ast.Call) and isinstance(rets[0].value.func, _ast.Name) and rets[0].value.func.id == "sorted":
            kws = {k.arg: k.value for k in rets[0].value.keywords}
            ok = set(kws) == {"key"} and isinstance(kws["key"], _ast.Name) and kws["key"].id == "_module_depth"
            detail = ("submodules returns sorted(<enumeration>, key=_module_depth) with no reverse flag: a stable sort by the key proved in submodules.sort_key"
                      if ok else f"sorted() is called with {sorted(kws)}: the ordering argument must be revisited")
    # a side condition of the proof decomposition (where the proved key is used), not a clause of the property: another shape is undecided
    out.append({"name": "submodules_sorts_by_the_proved_key_only", "ok": ok, "on_fail": "undecided", "detail": detail})
    # .pth additions: the files are consumed in an order that does not depend on the listing (site sorts them by name)
    try:
        mi, node, cls = idx.find_function("_griffe.finder:ModuleFinder._extend_from_pth_files")
    except Exception:  # noqa: BLE001
        node = None
    ok2, detail2 = False, "ModuleFinder._extend_from_pth_files not found"
    if node is not None:
        loops_ = [n for n in _ast.walk(node) if isinstance(n, _ast.For) and any(isinstance(x, _ast.Attribute) and x.attr == "suffix" for x in _ast.walk(n))
                  and not any(isinstance(m, _ast.For) and any(isinstance(x, _ast.Attribute) and x.attr == "suffix" for x in _ast.walk(m)) for m in n.body)]
        detail2 = "no loop that filters the directory entries by suffix"
        if loops_:
            it = loops_[0].iter
            ok2 = isinstance(it, _ast.Call) and isinstance(it.func, _ast.Name) and it.func.id == "sorted" and not it.keywords
            detail2 = ("the entries of a search path are looked through in sorted order for .pth files (listing order cannot matter; same order as site.addsitedir)"
                       if ok2 else f"the .pth files are taken in the order of `{_ast.unparse(it)}`: listing-order independence must be re-argued")
    out.append({"name": "pth_files_are_handled_in_sorted_order", "ok": ok2, "on_fail": "undecided", "detail": detail2})
    return out
