"""C19 — merging stubs loses nothing and prefers stub types: contracts on merger.py."""
from __future__ import annotations

import z3

from pyvc.api import *  # noqa: F403
from pyvc.values import *  # noqa: F403
from pyvc import models
from specs.heap import Heap, OBJ_KINDS, ALL_KINDS

MG = "_griffe.merger:"

TRUSTED_BASE = [
    "per-member / per-parameter / per-overload effects are proved for one arbitrary (Skolem) element of the iterated collection; the engine also proves that no "
    "iteration can abort the loop, so the effect holds for every element",
    "SetMembersMixin.set_member / get_member are taken by contract (proved in C16); Alias.kind never raises (C06) but goes through final_target",
    "docstring truthiness is an uninterpreted boolean per docstring object",
]
ASSUMPTIONS = [
    "end-to-end equality of the merged tree for both file discovery orders and the three stub placements is a bounded native tier, never counted as proved",
]


def kinded(H, tag, kinds=OBJ_KINDS):
    o = H.obj(tag, kinds)
    return o


@contract("C19", "merge_stubs.symmetric_choice", [MG + "merge_stubs"], floor=3, replay="replay_stub_packages")
def c_merge_stubs(P):
    H = Heap(P)
    m1, m2 = H.obj("mod1", ["Module"]), H.obj("mod2", ["Module"])
    s1, s2 = P.fresh_str("suffix1"), P.fresh_str("suffix2")
    m1.fields["_filepath"] = SObj("pathlib.Path", {"suffix": s1}, frozen=True)
    m2.fields["_filepath"] = SObj("pathlib.Path", {"suffix": s2}, frozen=True)
    calls = []
    P.opaque_hooks[MG + "_merge_module_stubs"] = lambda P_, a, k: calls.append(a)
    kind, res = outcome(P, lambda: call(P, MG + "merge_stubs", m1, m2))
    pyi1, pyi2 = s1.z == z3.StringVal(".pyi"), s2.z == z3.StringVal(".pyi")
    P.witness.update(suffix1=s1, suffix2=s2)
    if kind == "raise":
        P.prove("ValueError_iff_no_stub", z3.And(z3.Not(pyi1), z3.Not(pyi2), P.resolve_cls(res) == "ValueError"))
        return
    P.prove("some_side_is_a_stub", z3.Or(pyi1, pyi2))
    P.prove("merges_exactly_once", len(calls) == 1)
    if len(calls) == 1:
        module, stubs = calls[0]
        P.prove("returns_the_runtime_module", res is module)
        P.prove("stub_side_is_the_pyi", z3.If(pyi1, stubs is m1 and module is m2, stubs is m2 and module is m1))
    P.cover("merge_stubs")


@contract("C19", "members.per_stub_member", [MG + "_merge_stubs_members"], floor=6, replay="replay_stub_packages", shard_bits=3)
def c_members(P):
    H = Heap(P)
    obj, stubs = H.obj("obj", ["Module", "Class"]), H.obj("stubs", ["Module", "Class"])
    i0 = z3.Int("stub_member_index")
    P.loop_specs[(MG + "_merge_stubs_members", 0)] = dict(mode="generic", index=i0, may_write=("runtime",))
    sm = P.getattr(stubs, "members")
    P.assume(z3.And(i0 >= 0, i0 < zint(sm.keys_seq.len)))
    name = sm.keys_seq.at(i0)
    stub_member = sm.get0(name)
    om = P.getattr(obj, "members")
    present = models.map_has(P, om, name)
    P.witness.update(member_present_at_runtime=SBool(present))
    obj_member = models.map_get(P, om, name) if P.branch(present) else None
    calls, sets, resolutions = [], [], []
    for fn in ("_merge_module_stubs", "_merge_class_stubs", "_merge_function_stubs", "_merge_attribute_stubs"):
        P.opaque_hooks[MG + fn] = (lambda f: lambda P_, a, k: calls.append((f, a)))(fn)
    P.opaque_hooks["_griffe.mixins:SetMembersMixin.set_member"] = lambda P_, a, k: sets.append(a)
    P.opaque_hooks["_griffe.mixins:GetMembersMixin.get_member"] = lambda P_, a, k: models.getitem(P_, P_.getattr(a[0], "members"), a[1])
    P.opaque_hooks["_griffe.models:Alias.resolve_target"] = lambda P_, a, k: resolutions.append(a[0])
    # imports.update(...) is outside the member loop
    obj.fields["imports"] = {}
    stubs.fields["imports"] = {}
    P.attr_hooks[("Object", "kind")] = lambda P_, o: P_.class_getattr(ClassRef(P_.resolve_cls(o)), "kind")
    kind, res = outcome(P, lambda: call(P, MG + "_merge_stubs_members", obj, stubs))
    P.prove("never_raises", kind == "ok", exc=(P.resolve_cls(res) if kind == "raise" else ""))
    if kind != "ok":
        return
    scls = P.resolve_cls(stub_member)
    ok = other = None
    if obj_member is None:
        P.prove("stub_only_member_is_added", len(sets) == 1 and sets[0][2] is stub_member and sets[0][0] is obj, sets=len(sets))
        rt = stub_member.fields.get("runtime")
        P.prove("stub_only_member_marked_unavailable_at_runtime", rt is False)
        P.prove("nothing_merged_for_stub_only_member", len(calls) == 0)
    else:
        P.prove("existing_member_is_never_replaced", len(sets) == 0, sets=len(sets))
        ocls = P.resolve_cls(obj_member)
        if scls == "Alias":
            P.prove("stub_alias_over_existing_member_is_skipped", len(calls) == 0)
        elif ocls == "Alias":
            # runtime-side alias: merged only through its (possibly unresolvable) final target's kind
            P.prove("at_most_one_merge", len(calls) <= 1)
        elif ocls != scls:
            P.prove("kind_mismatch_is_silent", len(calls) == 0, obj=ocls, stub=scls)
        else:
            exp = {"Module": "_merge_module_stubs", "Class": "_merge_class_stubs", "Function": "_merge_function_stubs", "Attribute": "_merge_attribute_stubs"}[ocls]
            P.prove("same_kind_members_are_merged_recursively", len(calls) == 1 and calls[0][0] == exp and calls[0][1][0] is obj_member and calls[0][1][1] is stub_member,
                    calls=str([c[0] for c in calls]))
    # frame: members of the runtime object are only ever added (via set_member), never deleted
    P.prove("no_member_deleted", all(w[1] is not models.DELETED for w in om.writes))
    P.cover("members")


@contract("C19", "function.annotations_from_stub", [MG + "_merge_function_stubs", MG + "_merge_stubs_docstring"], floor=4, replay="replay_stub_packages")
def c_function(P):
    H = Heap(P)
    fn, st = H.obj("fn", ["Function"]), H.obj("stub", ["Function"])
    namef = z3.Function("stub_param_name", IntS, StrS)
    annf = z3.Function("stub_param_ann", IntS, IntS)
    sp = sym_seq(P, "stub_params", lambda i: SObj("Parameter", {"name": SStr(namef(i)), "annotation": Opaque("ann", annf(i))}, ident=z3.Function("sp_id", IntS, IntS)(i), frozen=True))
    st.fields["parameters"] = SObj("Parameters", {"_params": sp}, frozen=True)
    in_fn = z3.Function("fn_has_param", StrS, BoolS)
    rt_params = {}

    def fn_getitem(P_, o, k):
        if not P_.branch(in_fn(zstr(k))):
            raise PyExc(P_.mk_exc("KeyError", k))
        key = zstr(k).sexpr()
        if key not in rt_params:
            rt_params[key] = (zstr(k), SObj("Parameter", {"name": k, "annotation": Opaque("rt_ann", z3.Int("rt_ann_" + str(len(rt_params))))}, ident=z3.Int("rtp_" + str(len(rt_params)))))
        return rt_params[key][1]
    fparams = SObj("Parameters", {}, ident=z3.Int("fn_params_id"))
    P.attr_hooks[("Parameters", "__getitem__")] = lambda P_, o, k: fn_getitem(P_, o, k) if o is fparams else (_ for _ in ()).throw(Unsupported("getitem"))
    fn.fields["parameters"] = fparams
    fn.fields["returns"] = Opaque("rt_returns", z3.Int("rt_returns_id"))
    st.fields["returns"] = opt(P, "stub_returns", lambda: Opaque("stub_returns", z3.Int("stub_returns_id")))
    doc_calls = []
    P.opaque_hooks[MG + "_merge_stubs_docstring"] = lambda P_, a, k: doc_calls.append(a)
    # the visitor attaches the overloads of a stub that also holds the implementation signature to that stub function
    stub_has_overloads = z3.Bool("stub_function_has_overloads")
    stub_overloads = [Opaque("stub_overload")]
    rt_overloads = None
    st.fields["overloads"] = stub_overloads if P.branch(stub_has_overloads) else (None if P.branch(z3.Bool("stub_overloads_none")) else [])
    fn.fields["overloads"] = rt_overloads
    i0 = z3.Int("param_index")
    P.assume(z3.And(i0 >= 0, i0 < zint(sp.len)))
    P.loop_specs[(MG + "_merge_function_stubs", 0)] = dict(mode="generic", index=i0, may_write=("annotation",))
    kind, res = outcome(P, lambda: call(P, MG + "_merge_function_stubs", fn, st))
    P.prove("never_raises", kind == "ok", exc=(P.resolve_cls(res) if kind == "raise" else ""))
    if kind != "ok":
        return
    P.prove("returns_taken_from_stub", fn.fields["returns"] is st.fields["returns"])
    P.prove("overload_list_of_the_stub_function_is_taken_when_it_has_one", z3.Implies(stub_has_overloads, fn.fields["overloads"] is stub_overloads))
    P.prove("runtime_overloads_kept_when_the_stub_has_none", z3.Implies(z3.Not(stub_has_overloads), fn.fields["overloads"] is rt_overloads))
    P.prove("docstring_merged_once", len(doc_calls) == 1 and doc_calls[0][0] is fn and doc_calls[0][1] is st)
    pname = namef(i0)
    for key, (zk, rp) in rt_params.items():
        if P.branch(zk == pname):
            P.prove("shared_parameter_takes_stub_annotation", P.identical(rp.fields["annotation"], sp.at(i0).fields["annotation"]))
    P.prove("shared_parameter_was_looked_up", z3.Implies(in_fn(pname), len(rt_params) >= 1))
    P.cover("function")


@contract("C19", "docstring.kept_unless_missing", [MG + "_merge_stubs_docstring"], floor=2, replay="replay_stub_packages")
def c_docstring(P):
    H = Heap(P)
    o, st = H.obj("o", OBJ_KINDS), H.obj("stub", OBJ_KINDS)

    def doc(tag):
        none = z3.Bool(tag + "_doc_none")
        d = SObj("Docstring", {}, ident=z3.Int(tag + "_doc_id"))
        P.attr_hooks[("Docstring", "__bool__")] = lambda P_, x: SBool(z3.Function("DOC_TRUTHY", IntS, BoolS)(x.ident))
        return SUnion([(none, None), (z3.Not(none), d)]), none, d
    od, o_none, o_doc = doc("o")
    sd, s_none, s_doc = doc("stub")
    o.fields["docstring"], st.fields["docstring"] = od, sd
    truthy = z3.Function("DOC_TRUTHY", IntS, BoolS)
    # `has_docstrings` (plural) also looks at the members: whether some member is documented is independent of the object's own docstring
    MEMBER_DOC = z3.Function("SOME_MEMBER_HAS_A_DOCSTRING", IntS, BoolS)
    P.attr_hooks[("Object", "has_docstrings")] = lambda P_, x: SBool(z3.Or(zbool(P_.getattr(x, "has_docstring")), MEMBER_DOC(x.ident)))
    kind, res = outcome(P, lambda: call(P, MG + "_merge_stubs_docstring", o, st))
    P.prove("never_raises", kind == "ok")
    runtime_has = z3.And(z3.Not(o_none), truthy(o_doc.ident))
    stub_has = z3.And(z3.Not(s_none), truthy(s_doc.ident))
    now = o.fields["docstring"]
    replaced = now is not od
    P.prove("runtime_docstring_kept_unless_missing", z3.Implies(runtime_has, not replaced))
    P.prove("stub_docstring_used_when_runtime_missing", z3.Implies(z3.And(z3.Not(runtime_has), stub_has), zbool(P.identical(now, s_doc))))
    P.cover("docstring")


@contract("C19", "attribute.annotation_from_stub", [MG + "_merge_attribute_stubs"], floor=1, replay="replay_stub_packages")
def c_attribute(P):
    H = Heap(P)
    a, st = H.obj("attr", ["Attribute"]), H.obj("stub", ["Attribute"])
    a.fields["annotation"] = Opaque("rt_ann", z3.Int("rt_ann"))
    st.fields["annotation"] = opt(P, "stub_ann", lambda: Opaque("stub_ann", z3.Int("stub_ann_id")))
    P.opaque_hooks[MG + "_merge_stubs_docstring"] = lambda P_, a_, k: None
    kind, res = outcome(P, lambda: call(P, MG + "_merge_attribute_stubs", a, st))
    P.prove("annotation_taken_from_stub", kind == "ok" and a.fields["annotation"] is st.fields["annotation"])


@contract("C19", "overloads.moved_when_non_empty", [MG + "_merge_stubs_overloads"], floor=3, replay="replay_stub_packages")
def c_overloads(P):
    H = Heap(P)
    obj, stubs = H.obj("obj", ["Module", "Class"]), H.obj("stubs", ["Module", "Class"])
    name = P.fresh_str("function_name")
    nonempty = z3.Bool("overloads_non_empty")
    ovl = [Opaque("overload")] if P.branch(nonempty) else []
    stubs.fields["overloads"] = {models._SymKey(name): ovl}
    # the runtime member of that name: a function, or an import of one (assigning to an alias goes through its final target, which may not resolve)
    target = H.obj("target_fn", ["Function", "Alias"])
    has = z3.Bool("runtime_has_function")

    def get_member(P_, a, k):
        if not P_.branch(has):
            raise PyExc(P_.mk_exc("KeyError", a[1]))
        return target
    P.opaque_hooks["_griffe.mixins:GetMembersMixin.get_member"] = get_member
    target.fields["overloads"] = None
    kind, res = outcome(P, lambda: call(P, MG + "_merge_stubs_overloads", obj, stubs))
    P.prove("never_raises", kind == "ok", exc=(P.resolve_cls(res) if kind == "raise" else ""))
    if kind != "ok":
        return
    if P.resolve_cls(target) == "Function":
        P.prove("overloads_attached_to_runtime_function", z3.Implies(z3.And(nonempty, has), target.fields["overloads"] is ovl))
        P.prove("empty_overload_list_not_attached", z3.Implies(z3.Not(nonempty), target.fields["overloads"] is None))
    P.prove("stub_side_entry_consumed", len(stubs.fields["overloads"]) == 0)
    P.cover("overloads")


def bounded_checks(tier, seed):
    import json, os, subprocess, time
    from pyvc.run import VERIF, VENV_PY, REPO_SRC
    t0 = time.time()
    budget = 120 if tier == "quick" else 900
    r = subprocess.run([VENV_PY, "-m", "replay.C19", str(budget)], capture_output=True, text=True, cwd=str(VERIF), env=dict(os.environ, PYTHONPATH=str(REPO_SRC)), timeout=budget + 300)
    if r.returncode != 0:
        raise RuntimeError("bounded C19 sweep crashed: " + r.stderr[-1500:])
    d = json.loads(r.stdout.strip().splitlines()[-1])
    return [{"check": "stub_packages", "tool": "generated (module, stubs) pairs loaded with the real loader; statement evaluated natively",
             "bound": "every combination of: runtime f (documented / undocumented / an unresolvable import / absent) x stub f (same kind / bare overloads / overloads + implementation "
                      "signature / attribute = kind mismatch / absent) x runtime class (documented / undocumented with a documented member / absent) x stub class (same / a function / "
                      "absent) x runtime and stub variables and imports; x 4 stub placements (sibling .pyi, __init__.pyi, -stubs package, sub-package with child modules) x 2 discovery orders",
             "cases": d["cases"], "failing": len(d["bad"]), "wall_s": round(time.time() - t0, 1), "violations": d["bad"]}]
