"""C11 — API diff frontier: contracts on diff._member_incompatibilities / _type_based_yield / _alias_ / _class_ / _attribute_incompatibilities."""
from __future__ import annotations

import z3

from pyvc.api import *  # noqa: F403
from pyvc.values import *  # noqa: F403
from pyvc import models, loops
from specs.heap import Heap, OBJ_KINDS, ALL_KINDS

DF = "_griffe.diff:"

TRUSTED_BASE = [
    "is_public is an uninterpreted boolean per object here; it is proved equal to the documented decision table in C01",
    "one arbitrary (Skolem) member per loop; the engine proves that no iteration raises, so the per-member rule holds for every member; the rule over the "
    "whole member tree is the fold of the per-member rules (induction on the tree, modular recursion through the callee contracts)",
    "Alias.target raises only AliasResolutionError / CyclicAliasError (C06)",
]
ASSUMPTIONS = [
    "silence on identical / compatible packages and reporting against a public path for re-exports and inherited members are decided by the bounded native tier "
    "(generated packages x edit catalogue), never counted as proved",
]


def classes(items):
    return [o.cls if isinstance(o, SObj) else o for o in items]


def breakage_hook(P):
    for b in ("ObjectRemovedBreakage", "ObjectChangedKindBreakage", "ClassRemovedBaseBreakage", "AttributeChangedValueBreakage"):
        P.opaque_hooks["new:" + b] = (lambda bn: lambda P_, a, k: SObj(bn, {"obj": a[0], "old_value": a[1], "new_value": a[2]}, ident=P_.new_ident()))(b)


def install_public(P):
    PUB = z3.Function("IS_PUBLIC", IntS, BoolS)
    P.attr_hooks[("ObjectAliasMixin", "is_public")] = lambda P_, o: SBool(PUB(o.ident))
    return PUB


@contract("C11", "members.per_old_member", [DF + "_member_incompatibilities"], floor=5, replay="replay_edit_scripts", shard_bits=2)
def c_members(P):
    H = Heap(P)
    breakage_hook(P)
    PUB = install_public(P)
    old, new = H.obj("old", ["Module", "Class"]), H.obj("new", ["Module", "Class"])
    old_all, _ = H.smap("old_all_members", lambda k: H.obj(f"old.am[{zstr(k).sexpr()[:20]}]"), iterable=True)
    new_all, new_has = H.smap("new_all_members", lambda k: H.obj(f"new.am[{zstr(k).sexpr()[:20]}]"))
    P.attr_hooks[("ObjectAliasMixin", "all_members")] = lambda P_, o: old_all if o is old else (new_all if o is new else (_ for _ in ()).throw(Unsupported("all_members")))
    calls = []
    P.opaque_hooks[DF + "_type_based_yield"] = lambda P_, a, k: (calls.append((a, k)), [Opaque("delegated")])[1]
    kind, res = outcome(P, lambda: call(P, DF + "_member_incompatibilities", old, new, seen_paths=models.SymSet()))
    P.prove("never_raises_before_iterating", kind == "ok", exc=str(res))
    if kind != "ok" or not isinstance(res, loops.SCat):
        raise Unsupported("expected a flat-map summary")
    flat = [p for p in res.parts if isinstance(p, tuple)][0][0]
    i = z3.Int("member_index")
    P.assume(z3.And(i >= 0, i < zint(old_all.keys_seq.len)))
    name = old_all.keys_seq.at(i)
    member = old_all.get0(name)
    k2, items = outcome(P, lambda: flat.items_at(P, i)["yield"])
    P.prove("an_iteration_never_raises", k2 == "ok", exc=(P.resolve_cls(items) if k2 == "raise" else ""))
    if k2 != "ok":
        return
    flat_items = []
    for it in items:
        if isinstance(it, tuple) and it and it[0] == "from":
            flat_items.extend(P.to_seq(it[1]))
        else:
            flat_items.append(it)
    public = PUB(member.ident)
    present = new_has(zstr(name))
    cl = classes(flat_items)
    P.prove("non_public_members_are_never_reported", z3.Implies(z3.Not(public), len(flat_items) == 0), items=str(cl))
    P.prove("removed_public_member_is_always_reported", z3.Implies(z3.And(public, z3.Not(present)), cl == ["ObjectRemovedBreakage"]), items=str(cl))
    if cl == ["ObjectRemovedBreakage"]:
        P.prove("removal_reported_against_the_removed_object", flat_items[0].fields["obj"] is member)
        P.prove("removal_only_when_missing", z3.And(public, z3.Not(present)))
    P.prove("present_public_member_is_compared", z3.Implies(z3.And(public, present), len(calls) == 1 and len(flat_items) == 1 and isinstance(flat_items[0], Opaque)), calls=len(calls))
    if calls:
        (a, k) = calls[0]
        P.prove("compared_with_the_same_named_new_member", a[0] is member and a[1] is new_all.get0(name))
    P.cover("members")


@contract("C11", "type_based_yield.dispatch", [DF + "_type_based_yield"], floor=6, replay="replay_edit_scripts", shard_bits=3)
def c_dispatch(P):
    H = Heap(P)
    breakage_hook(P)
    old, new = H.obj("old", ALL_KINDS), H.obj("new", ALL_KINDS)
    calls = []
    for fn in ("_alias_incompatibilities", "_member_incompatibilities", "_class_incompatibilities", "_function_incompatibilities", "_attribute_incompatibilities"):
        P.opaque_hooks[DF + fn] = (lambda f: lambda P_, a, k: (calls.append((f, a, k)), [Opaque("delegated:" + f)])[1])(fn)
    P.attr_hooks[("Object", "kind")] = lambda P_, o: P_.class_getattr(ClassRef(P_.resolve_cls(o)), "kind")
    seen = models.SymSet()
    already = z3.Bool("old_path_already_seen")
    if P.branch(already):
        seen.items.append(SStr(H.path_of(old)))
    n_seen = len(seen.items)
    kind, res = outcome(P, lambda: call(P, DF + "_type_based_yield", old, new, seen_paths=seen))
    P.prove("never_raises", kind == "ok", exc=(P.resolve_cls(res) if kind == "raise" else ""))
    if kind != "ok":
        return
    items = list(P.to_seq(res))
    oc, nc = P.resolve_cls(old), P.resolve_cls(new)
    if n_seen:
        P.prove("seen_paths_prevent_re_entry", len(items) == 0 and len(calls) == 0)
        return
    P.prove("path_recorded_before_descending", any(isinstance(x, SStr) and x.z.sexpr() == H.path_of(old).sexpr() for x in seen.items))
    cl = classes(items)
    if oc == "Alias" or nc == "Alias":
        P.prove("aliases_are_compared_through_their_targets", [c[0] for c in calls] == ["_alias_incompatibilities"], calls=str([c[0] for c in calls]))
    elif oc != nc:
        P.prove("kind_change_is_always_reported", cl == ["ObjectChangedKindBreakage"] and items[0].fields["obj"] is new, items=str(cl))
    else:
        exp = {"Module": "_member_incompatibilities", "Class": "_class_incompatibilities", "Function": "_function_incompatibilities", "Attribute": "_attribute_incompatibilities"}[oc]
        P.prove("same_kind_objects_are_compared_by_kind", [c[0] for c in calls] == [exp] and calls[0][1][0] is old and calls[0][1][1] is new, calls=str([c[0] for c in calls]))
    P.cover("dispatch")


@contract("C11", "alias.unresolvable_is_skipped", [DF + "_alias_incompatibilities"], floor=3, replay="replay_edit_scripts")
def c_alias(P):
    H = Heap(P)
    old, new = H.obj("old", ALL_KINDS), H.obj("new", ALL_KINDS)
    calls = []
    P.opaque_hooks[DF + "_type_based_yield"] = lambda P_, a, k: (calls.append(a), [Opaque("delegated")])[1]

    def target(P_, o):
        oc = z3.Int(P_._fresh_name(getattr(o, "tag", "o") + "_target_outcome"))
        P_.assume(z3.And(oc >= 0, oc <= 2))
        if P_.branch(oc == 0):
            return H.obj(getattr(o, "tag", "o") + ".tgt", ALL_KINDS)
        if P_.branch(oc == 1):
            raise PyExc(SObj("AliasResolutionError", {"args": (o,), "alias": o}))
        raise PyExc(SObj("CyclicAliasError", {"args": ([],), "chain": []}))
    P.attr_hooks[("Alias", "target")] = target
    kind, res = outcome(P, lambda: call(P, DF + "_alias_incompatibilities", old, new, seen_paths=models.SymSet()))
    P.prove("unresolvable_or_cyclic_re_exports_never_abort_the_comparison", kind == "ok", exc=(P.resolve_cls(res) if kind == "raise" else ""))
    if kind != "ok":
        return
    items = list(P.to_seq(res))
    P.prove("at_most_one_delegation", len(calls) <= 1 and len(items) <= 1)
    if calls:
        a = calls[0]
        oc, nc = P.resolve_cls(old), P.resolve_cls(new)
        P.prove("non_alias_side_is_compared_as_is", (oc == "Alias" or a[0] is old) and (nc == "Alias" or a[1] is new))
    P.cover("alias")


@contract("C11", "class.removed_base", [DF + "_class_incompatibilities"], floor=2, replay="replay_edit_scripts")
def c_class(P):
    H = Heap(P)
    breakage_hook(P)
    old, new = H.obj("old", ["Class"]), H.obj("new", ["Class"])
    f1, f2 = z3.Function("old_base", IntS, IntS), z3.Function("new_base", IntS, IntS)
    ob = sym_seq(P, "old_bases", lambda i: Opaque("base", f1(i)))
    nb = sym_seq(P, "new_bases", lambda i: Opaque("base", f2(i)))
    old.fields["bases"], new.fields["bases"] = ob, nb
    eqv = z3.Bool("bases_lists_equal")
    orig_eq = P.eq

    def eq(a, b):
        if (a is ob and b is nb) or (a is nb and b is ob):
            P.assume(z3.Implies(eqv, zint(ob.len) == zint(nb.len)))
            return eqv
        return orig_eq(a, b)
    P.eq = eq
    calls = []
    P.opaque_hooks[DF + "_member_incompatibilities"] = lambda P_, a, k: (calls.append(a), [Opaque("delegated")])[1]
    kind, res = outcome(P, lambda: call(P, DF + "_class_incompatibilities", old, new, seen_paths=models.SymSet()))
    P.prove("never_raises", kind == "ok", exc=str(res))
    if kind != "ok":
        return
    items = list(P.to_seq(res))
    cl = classes(items)
    fewer = zint(nb.len) < zint(ob.len)
    P.prove("removing_a_base_class_is_always_reported", z3.Implies(fewer, "ClassRemovedBaseBreakage" in cl), items=str(cl))
    P.prove("base_breakage_only_when_bases_were_removed", z3.Implies("ClassRemovedBaseBreakage" in cl, fewer))
    P.prove("members_are_always_compared", len(calls) == 1 and calls[0][0] is old and calls[0][1] is new)
    P.cover("class")


@contract("C11", "attribute.changed_value", [DF + "_attribute_incompatibilities"], floor=2, replay="replay_edit_scripts")
def c_attribute(P):
    H = Heap(P)
    breakage_hook(P)
    old, new = H.obj("old", ["Attribute"]), H.obj("new", ["Attribute"])
    ov = opt(P, "old_value", lambda: P.fresh_str("old_value_text"))
    nv = opt(P, "new_value", lambda: P.fresh_str("new_value_text"))
    old.fields["value"], new.fields["value"] = ov, nv
    kind, res = outcome(P, lambda: call(P, DF + "_attribute_incompatibilities", old, new))
    P.prove("never_raises", kind == "ok", exc=str(res))
    if kind != "ok":
        return
    items = list(P.to_seq(res))
    differ = z3.Not(zbool(P.eq(ov, nv)))
    P.prove("changed_value_is_always_reported", differ == (classes(items) == ["AttributeChangedValueBreakage"]), items=str(classes(items)))
    P.prove("same_value_is_silent", z3.Implies(z3.Not(differ), len(items) == 0))
    if items:
        P.prove("reported_against_the_new_attribute", items[0].fields["obj"] is new)
    P.cover("attribute")


def bounded_checks(tier, seed):
    import json, os, subprocess, time
    from pyvc.run import VERIF, VENV_PY, REPO_SRC
    t0 = time.time()
    r = subprocess.run([VENV_PY, "-m", "replay.C11", "200"], capture_output=True, text=True, cwd=str(VERIF), env=dict(os.environ, PYTHONPATH=str(REPO_SRC)), timeout=600)
    if r.returncode != 0:
        raise RuntimeError("bounded C11 sweep crashed: " + r.stderr[-1500:])
    d = json.loads(r.stdout.strip().splitlines()[-1])
    return [{"check": "edit_scripts", "tool": "fixture package (re-exports via __all__, wildcard, private modules, inheritance through a private base) x catalogue of compatible and "
             "incompatible edits; real loader + find_breaking_changes", "bound": "24 two-version histories + cyclic re-export", "cases": d["cases"], "failing": len(d["bad"]),
             "wall_s": round(time.time() - t0, 1), "violations": d["bad"]}]
