"""C11 — API diff frontier: contracts on diff._member_incompatibilities / _type_based_yield / _alias_ / _class_ / _attribute_incompatibilities."""
from __future__ import annotations

import z3

from pyvc.api import *  # noqa: F403
from pyvc.values import *  # noqa: F403
from pyvc import models, loops
from specs.heap import Heap, OBJ_KINDS, ALL_KINDS

DF = "_griffe.diff:"

TRUSTED_BASE = [
    "is_public is an uninterpreted boolean per object here; it is proved equal to the documented decision table in C01",
    "one arbitrary (Skolem) member per loop; the engine proves that no iteration raises, so the per-member rule holds for every member; the rule over the "
    "whole member tree is the fold of the per-member rules (induction on the tree, modular recursion through the callee contracts)",
    "Alias.target raises only AliasResolutionError / CyclicAliasError (C06)",
]
ASSUMPTIONS = [
    "silence on identical / compatible packages and reporting against a public path for re-exports and inherited members are decided by the bounded native tier "
    "(generated packages x edit catalogue), never counted as proved",
]


def classes(items):
    return [o.cls if isinstance(o, SObj) else o for o in items]


def breakage_hook(P):
    for b in ("ObjectRemovedBreakage", "ObjectChangedKindBreakage", "ClassRemovedBaseBreakage", "AttributeChangedValueBreakage"):
        P.opaque_hooks["new:" + b] = (lambda bn: lambda P_, a, k: SObj(bn, {"obj": a[0], "old_value": a[1], "new_value": a[2]}, ident=P_.new_ident()))(b)


def install_public(P):
    PUB = z3.Function("IS_PUBLIC", IntS, BoolS)
    P.attr_hooks[("ObjectAliasMixin", "is_public")] = lambda P_, o: SBool(PUB(o.ident))
    return PUB


@contract("C11", "members.per_old_member", [DF + "_member_incompatibilities"], floor=5, replay="replay_edit_scripts", shard_bits=2)
def c_members(P):
    H = Heap(P)
    breakage_hook(P)
    PUB = install_public(P)
    old, new = H.obj("old", ["Module", "Class"]), H.obj("new", ["Module", "Class"])
    old_all, _ = H.smap("old_all_members", lambda k: H.obj(f"old.am[{zstr(k).sexpr()[:20]}]"), iterable=True)
    new_all, new_has = H.smap("new_all_members", lambda k: H.obj(f"new.am[{zstr(k).sexpr()[:20]}]"))
    P.attr_hooks[("ObjectAliasMixin", "all_members")] = lambda P_, o: old_all if o is old else (new_all if o is new else (_ for _ in ()).throw(Unsupported("all_members")))
    calls = []
    P.opaque_hooks[DF + "_type_based_yield"] = lambda P_, a, k: (calls.append((a, k)), [Opaque("delegated")])[1]
    # the paths already compared on the way here: an arbitrary set (what is removed must be reported whatever was seen before)
    seen = models.SymSet(items=[], parts=[sym_seq(P, "seen_paths", lambda i: SStr(z3.Function("SEEN_PATH", IntS, StrS)(zint(i))))])
    kind, res = outcome(P, lambda: call(P, DF + "_member_incompatibilities", old, new, seen_paths=seen))
    P.prove("never_raises_before_iterating", kind == "ok", exc=str(res))
    if kind != "ok" or not isinstance(res, loops.SCat):
        raise Unsupported("expected a flat-map summary")
    flat = [p for p in res.parts if isinstance(p, tuple)][0][0]
    i = z3.Int("member_index")
    P.assume(z3.And(i >= 0, i < zint(old_all.keys_seq.len)))
    name = old_all.keys_seq.at(i)
    member = old_all.get0(name)
    k2, items = outcome(P, lambda: flat.items_at(P, i)["yield"])
    P.prove("an_iteration_never_raises", k2 == "ok", exc=(P.resolve_cls(items) if k2 == "raise" else ""))
    if k2 != "ok":
        return
    flat_items = []
    for it in items:
        if isinstance(it, tuple) and it and it[0] == "from":
            flat_items.extend(P.to_seq(it[1]))
        else:
            flat_items.append(it)
    public = PUB(member.ident)
    present = new_has(zstr(name))
    cl = classes(flat_items)
    P.prove("non_public_members_are_never_reported", z3.Implies(z3.Not(public), len(flat_items) == 0), items=str(cl))
    P.prove("removed_public_member_is_always_reported", z3.Implies(z3.And(public, z3.Not(present)), cl == ["ObjectRemovedBreakage"]), items=str(cl))
    if cl == ["ObjectRemovedBreakage"]:
        P.prove("removal_reported_against_the_removed_object", flat_items[0].fields["obj"] is member)
        P.prove("removal_only_when_missing", z3.And(public, z3.Not(present)))
    P.prove("present_public_member_is_compared", z3.Implies(z3.And(public, present), len(calls) == 1 and len(flat_items) == 1 and isinstance(flat_items[0], Opaque)), calls=len(calls))
    if calls:
        (a, k) = calls[0]
        P.prove("compared_with_the_same_named_new_member", a[0] is member and a[1] is new_all.get0(name))
    P.cover("members")


@contract("C11", "type_based_yield.dispatch", [DF + "_type_based_yield"], floor=6, replay="replay_edit_scripts", shard_bits=3)
def c_dispatch(P):
    H = Heap(P)
    breakage_hook(P)
    old, new = H.obj("old", ALL_KINDS), H.obj("new", ALL_KINDS)
    calls = []
    for fn in ("_alias_incompatibilities", "_member_incompatibilities", "_class_incompatibilities", "_function_incompatibilities", "_attribute_incompatibilities"):
        P.opaque_hooks[DF + fn] = (lambda f: lambda P_, a, k: (calls.append((f, a, k)), [Opaque("delegated:" + f)])[1])(fn)
    P.attr_hooks[("Object", "kind")] = lambda P_, o: P_.class_getattr(ClassRef(P_.resolve_cls(o)), "kind")
    seen = models.SymSet()
    already = z3.Bool("old_path_already_seen")
    if P.branch(already):
        seen.items.append(SStr(H.path_of(old)))
    n_seen = len(seen.items)
    kind, res = outcome(P, lambda: call(P, DF + "_type_based_yield", old, new, seen_paths=seen))
    P.prove("never_raises", kind == "ok", exc=(P.resolve_cls(res) if kind == "raise" else ""))
    if kind != "ok":
        return
    items = list(P.to_seq(res))
    oc, nc = P.resolve_cls(old), P.resolve_cls(new)
    if n_seen:
        P.prove("seen_paths_prevent_re_entry", len(items) == 0 and len(calls) == 0)
        return
    P.prove("path_recorded_before_descending", any(isinstance(x, SStr) and x.z.sexpr() == H.path_of(old).sexpr() for x in seen.items))
    cl = classes(items)
    if oc == "Alias" or nc == "Alias":
        P.prove("aliases_are_compared_through_their_targets", [c[0] for c in calls] == ["_alias_incompatibilities"], calls=str([c[0] for c in calls]))
    elif oc != nc:
        P.prove("kind_change_is_always_reported", cl == ["ObjectChangedKindBreakage"] and items[0].fields["obj"] is new, items=str(cl))
    else:
        exp = {"Module": "_member_incompatibilities", "Class": "_class_incompatibilities", "Function": "_function_incompatibilities", "Attribute": "_attribute_incompatibilities"}[oc]
        P.prove("same_kind_objects_are_compared_by_kind", [c[0] for c in calls] == [exp] and calls[0][1][0] is old and calls[0][1][1] is new, calls=str([c[0] for c in calls]))
    P.cover("dispatch")


@contract("C11", "alias.unresolvable_is_skipped", [DF + "_alias_incompatibilities"], floor=3, replay="replay_edit_scripts")
def c_alias(P):
    H = Heap(P)
    old, new = H.obj("old", ALL_KINDS), H.obj("new", ALL_KINDS)
    calls = []
    P.opaque_hooks[DF + "_type_based_yield"] = lambda P_, a, k: (calls.append(a), [Opaque("delegated")])[1]

    def target(P_, o):
        oc = z3.Int(P_._fresh_name(getattr(o, "tag", "o") + "_target_outcome"))
        P_.assume(z3.And(oc >= 0, oc <= 2))
        if P_.branch(oc == 0):
            return H.obj(getattr(o, "tag", "o") + ".tgt", ALL_KINDS)
        if P_.branch(oc == 1):
            raise PyExc(SObj("AliasResolutionError", {"args": (o,), "alias": o}))
        raise PyExc(SObj("CyclicAliasError", {"args": ([],), "chain": []}))
    P.attr_hooks[("Alias", "target")] = target
    kind, res = outcome(P, lambda: call(P, DF + "_alias_incompatibilities", old, new, seen_paths=models.SymSet()))
    P.prove("unresolvable_or_cyclic_re_exports_never_abort_the_comparison", kind == "ok", exc=(P.resolve_cls(res) if kind == "raise" else ""))
    if kind != "ok":
        return
    items = list(P.to_seq(res))
    P.prove("at_most_one_delegation", len(calls) <= 1 and len(items) <= 1)
    if calls:
        a = calls[0]
        oc, nc = P.resolve_cls(old), P.resolve_cls(new)
        P.prove("non_alias_side_is_compared_as_is", (oc == "Alias" or a[0] is old) and (nc == "Alias" or a[1] is new))
    P.cover("alias")


@contract("C11", "class.removed_base", [DF + "_class_incompatibilities"], floor=3, replay="replay_edit_scripts", tier="BS",
          note="base lists of 0..2 entries on either side; which bases are equal is symbolic")
def c_class(P):
    """A base class is removed when it is no longer among the bases of the new class -- whether or not another base was added in its place; that, and only
    that, is reported as a removed base (re-ordering the same bases is not); the members of the two classes are compared in every case."""
    H = Heap(P)
    breakage_hook(P)
    old, new = H.obj("old", ["Class"]), H.obj("new", ["Class"])
    n_old, n_new = z3.Int("n_old_bases"), z3.Int("n_new_bases")
    P.assume(z3.And(n_old >= 0, n_old <= 2, n_new >= 0, n_new <= 2))
    lo = next(k for k in range(3) if P.branch(n_old == k) or k == 2)
    ln = next(k for k in range(3) if P.branch(n_new == k) or k == 2)
    # a base expression is identified by an integer: equal integers = the same base (expressions compare structurally)
    ob = [SInt(z3.Int(f"old_base_{i}")) for i in range(lo)]
    nb = [SInt(z3.Int(f"new_base_{i}")) for i in range(ln)]
    if lo == 2:
        P.assume(ob[0].z != ob[1].z)        # a class cannot list the same base twice
    if ln == 2:
        P.assume(nb[0].z != nb[1].z)
    old.fields["bases"], new.fields["bases"] = ob, nb
    calls = []
    P.opaque_hooks[DF + "_member_incompatibilities"] = lambda P_, a, k: (calls.append(a), [Opaque("delegated")])[1]
    kind, res = outcome(P, lambda: call(P, DF + "_class_incompatibilities", old, new, seen_paths=models.SymSet()))
    P.prove("never_raises", kind == "ok", exc=str(res))
    if kind != "ok":
        return
    items = list(P.to_seq(res))
    cl = classes(items)
    removed = z3.Or(*[z3.And(*[o.z != n.z for n in nb]) for o in ob]) if ob else z3.BoolVal(False)
    reported = "ClassRemovedBaseBreakage" in cl
    P.prove("removing_a_base_class_is_always_reported", z3.Implies(removed, reported), items=str(cl))
    P.prove("base_breakage_only_when_a_base_was_removed", z3.Implies(z3.BoolVal(reported), removed))
    P.prove("members_are_always_compared", len(calls) == 1 and calls[0][0] is old and calls[0][1] is new)
    P.cover("class")


@contract("C11", "attribute.changed_value", [DF + "_attribute_incompatibilities"], floor=2, replay="replay_edit_scripts")
def c_attribute(P):
    H = Heap(P)
    breakage_hook(P)
    old, new = H.obj("old", ["Attribute"]), H.obj("new", ["Attribute"])
    ov = opt(P, "old_value", lambda: P.fresh_str("old_value_text"))
    nv = opt(P, "new_value", lambda: P.fresh_str("new_value_text"))
    old.fields["value"], new.fields["value"] = ov, nv
    kind, res = outcome(P, lambda: call(P, DF + "_attribute_incompatibilities", old, new))
    P.prove("never_raises", kind == "ok", exc=str(res))
    if kind != "ok":
        return
    items = list(P.to_seq(res))
    differ = z3.Not(zbool(P.eq(ov, nv)))
    P.prove("changed_value_is_always_reported", differ == (classes(items) == ["AttributeChangedValueBreakage"]), items=str(classes(items)))
    P.prove("same_value_is_silent", z3.Implies(z3.Not(differ), len(items) == 0))
    if items:
        P.prove("reported_against_the_new_attribute", items[0].fields["obj"] is new)
    P.cover("attribute")


def bounded_checks(tier, seed):
    import json, os, subprocess, time
    from pyvc.run import VERIF, VENV_PY, REPO_SRC
    t0 = time.time()
    r = subprocess.run([VENV_PY, "-m", "replay.C11", "200"], capture_output=True, text=True, cwd=str(VERIF), env=dict(os.environ, PYTHONPATH=str(REPO_SRC)), timeout=600)
    if r.returncode != 0:
        raise RuntimeError("bounded C11 sweep crashed: " + r.stderr[-1500:])
    d = json.loads(r.stdout.strip().splitlines()[-1])
    out = [{"check": "edit_scripts", "tool": "fixture package (re-exports via __all__, wildcard, private modules, inheritance through a private base) x catalogue of compatible and "
            "incompatible edits; real loader + find_breaking_changes", "bound": "24 two-version histories + cyclic re-export", "cases": d["cases"], "failing": len(d["bad"]),
            "wall_s": round(time.time() - t0, 1), "violations": d["bad"]}]
    t0 = time.time()
    n, budget = (600, 60) if tier == "quick" else (20000, 600)
    r = subprocess.run([VENV_PY, "-m", "replay.C11", "random", str(seed), str(n), str(budget)], capture_output=True, text=True, cwd=str(VERIF),
                       env=dict(os.environ, PYTHONPATH=str(REPO_SRC)), timeout=budget + 300)
    if r.returncode != 0:
        raise RuntimeError("bounded C11 random histories crashed: " + r.stderr[-1500:])
    d = json.loads(r.stdout.strip().splitlines()[-1])
    out.append({"check": "histories.random", "tool": "generated packages (public / private modules, every module with __all__, re-exports and mere imports in the package __init__, "
                "classes with bases and members) x one edit at a random public or private location; expectation from the edit's own semantics",
                "bound": f"<= {n} two-version histories (time box {budget} s): remove / re-kind / change value / remove base / remove or change a member / add an object / add an "
                         "optional keyword parameter / change a private member", "cases": d["cases"], "failing": len(d["bad"]), "wall_s": round(time.time() - t0, 1), "violations": d["bad"]})
    return out


@contract("C11", "cli.check.exit_code", ["_griffe.cli:check"], floor=3, replay="replay_edit_scripts")
def c_cli_check(P):
    """`griffe check` exits 1 exactly when find_breaking_changes reports something (0 otherwise), 2 when the reference to compare with cannot be determined,
    and compares the package loaded from the reference with the current one (or with the one at --base-ref)."""
    calls = []
    nb = P.fresh_int("n_breakages")
    P.assume(nb.z >= 0)
    breakages = SSeq(nb, lambda i: SObj("Breakage", {}, ident=z3.Function("BREAKAGE", IntS, IntS)(zint(i)), frozen=True), tag="breakages")
    P.attr_hooks[("Breakage", "explain")] = lambda P_, o: BoundMethod(o, lambda P__, s_, a, k: P__.fresh_str("explanation"))
    tag_fails = z3.Bool("no_latest_tag")
    ext_fails = z3.Bool("extensions_fail")

    def latest_tag(P_, a, k):
        if P_.branch(tag_fails):
            raise PyExc(SObj("GitError", {"args": ("no tag",)}))
        return P_.fresh_str("latest_tag")
    P.opaque_hooks["_griffe.cli:get_latest_tag"] = latest_tag
    P.opaque_hooks["_griffe.cli:get_repo_root"] = lambda P_, a, k: P_.fresh_str("repo_root")

    def load_ext(P_, a, k):
        if P_.branch(ext_fails):
            raise PyExc(SObj("ExtensionError", {"args": ("bad",)}))
        return Opaque("extensions")
    P.opaque_hooks["_griffe.cli:load_extensions"] = load_ext
    old_pkg, new_git, new_cur = Opaque("old_package", z3.IntVal(1)), Opaque("new_package_at_base_ref", z3.IntVal(2)), Opaque("new_package_current", z3.IntVal(3))

    def load_git(P_, a, k):
        calls.append(("load_git", k.get("ref"), k.get("resolve_aliases")))
        return old_pkg if len([c for c in calls if c[0] == "load_git"]) == 1 else new_git
    P.opaque_hooks["_griffe.cli:load_git"] = load_git
    P.opaque_hooks["_griffe.cli:load"] = lambda P_, a, k: (calls.append(("load", None, k.get("resolve_aliases"))), new_cur)[1]

    def fbc(P_, a, k):
        calls.append(("compare", a[0], a[1]))
        return breakages
    P.opaque_hooks["_griffe.cli:find_breaking_changes"] = fbc
    gv = P.ghost.setdefault("global_values", {})
    gv["_griffe.cli:colorama"] = Opaque("lenient:colorama")
    gv["_griffe.cli:logger"] = Opaque("lenient:logger")
    P.opaque_hooks["os.getenv"] = lambda P_, a, k: opt(P_, "force_color", lambda: P_.fresh_str("force_color_value"))
    P.opaque_hooks["builtin:print"] = lambda P_, a, k: None
    i0 = z3.Int("i_breakage")
    P.loop_specs[("_griffe.cli:check", 0)] = dict(mode="generic", index=i0)
    against = opt(P, "against", lambda: P.fresh_str("against_ref"))
    base_ref = opt(P, "base_ref", lambda: P.fresh_str("base_ref_value"))
    color = SUnion([(z3.Bool("color_none"), None), (z3.Not(z3.Bool("color_none")), P.fresh_bool("color_value"))])
    style = None
    kind, res = outcome(P, lambda: call(P, "_griffe.cli:check", P.fresh_str("package"), against, None, base_ref=base_ref, color=color, verbose=P.fresh_bool("verbose"),
                                        style=style, append_sys_path=False, search_paths=None, extensions=None))
    if kind == "raise":
        P.prove("never_raises", False, exc=P.resolve_cls(res))
        return
    cmp_ = [c for c in calls if c[0] == "compare"]
    if not cmp_:
        P.prove("exit_2_without_a_reference_and_1_without_extensions", z3.Or(zint(res) == 2, zint(res) == 1))
        P.prove("nothing_is_compared_only_when_a_prerequisite_failed", z3.Or(z3.And(z3.Or(against.alts[0][0], z3.Length(zstr(against.alts[1][1])) == 0), tag_fails), ext_fails))
        P.cover("cli.check.early")
        return
    P.prove("exit_1_exactly_when_something_is_reported", zint(res) == z3.If(nb.z > 0, 1, 0))
    P.prove("compares_the_reference_with_the_current_package", len(cmp_) == 1 and cmp_[0][1] is old_pkg and (cmp_[0][2] is new_git or cmp_[0][2] is new_cur))
    P.prove("base_ref_selects_the_new_side", (cmp_[0][2] is new_git) == (len([c for c in calls if c[0] == "load_git"]) == 2))
    P.prove("both_sides_are_loaded_with_aliases_resolved", all(c[2] is True for c in calls if c[0] in ("load_git", "load")))
    P.cover("cli.check.compared")


# --------------------------------------------------------------------------- the visibility decision the frontier relies on
# `is_public` is uninterpreted in the contracts above; the same obligation as C01's `table.is_public` is discharged here on the real
# ObjectAliasMixin.is_public, so a change of the public/private decision (e.g. an empty `__all__` no longer hiding members) fails a C11 obligation too.
from contracts import C01 as _C01  # noqa: E402

contract("C11", "table.is_public", [_C01.MIX + "is_public"], replay="replay_visibility")(_C01._table_contract("is_public", _C01.T_public, False))
