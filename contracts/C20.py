"""C20 — loading from Git leaves repository and filesystem untouched: ghost-trace contracts on git.tmp_worktree / loader.load_git."""
from __future__ import annotations

import z3

from pyvc.api import *  # noqa: F403
from pyvc.values import *  # noqa: F403
from pyvc import models

G = "_griffe.git:"

TRUSTED_BASE = [
    "git axioms: `worktree add -b B P R` with rc != 0 changes nothing; with rc == 0 creates exactly branch B and worktree P; "
    "`worktree remove P`, `worktree prune`, `branch -D B` undo exactly those; none touches HEAD, the index or the main working tree",
    "TemporaryDirectory removes its directory on every exit of the with block",
    "interruption is modelled as an exception (KeyboardInterrupt / OSError) raised by any subprocess call, including each cleanup call",
]
ASSUMPTIONS = ["git's real behaviour and interruption between two bytecodes are not covered"]


def install(P, add_rc, interrupt):
    """Opaque summaries of the foreign calls; every call is appended to the ghost trace."""
    P.opaque_hooks[G + "assert_git_repo"] = lambda P_, a, k: (P_.trace.append(("assert_git_repo",)), may_raise(P_, "assert", ["OSError", "RuntimeError"]), None)[2]
    P.opaque_hooks["new:pathlib.Path"] = lambda P_, a, k: Opaque("lenient:path")
    P.opaque_hooks["pathlib.Path"] = lambda P_, a, k: Opaque("lenient:path")
    P.opaque_hooks[G + "_normalize"] = lambda P_, a, k: SStr(z3.Function("NORM", StrS, StrS)(zstr(a[0])))
    P.opaque_hooks["os.path.join"] = lambda P_, a, k: SStr(z3.Function("JOIN", StrS, StrS, StrS)(zstr(a[0]), zstr(a[1])))

    def tmpdir(P_, a, k):
        return Opaque("tmpdir")
    P.opaque_hooks["tempfile.TemporaryDirectory"] = tmpdir

    def with_tmp(P_, cm, body):
        P_.trace.append(("tmp.enter",))
        try:
            body(SStr(z3.String("TMPDIR")))
        finally:
            P_.trace.append(("tmp.exit",))
    P.opaque_hooks["with:tmpdir"] = with_tmp
    # alternative temp-dir APIs, so that a rewrite stays decidable
    P.opaque_hooks["tempfile.mkdtemp"] = lambda P_, a, k: (P_.trace.append(("tmp.enter",)), SStr(z3.String("TMPDIR")))[1]
    P.opaque_hooks["shutil.rmtree"] = lambda P_, a, k: (P_.trace.append(("tmp.exit",)), None)[1]
    calls = [0]

    def run(P_, a, k):
        argv = a[0]
        calls[0] += 1
        P_.trace.append(("git", list(argv)))
        if interrupt and calls[0] in interrupt and P_.branch(z3.Bool(f"interrupted_at_git_call_{calls[0]}")):
            raise PyExc(P_.mk_exc("KeyboardInterrupt"))
        sub = argv[3:5] if len(argv) > 4 else argv
        if len(argv) > 4 and argv[3] == "worktree" and argv[4] == "add":
            return SObj("CompletedProcess", {"returncode": add_rc, "stderr": Opaque("lenient:bytes"), "stdout": Opaque("lenient:bytes")}, frozen=True)
        return SObj("CompletedProcess", {"returncode": P_.fresh_int("rc"), "stderr": Opaque("lenient:bytes"), "stdout": Opaque("lenient:bytes")}, frozen=True)
    P.opaque_hooks["subprocess.run"] = run


def git_cmds(P):
    return [t[1] for t in P.trace if t[0] == "git"]


def is_cmd(argv, *words):
    return len(argv) >= 3 + len(words) and list(argv[3:3 + len(words)]) == list(words)


def _tmp_worktree(interrupt):
    def driver(P):
        add_rc = P.fresh_int("add_returncode")
        install(P, add_rc, interrupt)
        repo, ref = P.fresh_str("repo"), P.fresh_str("ref")
        body_state = {}

        def body():
            body_state["entered"] = True
            body_state["trace_len"] = len(P.trace)
            may_raise(P, "body")
        kind, res = outcome(P, lambda: with_cm(P, G + "tmp_worktree", [repo, ref], body))
        cmds = git_cmds(P)
        adds = [c for c in cmds if is_cmd(c, "worktree", "add")]
        tmp_events = [t[0] for t in P.trace if t[0].startswith("tmp.")]
        P.prove("temporary_directory_always_released", tmp_events in ([], ["tmp.enter", "tmp.exit"]), events=str(tmp_events))
        if not adds:
            P.prove("failure_before_any_mutation", kind == "raise" and not body_state.get("entered"))
            P.cover("tmp_worktree.no_add")
            return
        add = adds[0]
        # the git axioms of the trusted base speak about `worktree add -b <new branch> <path> <ref>`: git then refuses to touch a branch that already
        # exists (rc != 0, nothing changed).  -B / --force / -f would reset or reuse the user's branch, which the clean-up then deletes.
        shape_ok = len(add) == 9 and add[5] == "-b" and not any(isinstance(x, str) and x in ("-B", "-f", "--force", "--force-create", "--detach", "--orphan") for x in add)
        P.prove("worktree_is_added_on_a_new_branch_that_git_refuses_to_overwrite", shape_ok, argv=str([x if isinstance(x, str) else "<arg>" for x in add]))
        if not shape_ok:
            return
        branch, location = add[6], add[7]
        after_add = cmds[cmds.index(add) + 1:]
        ok = add_rc.z == 0
        interrupted_add = z3.Bool("interrupted_at_git_call_1") if interrupt else z3.BoolVal(False)
        if not body_state.get("entered"):
            # the with body never ran: add failed (or was interrupted)
            P.prove("body_skipped_only_if_add_failed", z3.Or(z3.Not(ok), interrupted_add))
            P.prove("failed_add_raises", kind == "raise")
            if kind == "raise" and not interrupt:
                P.prove("failed_add_raises_RuntimeError", P.resolve_cls(res) == "RuntimeError", exc=P.resolve_cls(res))
            P.prove("no_git_call_after_failed_add", len(after_add) == 0, after=str(after_add))
            P.cover("tmp_worktree.add_failed")
            return
        P.prove("body_runs_only_after_successful_add", ok)
        cleanup = cmds[cmds.index(add) + 1:]
        rm = [c for c in cleanup if is_cmd(c, "worktree", "remove")]
        pr = [c for c in cleanup if is_cmd(c, "worktree", "prune")]
        bd = [c for c in cleanup if is_cmd(c, "branch", "-D")]
        P.prove("worktree_removed_on_every_exit", len(rm) == 1 and rm[0][5] is location, cleanup=str(cleanup))
        P.prove("worktrees_pruned_on_every_exit", len(pr) == 1, cleanup=str(cleanup))
        P.prove("temporary_branch_deleted_on_every_exit", len(bd) == 1 and bd[0][5] is branch, cleanup=str(cleanup))
        if rm and pr and bd:
            P.prove("cleanup_order", cleanup.index(rm[0]) < cleanup.index(pr[0]) < cleanup.index(bd[0]), level="pinned")
        if not interrupt:
            if kind == "raise":
                P.prove("only_body_exceptions_escape", z3.Bool("body_raises"))
            else:
                P.prove("body_exception_not_swallowed", z3.Not(z3.Bool("body_raises")))
        P.cover("tmp_worktree.body." + kind)
    return driver


contract("C20", "tmp_worktree.cleanup", [G + "tmp_worktree"], floor=6, replay="replay_git")(_tmp_worktree(()))
contract("C20", "tmp_worktree.interrupted_add", [G + "tmp_worktree"], floor=5, replay="replay_git_interrupt_add")(_tmp_worktree((1,)))
# interruption of the clean-up commands themselves: fails on the pinned tree (known finding C20-F1)
contract("C20", "tmp_worktree.interrupted_cleanup", [G + "tmp_worktree"], floor=5, replay="replay_git_interrupt_cleanup")(_tmp_worktree((2, 3, 4)))


@contract("C20", "load_git.confined", ["_griffe.loader:load_git"], floor=3, replay="replay_git")
def c_load_git(P):
    events = []

    def tw(P_, a, k):
        return Opaque("worktree_cm")

    def with_tw(P_, cm, body):
        events.append("enter")
        try:
            body(SObj("pathlib.Path", {}, ident=z3.Int("worktree_path")))
        finally:
            events.append("exit")
    P.opaque_hooks["_griffe.git:tmp_worktree"] = tw
    P.opaque_hooks["_griffe.loader:tmp_worktree"] = tw
    P.opaque_hooks["with:worktree_cm"] = with_tw
    P.attr_hooks[("pathlib.Path", "__truediv__")] = None

    def load(P_, a, k):
        events.append("load")
        may_raise(P_, "load", ["LoadingError", "ModuleNotFoundError", "SyntaxError", "KeyboardInterrupt", "ValueError"])
        return Opaque("loaded_object", z3.Int("loaded_id"))
    P.opaque_hooks["_griffe.loader:load"] = load
    # the same work done through a loader object built in place: every pass that may read the checkout is an event
    P.opaque_hooks["new:GriffeLoader"] = lambda P_, a, k: SObj("GriffeLoaderObject", {}, ident=P_.new_ident())
    P.attr_hooks[("GriffeLoaderObject", "load")] = lambda P_, o: BoundMethod(o, lambda P__, s_, a, k: load(P__, a, k))

    def other_pass(name):
        def hook(P_, o):
            def run(P__, s_, a, k):
                events.append(name)
                return (set(), 0)
            return BoundMethod(o, run)
        return hook
    for _pass in ("resolve_aliases", "expand_exports", "expand_wildcards", "resolve_module_aliases"):
        P.attr_hooks[("GriffeLoaderObject", _pass)] = other_pass(_pass)
    # worktree / path
    import pyvc.models as M
    orig_binop = M.binop

    def binop(P_, op, a, b):
        if isinstance(a, SObj) and a.cls == "pathlib.Path":
            return SObj("pathlib.Path", {"under_worktree": True}, ident=z3.Int(P_._fresh_name("joined_path")))
        return orig_binop(P_, op, a, b)
    M.binop = binop
    try:
        sp = opt(P, "search_paths", lambda: [Opaque("lenient:p1"), Opaque("lenient:p2")])
        flags = {nm: P.fresh_bool(nm) for nm in ("resolve_aliases", "resolve_external", "resolve_implicit", "submodules", "allow_inspection", "force_inspection", "find_stubs_package")}
        flags["resolve_external"] = opt(P, "resolve_external_none", lambda: flags["resolve_external"])
        kind, res = outcome(P, lambda: call(P, "_griffe.loader:load_git", P.fresh_str("objspec"), ref=P.fresh_str("ref"), repo=P.fresh_str("repo"), search_paths=sp, **flags))
    finally:
        M.binop = orig_binop
    inside = events[:1] == ["enter"] and events[-1:] == ["exit"] and events.count("enter") == 1 and events.count("exit") == 1 and events.count("load") == 1
    P.prove("loader_runs_inside_the_worktree_context", inside, events=str(events))
    if kind == "ok":
        P.prove("returns_the_loaded_object", isinstance(res, Opaque) and res.tag == "loaded_object")
        P.prove("load_succeeded", z3.Not(z3.Bool("load_raises")))
    else:
        P.prove("only_loader_exceptions_escape", z3.Bool("load_raises"))
    P.cover("load_git." + kind)


def bounded_checks(tier, seed):
    """Fault enumeration on a real git repository (real git, real loader): every ref kind x body outcome, interruption of rev-parse/add."""
    import json, os, subprocess, time
    from pyvc.run import VERIF, VENV_PY, REPO_SRC
    t0 = time.time()
    r = subprocess.run([VENV_PY, "-m", "replay.C20"], capture_output=True, text=True, cwd=str(VERIF), env=dict(os.environ, PYTHONPATH=str(REPO_SRC)), timeout=900)
    if r.returncode != 0:
        raise RuntimeError("bounded C20 sweep crashed: " + r.stderr[-1500:])
    res = json.loads(r.stdout)
    viol = [{"problem": x["detail"], "signature": x["signature"]} for x in res if x["reproduced"]]
    return [{"check": "real_git_fault_enumeration", "tool": "real git repository + real load_git/tmp_worktree, subprocess.run fault injection",
             "bound": "3 refs (tag, branch with slash, unknown) x 3 body outcomes x static/inspected loading; a user branch that carries the temporary branch's name; interruption at each of the 5 git calls",
             "cases": 9 + 2 + 4 + 6, "failing": len(viol), "wall_s": round(time.time() - t0, 1), "violations": viol}]
