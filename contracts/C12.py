"""C12 — docstring parsers are total and terminating: reader protocol contracts on the real Google / Numpy / Sphinx parsers.

Modular structure (a caller is checked against the callee's contract, not its body):

  leaf block readers    _read_block_items / _read_block (Google, Numpy), _consolidate_continuation_lines / _parse_directive (Sphinx)
                        real bodies, loop invariants + variants, every `lines[e]` in bounds, reader post  r >= offset - 1
  section readers       real bodies with the leaf readers replaced by their contract (arbitrary well-shaped items, r >= offset - 1);
                        the per-item loops are checked for one generic iteration from an arbitrary accumulated state
  main loops            parse_google / parse_numpy / parse_sphinx with every section reader replaced by its contract;
                        invariant 0 <= offset, variant len(lines) - offset (strictly decreasing: termination)

Data invariant of the input (established by Docstring.__init__ = cleandoc(text.rstrip()).split("\\n")):
  WF(lines): len(lines) >= 1 and (len(lines) == 1 or lines[-1] is not blank).
The docstring's parent is a value of unknown type (`SAny`): every attribute read may raise AttributeError, every subscript
KeyError / IndexError / TypeError, every truth test goes both ways.
"""
from __future__ import annotations

import z3

from pyvc.api import *  # noqa: F403
from pyvc.values import *  # noqa: F403
from pyvc import models
from pyvc.models import ufn

G = "_griffe.docstrings.google:"
N = "_griffe.docstrings.numpy:"
S = "_griffe.docstrings.sphinx:"
U = "_griffe.docstrings.utils:"

TRUSTED_BASE = [
    "Docstring invariant WF(lines): len >= 1 and (len == 1 or the last line is not blank) -- established by Docstring.__init__ "
    "(inspect.cleandoc(value.rstrip()).split('\\n')); cleandoc/rstrip/split semantics are CPython's (validated by the bounded native tier)",
    "str methods are uninterpreted functions with the listed facts only: strip/lstrip/rstrip never lengthen; lstrip(' ') yields a suffix; "
    "blank(line) := line.strip() == ''",
    "regular expressions: match/search may succeed or fail on any line; on success a group is a string, and may also be None unless it lies on "
    "every path through the real pattern (decided on the parse tree of the real pattern text by re._parser on every run)",
    "the docstring's parent is None or a model object of unknown class (GriffeParentPolicy): attribute reads raise AttributeError or return a value of "
    "unknown type; `parent.parameters` and any attribute of a member obtained by `parent[name]` may also raise AliasResolutionError / "
    "CyclicAliasError (Class.parameters reads all_members['__init__']; a member may be an alias); `parent[name]` raises KeyError, or ValueError "
    "for an empty name; Parameters[...] raises KeyError (names) / IndexError (positions); Expr.elements[...] raises IndexError; other subscripts "
    "raise KeyError / IndexError / TypeError; `in` on `parent.parameters` answers either way without raising",
    "compile(..., PyCF_ONLY_AST) may raise SyntaxError (incl. IndentationError) or ValueError (UnicodeEncodeError for lone surrogates; null bytes on "
    "Python < 3.12); RecursionError / MemoryError for pathologically nested text are not modelled",
    "safe_get_annotation never raises: no longer assumed, it is the contract C03 safe_get_expression.total (the reporting path of a failure reads the parent's "
    "file path, which raises for modules built in memory: repaired, see C12-F6)",
]
ASSUMPTIONS = [
    "termination is proved per loop by a strictly decreasing variant bounded below; the iteration of `for` loops over finite lists terminates by construction",
    "not covered deductively: the 'plain text comes back as one text section' clause and well-formedness of the section objects beyond their "
    "constructor calls -- decided by the bounded native tier (generated docstrings x option valuations x parent kinds), never counted as proved",
]

REPLAY_KEYED_BY_EXPECTS = True

STRIP = ufn("str_strip", StrS, StrS)
LINE = z3.Function("LINE", IntS, StrS)


def blank(z):
    return STRIP(z) == z3.StringVal("")


# --------------------------------------------------------------------------- what reads on the parent may raise
ALIAS_ERRORS = ("AliasResolutionError", "CyclicAliasError")


class GriffeParentPolicy(models.AnyPolicy):
    """Kinds: Object (the parent: Module / Class / Function / Attribute), Member (parent[name]: an object or an alias),
    Parameters, Parameter, Expr (an annotation), List (Expr.elements).  Derived from the model classes:
    Object.__getitem__ raises KeyError (missing) or ValueError (empty key); Class.parameters reads all_members['__init__'],
    which may be an alias; any attribute of an alias member resolves the alias; Parameters[...] raises KeyError / IndexError."""

    def attr_excs(self, o, name):
        if o.kind == "Parameter" and name in ("annotation", "default", "name", "kind", "docstring", "required"):
            return ()
        if o.kind == "Object" and name in ("name", "labels", "kind", "is_function", "is_class", "is_attribute", "is_module", "lineno", "parent",
                                           "docstring", "path", "runtime", "public"):
            return ()
        if o.kind == "Member" or (o.kind == "Object" and name == "parameters"):
            return ("AttributeError",) + ALIAS_ERRORS
        return ("AttributeError",)

    def item_excs(self, P, o, key):
        is_str = isinstance(key, (str, SStr))
        if o.kind == "Object":
            if is_str:
                empty = (key == "") if isinstance(key, str) else (z3.Length(key.z) == 0)
                return ["KeyError", ("ValueError", z3.BoolVal(empty) if isinstance(empty, bool) else empty)]
            return ["KeyError", "TypeError"]
        if o.kind == "Parameters":
            return ["KeyError"] if is_str else ["IndexError"]
        if o.kind == "List":
            return ["TypeError"] if is_str else ["IndexError"]
        return ["KeyError", "TypeError"] if is_str else ["IndexError", "KeyError", "TypeError"]

    def child_kind(self, o, op, name):
        if op == "item":
            return {"Object": "Member", "Parameters": "Parameter", "List": "Expr"}.get(o.kind)
        if name == "parameters":
            return "Parameters"
        if name in ("annotation", "returns", "slice", "default"):
            return "Expr"
        if name == "elements":
            return "List"
        if name == "parent" and o.kind == "Object":
            return "Object"
        return None


# --------------------------------------------------------------------------- fixtures
def mk_docstring(P, parent="any"):
    n = P.fresh_int("n_lines")
    P.assume(n.z >= 1)
    lines = SSeq(n, lambda i: SStr(LINE(zint(i))), tag="lines")
    # WF: the last line is blank only for the one-line empty docstring
    P.assume(z3.Implies(blank(LINE(n.z - 1)), n.z == 1))
    P.ghost["any_policy"] = GriffeParentPolicy()
    par = opt(P, "parent", lambda: SAny("parent", kind="Object")) if parent == "any" else parent
    lineno = opt(P, "doc_lineno", lambda: P.fresh_int("doc_lineno_v"))
    doc = SObj("Docstring", {"lines": lines, "parent": par, "lineno": lineno, "value": P.fresh_str("doc_value")}, ident=z3.Int("docstring_id"))
    P.witness.update(n_lines=n, lines=lines)
    P.ghost["doc"] = doc
    return doc, lines, n


def install_env(P):
    """Library summaries shared by all C12 contracts."""
    def b_compile(P_, a, k):
        which = P_.fresh_int("compile_outcome")
        P_.assume(z3.And(which.z >= 0, which.z <= 2))
        if P_.branch(which.z == 1):
            raise PyExc(P_.mk_exc("SyntaxError", "invalid syntax"))
        if P_.branch(which.z == 2):
            raise PyExc(P_.mk_exc("UnicodeEncodeError", "surrogates not allowed"))
        body = opt(P_, "code_body", lambda: Opaque("ast"))
        return SObj("ast.Expression", {"body": body}, frozen=True)
    P.opaque_hooks["builtin:compile"] = b_compile
    P.opaque_hooks["_griffe.expressions:safe_get_annotation"] = lambda P_, a, k: opt(P_, "annotation_expr", lambda: SAny("expr"))
    P.opaque_hooks["_griffe.expressions:safe_get_expression"] = lambda P_, a, k: opt(P_, "annotation_expr", lambda: SAny("expr"))


def install_helper_contracts(P):
    """Callee contracts of the two helpers every reader calls (each proved on its real body below)."""
    P.opaque_hooks[U + "docstring_warning"] = lambda P_, a, k: None
    for mod in ("google", "numpy", "sphinx"):
        P.opaque_hooks[f"_griffe.docstrings.{mod}:docstring_warning"] = lambda P_, a, k: None

    def pda(P_, a, k):
        ann = a[0]
        if isinstance(ann, SUnion):
            ann = P_.choose(ann)
        P_.prove("callee_pre.parse_docstring_annotation_gets_a_string", isinstance(ann, (str, SStr)))
        g = z3.Bool(P_._fresh_name("annotation_parsed"))
        return SUnion([(g, SAny("expr", kind="Expr")), (z3.Not(g), ann)])
    P.opaque_hooks[U + "parse_docstring_annotation"] = pda


def rd_pre(n, o):
    """Reader precondition: 0 <= o and (o >= n or the last line is not blank)."""
    return z3.And(o >= 0, z3.Or(o >= n, z3.Not(blank(LINE(n - 1)))))


def frame_ok(P, doc):
    bad = [(o, nm) for (o, nm) in P.ghost.get("writes", []) if o is doc]
    bad += [(o, nm) for (o, nm) in P.ghost.get("any_writes", []) if str(o.origin).startswith("parent")]
    return not bad, bad


def finish(P, doc, kind, res, offset=None, post=None):
    if kind == "raise":
        P.expects["exc"] = P.resolve_cls(res)
        P.prove("no_exception_escapes", False, exc=P.resolve_cls(res))
        P.cover("raise")
        return False
    ok, bad = frame_ok(P, doc)
    P.prove("frame.docstring_and_parent_unmodified", ok, writes=str([(nm) for _, nm in bad]))
    if post is not None:
        post(res)
    P.cover("return")
    return True


# --------------------------------------------------------------------------- hints for havocked loop state
def hint_int(P, name):
    return P.fresh_int(name)


def hint_bool(P, name):
    return P.fresh_bool(name)


def hint_strlist(P, name):
    n = P.fresh_int(name + "_len")
    P.assume(n.z >= 0)
    f = P.fresh_fn(name + "_at", IntS, StrS)
    return SSeq(n, lambda i, f=f: SStr(f(zint(i))), tag=name)


def hint_item_lines(P, name, minlen=1):
    n = P.fresh_int(name + "_len")
    P.assume(n.z >= minlen)
    f = P.fresh_fn(name + "_at", IntS, StrS)
    return MList(SSeq(n, lambda i, f=f: SStr(f(zint(i))), tag=name))


def hint_google_item(P, name):
    return (P.fresh_int(name + "_lineno"), hint_item_lines(P, name + "_lines"))


def hint_google_items(P, name):
    n = P.fresh_int(name + "_len")
    P.assume(n.z >= 0)
    cache = {}

    def at(i):
        key = zint(i).sexpr()
        if key not in cache:
            ln = z3.Function(name + "_lineno", IntS, IntS)(zint(i))
            m = z3.Function(name + "_nlines", IntS, IntS)(zint(i))
            P.assume(m >= 1)
            f = z3.Function(name + "_line", IntS, IntS, StrS)
            cache[key] = (SInt(ln), SSeq(SInt(m), lambda j, f=f, i=i: SStr(f(zint(i), zint(j))), tag=name + "_item"))
        return cache[key]
    return SSeq(n, at, tag=name)


def hint_numpy_items(P, name):
    n = P.fresh_int(name + "_len")
    P.assume(n.z >= 0)
    cache = {}

    def at(i):
        key = zint(i).sexpr()
        if key not in cache:
            m = z3.Function(name + "_nlines", IntS, IntS)(zint(i))
            P.assume(m >= 1)
            f = z3.Function(name + "_line", IntS, IntS, StrS)
            cache[key] = SSeq(SInt(m), lambda j, f=f, i=i: SStr(f(zint(i), zint(j))), tag=name + "_item")
        return cache[key]
    return SSeq(n, at, tag=name)


def items_wellshaped(P, items, google, tag):
    """Every item has at least one line (checked at a Skolem index)."""
    k = z3.Int(P._fresh_name("k_" + tag))
    n = P.seq_len(items)
    if isinstance(n, int) and n == 0:
        return True
    if not P.branch(z3.And(k >= 0, k < zint(n))):
        return True
    it = P.seq_at(items, SInt(k))
    if isinstance(it, SUnion):
        it = P.choose(it)
    lines = it[1] if google else it
    return zint(models._b_len(P, [lines], {})) >= 1


# =========================================================================== helpers every reader relies on
@contract("C12", "utils.docstring_warning", [U + "docstring_warning"], floor=2, replay="replay_parsers")
def c_docstring_warning(P):
    install_env(P)
    doc, lines, n = mk_docstring(P)
    offset = P.fresh_int("offset")
    msg = P.fresh_str("message")
    members = P.enum_members("LogLevel")
    k = P.fresh_int("log_level_index")
    P.assume(z3.And(k.z >= 0, k.z < len(members)))
    level = P.choose(SUnion([(k.z == i, m) for i, m in enumerate(members)]))
    kind, res = outcome(P, lambda: call(P, U + "docstring_warning", doc, offset, msg, level))
    finish(P, doc, kind, res, post=lambda r: P.prove("post.returns_none", r is None))


@contract("C12", "utils.parse_docstring_annotation", [U + "parse_docstring_annotation"], floor=2, replay="replay_parsers")
def c_parse_docstring_annotation(P):
    install_env(P)
    doc, lines, n = mk_docstring(P)
    ann = P.fresh_str("annotation")
    level = P.fresh_enum("LogLevel", "log_level")
    kind, res = outcome(P, lambda: call(P, U + "parse_docstring_annotation", ann, doc, level))

    def post(r):
        if isinstance(r, SUnion):
            r = P.choose(r)
        P.prove("post.returns_the_string_or_an_expression", isinstance(r, SAny) or r is ann or (isinstance(r, SStr) and r.z.eq(ann.z)))
    finish(P, doc, kind, res, post=post)


@contract("C12", "models.Docstring.lines", ["_griffe.models:Docstring.lines"], floor=2, replay="replay_parsers")
def c_docstring_lines(P):
    """The line view every parser works on is exactly value.split("\\n"): joining the lines with "\\n" gives the cleaned value back."""
    value = P.fresh_str("doc_value")
    doc = SObj("Docstring", {"value": value, "parent": None, "lineno": None}, ident=z3.Int("docstring_id"))
    kind, res = outcome(P, lambda: call(P, "_griffe.models:Docstring.lines", doc))
    if kind == "raise":
        P.expects["exc"] = P.resolve_cls(res)
        P.prove("no_exception_escapes", False, exc=P.resolve_cls(res))
        return
    seq = P.to_seq(res)
    N_ = ufn("split_n_0a", StrS, IntS)
    AT_ = ufn("split_at_0a", StrS, IntS, StrS)
    P.expects["clause"] = "lines"
    P.prove("post.as_many_lines_as_newline_separated_pieces", zint(P.seq_len(seq)) == N_(value.z))
    i = z3.Int("i_line")
    P.assume(z3.And(i >= 0, i < N_(value.z)))
    if P.branch(i < zint(P.seq_len(seq))):
        P.prove("post.each_line_is_the_newline_separated_piece", zstr(P.seq_at(seq, SInt(i))) == AT_(value.z, i))
    P.cover("lines")


@contract("C12", "models.Docstring.__init__", ["_griffe.models:Docstring.__init__"], floor=2, replay="replay_parsers")
def c_docstring_init(P):
    """The constructor stores inspect.cleandoc(value.rstrip()): the source of the invariant WF(lines) every reader contract assumes."""
    raw = P.fresh_str("raw_text")
    doc = SObj("Docstring", {}, ident=z3.Int("docstring_id"))
    kind, res = outcome(P, lambda: call(P, "_griffe.models:Docstring.__init__", doc, raw))
    if kind == "raise":
        P.expects["exc"] = P.resolve_cls(res)
        P.prove("no_exception_escapes", False, exc=P.resolve_cls(res))
        return
    v = doc.fields.get("value")
    CLEAN = ufn("cleandoc", StrS, StrS)
    RSTRIP = ufn("str_rstrip", StrS, StrS)
    P.prove("post.value_is_cleandoc_of_rstripped_text", isinstance(v, SStr) and v.z.eq(CLEAN(RSTRIP(raw.z))))
    P.prove("post.parent_defaults_to_none", doc.fields.get("parent", 0) is None)
    P.cover("init")


# =========================================================================== Google: leaf readers
def g_block_items_loops(P, q, n):
    def inv0(P_, L, pre):
        return z3.And(zint(L.new_offset) >= zint(pre["offset"]), zint(L.new_offset) < n.z)
    P.loop_specs[(q, 0)] = dict(mode="inv", name="skip_blank", inv=inv0, variant=lambda P_, L, pre: mk_int(n.z - zint(L.new_offset)))

    def inv1(P_, L, pre):
        cur = L.current_item
        base = z3.And(zint(L.new_offset) >= zint(pre["offset"]) + 1, zint(L.indent) >= 1,
                      zint(models._b_len(P_, [cur[1]], {})) >= 1)
        return z3.And(base, zbool(items_wellshaped(P_, L["items"], True, "inv")))
    P.loop_specs[(q, 1)] = dict(mode="inv", name="items", inv=inv1, variant=lambda P_, L, pre: mk_int(n.z - zint(L.new_offset)),
                                hints={"current_item": hint_google_item, "items": hint_google_items, "line": lambda P_, nm: P_.fresh_str(nm),
                                       "cont_indent": hint_int})


@contract("C12", "google._read_block_items", [G + "_read_block_items"], floor=6, replay="replay_parsers")
def c_g_read_block_items(P):
    install_env(P)
    doc, lines, n = mk_docstring(P)
    offset = P.fresh_int("offset")
    P.assume(rd_pre(n.z, offset.z))
    P.witness["offset"] = offset
    q = G + "_read_block_items"
    g_block_items_loops(P, q, n)
    kind, res = outcome(P, lambda: call(P, q, doc, offset=offset))

    def post(res):
        items, r = res
        P.prove("post.returned_offset_ge_offset_minus_1", zint(r) >= offset.z - 1)
        P.prove("post.every_item_has_a_first_line", items_wellshaped(P, items, True, "post"))
    finish(P, doc, kind, res, post=post)


def g_block_loops(P, q, n):
    def inv0(P_, L, pre):
        return z3.And(zint(L.new_offset) >= zint(pre["offset"]), zint(L.new_offset) < n.z)
    P.loop_specs[(q, 0)] = dict(mode="inv", name="skip_blank", inv=inv0, variant=lambda P_, L, pre: mk_int(n.z - zint(L.new_offset)))

    def inv1(P_, L, pre):
        return zint(L.new_offset) >= zint(pre["offset"]) + 1
    P.loop_specs[(q, 1)] = dict(mode="inv", name="block", inv=inv1, variant=lambda P_, L, pre: mk_int(n.z - zint(L.new_offset)),
                                hints={"block": hint_strlist})


@contract("C12", "google._read_block", [G + "_read_block"], floor=5, replay="replay_parsers")
def c_g_read_block(P):
    install_env(P)
    doc, lines, n = mk_docstring(P)
    offset = P.fresh_int("offset")
    P.assume(rd_pre(n.z, offset.z))
    P.witness["offset"] = offset
    q = G + "_read_block"
    g_block_loops(P, q, n)
    kind, res = outcome(P, lambda: call(P, q, doc, offset=offset))

    def post(res):
        text, r = res
        P.prove("post.returned_offset_ge_offset_minus_1", zint(r) >= offset.z - 1)
        P.prove("post.returns_text", isinstance(text, (str, SStr)))
    finish(P, doc, kind, res, post=post)


# =========================================================================== section readers (callee contracts + generic drivers)
def hint_annotation(P, name):
    g1, g2 = z3.Bool(P._fresh_name(name + "_is_none")), z3.Bool(P._fresh_name(name + "_is_str"))
    return SUnion([(g1, None), (z3.And(z3.Not(g1), g2), P.fresh_str(name + "_str")), (z3.And(z3.Not(g1), z3.Not(g2)), SAny("expr"))])


def hint_objlist(P, name):
    n = P.fresh_int(name + "_len")
    P.assume(n.z >= 0)
    return SSeq(n, lambda i: Opaque("section-item"), tag=name)


LIST_VARS = {"parameters", "attributes", "functions", "classes", "modules", "exceptions", "warns", "returns", "yields", "receives",
             "sub_sections", "raises", "result", "items_out"}
STRLIST_VARS = {"current_text", "current_example", "current_section", "block", "names"}
ANNOT_VARS = {"annotation", "signature", "default", "choices", "name", "text", "description", "yield_item", "return_item", "receive_item"}
BOOL_VARS = {"in_code_example", "in_code_block"}


def auto_hints(extra=None):
    h = {}
    for v in LIST_VARS:
        h[v] = hint_objlist
    for v in STRLIST_VARS:
        h[v] = hint_strlist
    for v in ANNOT_VARS:
        h[v] = hint_annotation
    for v in BOOL_VARS:
        h[v] = hint_bool
    h["line"] = lambda P_, nm: P_.fresh_str(nm)
    h["match"] = lambda P_, nm: None
    h.update(extra or {})
    return h


def install_item_loops(P, q, extra_hints=None, skip=()):
    """Every `for` loop of the real function `q` whose iterable is not a literal tuple/list gets a one-generic-iteration spec."""
    import ast as _ast
    mi, node, cls = P.index.find_function(q)
    loops_ = [x for x in _ast.walk(node) if isinstance(x, (_ast.For, _ast.While))]
    loops_.sort(key=lambda x: (x.lineno, x.col_offset))
    for i, lp in enumerate(loops_):
        if i in skip or (q, i) in P.loop_specs:
            continue
        if isinstance(lp, _ast.For) and not isinstance(lp.iter, (_ast.Tuple, _ast.List)):
            P.loop_specs[(q, i)] = dict(mode="inv", name=f"for{i}", hints=auto_hints(extra_hints))


def kw_offset(a, k):
    doc = a[0] if a else k["docstring"]
    off = k["offset"] if "offset" in k else a[1]
    return doc, off


def contract_block_items(P, n, google):
    """Callee contract of _read_block_items (proved above on the real body)."""
    def hook(P_, a, k):
        doc, off = kw_offset(a, k)
        P_.prove("callee_pre.block_reader_called_within_protocol", rd_pre(n.z, zint(off)))
        items = (hint_google_items if google else hint_numpy_items)(P_, P_._fresh_name("items"))
        r = P_.fresh_int("r_items")
        P_.assume(r.z >= zint(off) - 1)
        return (items, r)
    return hook


def contract_block(P, n):
    def hook(P_, a, k):
        doc, off = kw_offset(a, k)
        P_.prove("callee_pre.block_reader_called_within_protocol", rd_pre(n.z, zint(off)))
        r = P_.fresh_int("r_block")
        P_.assume(r.z >= zint(off) - 1)
        return (P_.fresh_str("block_text"), r)
    return hook


def sym_options(P, names):
    return {nm: P.fresh_bool("opt_" + nm) for nm in names}


G_OPTIONS = ["ignore_init_summary", "trim_doctest_flags", "returns_multiple_items", "returns_named_value", "returns_type_in_property_summary",
             "receives_multiple_items", "receives_named_value", "warn_unknown_params"]
N_READERS = ["_read_parameters_section", "_read_other_parameters_section", "_read_deprecated_section", "_read_raises_section",
             "_read_warns_section", "_read_examples_section", "_read_attributes_section", "_read_functions_section", "_read_classes_section",
             "_read_modules_section", "_read_returns_section", "_read_yields_section", "_read_receives_section"]
G_READERS = ["_read_parameters_section", "_read_other_parameters_section", "_read_attributes_section", "_read_functions_section",
             "_read_classes_section", "_read_modules_section", "_read_raises_section", "_read_warns_section", "_read_returns_section",
             "_read_yields_section", "_read_receives_section", "_read_examples_section"]


def section_post(P, offset):
    def post(res):
        P.prove("post.returns_a_pair", isinstance(res, tuple) and len(res) == 2)
        section, r = res
        P.prove("post.returned_offset_ge_offset_minus_1", zint(r) >= offset.z - 1)
    return post


def g_reader_driver(fname):
    def driver(P):
        install_env(P)
        doc, lines, n = mk_docstring(P)
        offset = P.fresh_int("offset")
        P.assume(rd_pre(n.z, offset.z))
        P.witness["offset"] = offset
        install_helper_contracts(P)
        P.opaque_hooks[G + "_read_block_items"] = contract_block_items(P, n, True)
        P.opaque_hooks[G + "_read_block"] = contract_block(P, n)
        q = G + fname
        for f in ("_read_parameters", "_read_block_items_maybe", "_get_name_annotation_description", "_annotation_from_parent", fname):
            install_item_loops(P, G + f)
        opts = sym_options(P, G_OPTIONS)
        P.witness["options"] = dict(opts)
        kind, res = outcome(P, lambda: call(P, q, doc, offset=offset, **opts))
        finish(P, doc, kind, res, post=section_post(P, offset))
    return driver


for _f in G_READERS:
    contract("C12", "google." + _f, [G + _f], floor=3, replay="replay_parsers", split=16)(g_reader_driver(_f))


# =========================================================================== Numpy: leaf readers and section readers
def n_block_items_loops(P, q, n):
    def inv0(P_, L, pre):
        return z3.And(zint(L.new_offset) >= zint(pre["offset"]), zint(L.new_offset) < n.z)
    P.loop_specs[(q, 0)] = dict(mode="inv", name="skip_blank", inv=inv0, variant=lambda P_, L, pre: mk_int(n.z - zint(L.new_offset)))

    def inv1(P_, L, pre):
        base = z3.And(zint(L.new_offset) >= zint(pre["offset"]) + 1, zint(models._b_len(P_, [L.current_item], {})) >= 1)
        return z3.And(base, zbool(items_wellshaped(P_, L["items"], False, "inv")))
    P.loop_specs[(q, 1)] = dict(mode="inv", name="items", inv=inv1, variant=lambda P_, L, pre: mk_int(n.z - zint(L.new_offset)),
                                hints={"current_item": lambda P_, nm: hint_item_lines(P_, nm), "items": hint_numpy_items,
                                       "line": lambda P_, nm: P_.fresh_str(nm), "cont_indent": hint_int})
    # trailing blank lines of every finished item are dropped: each item keeps its first line
    import ast as _ast
    mi, fnode, _c = P.index.find_function(q)
    nloops = len([x for x in _ast.walk(fnode) if isinstance(x, (_ast.For, _ast.While))])
    if nloops >= 4:
        P.loop_specs[(q, 2)] = dict(mode="inv", name="strip_items", hints={"item": lambda P_, nm: hint_item_lines(P_, nm).seq})

        def inv3(P_, L, pre):
            return zint(models._b_len(P_, [L.item], {})) >= 1
        P.loop_specs[(q, 3)] = dict(mode="inv", name="strip_blank_tail", inv=inv3, variant=lambda P_, L, pre: mk_int(zint(models._b_len(P_, [L.item], {}))),
                                    hints={"item": lambda P_, nm: hint_item_lines(P_, nm).seq})


@contract("C12", "numpy._read_block_items", [N + "_read_block_items"], floor=6, replay="replay_parsers")
def c_n_read_block_items(P):
    install_env(P)
    doc, lines, n = mk_docstring(P)
    offset = P.fresh_int("offset")
    P.assume(rd_pre(n.z, offset.z))
    P.witness["offset"] = offset
    q = N + "_read_block_items"
    n_block_items_loops(P, q, n)
    kind, res = outcome(P, lambda: call(P, q, doc, offset=offset))

    def post(res):
        items, r = res
        P.prove("post.returned_offset_ge_offset_minus_1", zint(r) >= offset.z - 1)
        P.prove("post.every_item_has_a_first_line", items_wellshaped(P, items, False, "post"))
    finish(P, doc, kind, res, post=post)


@contract("C12", "numpy._read_block", [N + "_read_block"], floor=5, replay="replay_parsers")
def c_n_read_block(P):
    install_env(P)
    doc, lines, n = mk_docstring(P)
    offset = P.fresh_int("offset")
    P.assume(rd_pre(n.z, offset.z))
    P.witness["offset"] = offset
    q = N + "_read_block"

    def inv0(P_, L, pre):
        return z3.And(zint(L.new_offset) >= zint(pre["offset"]), zint(L.new_offset) < n.z)
    P.loop_specs[(q, 0)] = dict(mode="inv", name="skip_blank", inv=inv0, variant=lambda P_, L, pre: mk_int(n.z - zint(L.new_offset)))

    def inv1(P_, L, pre):
        return zint(L.new_offset) >= zint(pre["offset"])
    P.loop_specs[(q, 1)] = dict(mode="inv", name="block", inv=inv1, variant=lambda P_, L, pre: mk_int(n.z - zint(L.new_offset)),
                                hints={"block": hint_strlist, "is_empty": hint_bool})
    kind, res = outcome(P, lambda: call(P, q, doc, offset=offset))

    def post(res):
        text, r = res
        P.prove("post.returned_offset_ge_offset_minus_1", zint(r) >= offset.z - 1)
        P.prove("post.returns_text", isinstance(text, (str, SStr)))
    finish(P, doc, kind, res, post=post)


N_OPTIONS = ["ignore_init_summary", "trim_doctest_flags", "warn_unknown_params"]


def n_reader_driver(fname):
    def driver(P):
        install_env(P)
        doc, lines, n = mk_docstring(P)
        offset = P.fresh_int("offset")
        P.assume(rd_pre(n.z, offset.z))
        P.witness["offset"] = offset
        install_helper_contracts(P)
        P.opaque_hooks[N + "_read_block_items"] = contract_block_items(P, n, False)
        P.opaque_hooks[N + "_read_block"] = contract_block(P, n)
        q = N + fname
        for f in ("_read_parameters", fname):
            install_item_loops(P, N + f)
        opts = sym_options(P, N_OPTIONS)
        P.witness["options"] = dict(opts)
        kind, res = outcome(P, lambda: call(P, q, doc, offset=offset, **opts))
        finish(P, doc, kind, res, post=section_post(P, offset))
    return driver


for _f in N_READERS:
    contract("C12", "numpy." + _f, [N + _f], floor=3, replay="replay_parsers", split=16)(n_reader_driver(_f))


# =========================================================================== Sphinx: leaf readers and field readers
S_READERS = ["_read_parameter_type", "_read_parameter", "_read_attribute_type", "_read_attribute", "_read_exception", "_read_return", "_read_return_type"]


def sx_pre(n, o):
    return z3.And(o >= 0, o < n)


@contract("C12", "sphinx._consolidate_continuation_lines", [S + "_consolidate_continuation_lines"], floor=5, replay="replay_parsers")
def c_s_consolidate(P):
    install_env(P)
    doc, lines, n = mk_docstring(P)
    offset = P.fresh_int("offset")
    P.assume(sx_pre(n.z, offset.z))
    P.witness["offset"] = offset
    q = S + "_consolidate_continuation_lines"

    def inv(P_, L, pre):
        return z3.And(zint(L.curr_line_index) >= zint(pre["offset"]) + 1, zint(L.curr_line_index) <= n.z)
    P.loop_specs[(q, 0)] = dict(mode="inv", name="continuation", inv=inv, variant=lambda P_, L, pre: mk_int(n.z - zint(L.curr_line_index)),
                                hints={"block": hint_strlist})
    kind, res = outcome(P, lambda: call(P, q, lines, offset))

    def post(res):
        text, r = res
        P.prove("post.next_index_within_the_lines", z3.And(zint(r) >= offset.z, zint(r) <= n.z - 1))
        P.prove("post.returns_text", isinstance(text, (str, SStr)))
    finish(P, doc, kind, res, post=post)


def contract_consolidate(P, n):
    def hook(P_, a, k):
        off = a[1]
        P_.prove("callee_pre.offset_within_the_lines", sx_pre(n.z, zint(off)))
        r = P_.fresh_int("r_cont")
        P_.assume(z3.And(r.z >= zint(off), r.z <= n.z - 1))
        return (P_.fresh_str("consolidated"), r)
    return hook


@contract("C12", "sphinx._parse_directive", [S + "_parse_directive"], floor=3, replay="replay_parsers")
def c_s_parse_directive(P):
    install_env(P)
    install_helper_contracts(P)
    doc, lines, n = mk_docstring(P)
    offset = P.fresh_int("offset")
    P.assume(sx_pre(n.z, offset.z))
    P.witness["offset"] = offset
    P.opaque_hooks[S + "_consolidate_continuation_lines"] = contract_consolidate(P, n)
    kind, res = outcome(P, lambda: call(P, S + "_parse_directive", doc, offset))

    def post(res):
        r = P.getattr(res, "next_index")
        P.prove("post.next_index_within_the_lines", z3.And(zint(r) >= offset.z, zint(r) <= n.z - 1))
        parts = P.getattr(res, "directive_parts")
        inv = P.getattr(res, "invalid")
        P.prove("post.valid_directive_has_parts", z3.Or(zbool(inv), zint(models._b_len(P, [parts], {})) >= 1))
    finish(P, doc, kind, res, post=post)


def contract_parse_directive(P, n):
    def hook(P_, a, k):
        off = a[1]
        P_.prove("callee_pre.offset_within_the_lines", sx_pre(n.z, zint(off)))
        r = P_.fresh_int("next_index")
        P_.assume(z3.And(r.z >= zint(off), r.z <= n.z - 1))
        invalid = P_.fresh_bool("directive_invalid")
        parts = hint_strlist(P_, P_._fresh_name("directive_parts"))
        P_.assume(z3.Or(invalid.z, zint(parts.len) >= 1))
        return SObj("_ParsedDirective", {"line": P_.fresh_str("directive_line"), "next_index": r, "directive_parts": parts,
                                         "value": P_.fresh_str("directive_value"), "invalid": invalid}, ident=P_.new_ident())
    return hook


def mk_element(P, cls, tag):
    return SObj(cls, {"name": P.fresh_str(tag + "_name"), "annotation": hint_annotation(P, tag + "_annotation"),
                      "description": P.fresh_str(tag + "_description"), "value": hint_annotation(P, tag + "_value")}, ident=P.new_ident())


def mk_parsed_values(P, tag="pv", with_keys=False):
    def smap(name, mk):
        HAS = z3.Function(f"{tag}_{name}_has", StrS, BoolS)
        cache = {}

        def get(k):
            key = zstr(k).sexpr()
            if key not in cache:
                cache[key] = mk(f"{tag}_{name}_v{len(cache)}")
            return cache[key]
        keys = None
        if with_keys:
            nk = P.fresh_int(f"{tag}_{name}_nkeys")
            P.assume(nk.z >= 0)
            KF = z3.Function(f"{tag}_{name}_key", IntS, StrS)
            keys = SSeq(nk, lambda i: SStr(KF(zint(i))), tag=f"{tag}_{name}_keys")
        return SMap(lambda k: HAS(zstr(k)), get, tag=name, keys_seq=keys)
    return SObj("_ParsedValues", {
        "description": MList(hint_strlist(P, tag + "_description")),
        "parameters": smap("parameters", lambda t: mk_element(P, "DocstringParameter", t)),
        "param_types": smap("param_types", lambda t: P.fresh_str(t)),
        "attributes": smap("attributes", lambda t: mk_element(P, "DocstringAttribute", t)),
        "attribute_types": smap("attribute_types", lambda t: P.fresh_str(t)),
        "exceptions": MList(hint_objlist(P, tag + "_exceptions")),
        "return_value": opt(P, tag + "_return_value", lambda: mk_element(P, "DocstringReturn", tag + "_ret")),
        "return_type": opt(P, tag + "_return_type", lambda: P.fresh_str(tag + "_return_type_s")),
    }, ident=P.new_ident())


def s_reader_driver(fname):
    def driver(P):
        install_env(P)
        install_helper_contracts(P)
        doc, lines, n = mk_docstring(P)
        offset = P.fresh_int("offset")
        P.assume(sx_pre(n.z, offset.z))
        P.witness["offset"] = offset
        P.opaque_hooks[S + "_parse_directive"] = contract_parse_directive(P, n)
        pv = mk_parsed_values(P)
        opts = sym_options(P, ["warn_unknown_params"])
        kind, res = outcome(P, lambda: call(P, S + fname, doc, offset, pv, **opts))

        def post(r):
            P.prove("post.returns_an_index_not_before_the_directive", z3.And(zint(r) >= offset.z, zint(r) <= n.z - 1))
        finish(P, doc, kind, res, post=post)
    return driver


for _f in S_READERS:
    contract("C12", "sphinx." + _f, [S + _f], floor=3, replay="replay_parsers", split=16)(s_reader_driver(_f))


@contract("C12", "sphinx._parsed_values_to_sections", [S + "_parsed_values_to_sections", S + "_strip_blank_lines"], floor=2, replay="replay_parsers")
def c_s_to_sections(P):
    install_env(P)
    doc, lines, n = mk_docstring(P)
    pv = mk_parsed_values(P, with_keys=True)
    q = S + "_strip_blank_lines"
    P.loop_specs[(q, 0)] = dict(mode="inv", name="scan", hints={"content_found": hint_bool, "initial_content": hint_int, "final_content": hint_int,
                                                                  "index": hint_int, "line": lambda P_, nm: P_.fresh_str(nm)})
    kind, res = outcome(P, lambda: call(P, S + "_parsed_values_to_sections", pv))

    def post(r):
        seq = as_seq(P, r) if not isinstance(r, (list, tuple)) else r
        P.prove("post.first_section_is_text", len(seq) >= 1 and isinstance(seq[0], SObj) and P.resolve_cls(seq[0]) == "DocstringSectionText")
    finish(P, doc, kind, res, post=post)


def contract_sphinx_reader(P, n):
    def hook(P_, a, k):
        off = a[1]
        P_.prove("callee_pre.field_reader_called_on_a_line", sx_pre(n.z, zint(off)))
        r = P_.fresh_int("r_field")
        P_.assume(z3.And(r.z >= zint(off), r.z <= n.z - 1))
        return r
    return hook


@contract("C12", "sphinx.parse_sphinx", [S + "parse_sphinx", S + "_FieldType.matches"], floor=4, replay="replay_parsers", split=16)
def c_parse_sphinx(P):
    install_env(P)
    install_helper_contracts(P)
    doc, lines, n = mk_docstring(P)
    for f in S_READERS:
        P.opaque_hooks[S + f] = contract_sphinx_reader(P, n)
    P.opaque_hooks[S + "_parsed_values_to_sections"] = lambda P_, a, k: hint_sections(P_, "result_sections")
    q = S + "parse_sphinx"

    def inv(P_, L, pre):
        return zint(L.curr_line_index) >= 0
    P.loop_specs[(q, 0)] = dict(mode="inv", name="main", inv=inv, variant=lambda P_, L, pre: mk_int(n.z - zint(L.curr_line_index)),
                                hints={"line": lambda P_, nm: P_.fresh_str(nm), "field_type": lambda P_, nm: None,
                                       "parsed_values": lambda P_, nm: mk_parsed_values(P_, nm.replace("@", "_"))},
                                mutates=("parsed_values",))
    opts = sym_options(P, ["warn_unknown_params"])
    kind, res = outcome(P, lambda: call(P, q, doc, **opts))
    finish(P, doc, kind, res, post=lambda r: P.prove("post.returns_sections", isinstance(r, SSeq)))


# =========================================================================== main loops
SECTION_CLASSES = ["DocstringSectionText", "DocstringSectionParameters", "DocstringSectionOtherParameters", "DocstringSectionRaises",
                   "DocstringSectionWarns", "DocstringSectionReturns", "DocstringSectionYields", "DocstringSectionReceives",
                   "DocstringSectionExamples", "DocstringSectionAttributes", "DocstringSectionFunctions", "DocstringSectionClasses",
                   "DocstringSectionModules", "DocstringSectionDeprecated", "DocstringSectionAdmonition"]


def mk_section(P, tag, classes=None):
    """A section object of an arbitrary class: text sections hold a string, every other section a value of unknown type."""
    classes = classes or SECTION_CLASSES
    others = [c for c in classes if c != "DocstringSectionText"]
    title = opt(P, tag + "_title", lambda: P.fresh_str(tag + "_title_s"))
    k = P.fresh_int(tag + "_cls")
    P.assume(z3.And(k.z >= 0, k.z < len(others)))
    other = SObj(SCls(others, k.z), {"value": SAny("section-value"), "title": title}, ident=P.new_ident())
    if "DocstringSectionText" not in classes:
        return other
    is_text = z3.Bool(P._fresh_name(tag + "_is_text"))
    text = SObj("DocstringSectionText", {"value": P.fresh_str(tag + "_text"), "title": title}, ident=P.new_ident())
    return SUnion([(is_text, text), (z3.Not(is_text), other)])


def hint_sections(P, name):
    n = P.fresh_int(name + "_len")
    P.assume(n.z >= 0)
    cache = {}

    def at(i):
        key = zint(i).sexpr()
        if key not in cache:
            cache[key] = mk_section(P, f"{name}_elt")
        return cache[key]
    return SSeq(n, at, tag=name)


def contract_section_reader(P, n, style, sphinx_like=False):
    """Callee contract of every section reader (each proved on its real body by its own contract above/below)."""
    def hook(P_, a, k):
        doc, off = kw_offset(a, k)
        P_.prove("callee_pre.section_reader_called_within_protocol", rd_pre(n.z, zint(off)))
        r = P_.fresh_int("r_section")
        P_.assume(r.z >= zint(off) - 1)
        section = opt(P_, "section", lambda: mk_section(P_, "read_section", [c for c in SECTION_CLASSES if c not in ("DocstringSectionText", "DocstringSectionAdmonition")]))
        return (section, r)
    return hook


def real_tables(P, modname):
    """The real _section_kind / _section_reader tables of a parser module, evaluated from the source."""
    mi = P.index.module(modname)
    kinds = P.eval_in_module(mi, mi.assigns["_section_kind"])
    readers = P.eval_in_module(mi, mi.assigns["_section_reader"])
    return kinds, readers


def install_tables(P, modname, n, style):
    """Abstraction of the two dispatch tables: title -> kind is a function defined exactly on the real titles; kind -> reader yields a
    function satisfying the section-reader contract (lemma `tables_total`: every kind has a contracted reader)."""
    kinds, readers = real_tables(P, modname)
    titles = [k for k in kinds]
    KIND_OF = z3.Function("KIND_OF_TITLE", StrS, IntS)
    members = P.enum_members("DocstringSectionKind")

    def has(k):
        return z3.Or(*[zstr(k) == z3.StringVal(t) for t in titles])

    def get(k):
        z = KIND_OF(zstr(k))
        P.assume(z3.And(z >= 0, z < len(members)))
        return SEnum("DocstringSectionKind", z)
    gv = P.ghost.setdefault("global_values", {})
    gv[f"{modname}:_section_kind"] = SMap(has, get, tag="_section_kind")
    table = SObj("ReaderTable", {}, frozen=True)
    hook = contract_section_reader(P, n, style)
    P.attr_hooks[("ReaderTable", "__getitem__")] = lambda P_, o, key: Builtin("section_reader", hook)
    gv[f"{modname}:_section_reader"] = table


def main_loop_spec(P, q, n, var="offset", extra_hints=None, ordinal=0):
    hints = auto_hints(dict(sections=hint_sections, admonition_title=lambda P_, nm: P_.fresh_str(nm), **(extra_hints or {})))

    def inv(P_, L, pre):
        return zint(L[var]) >= 0
    P.loop_specs[(q, ordinal)] = dict(mode="inv", name="main", inv=inv, variant=lambda P_, L, pre: mk_int(n.z - zint(L[var])), hints=hints)


@contract("C12", "google.parse_google", [G + "parse_google"], floor=4, replay="replay_parsers", split=16)
def c_parse_google(P):
    install_env(P)
    doc, lines, n = mk_docstring(P)
    install_tables(P, "_griffe.docstrings.google", n, "google")
    install_helper_contracts(P)
    P.opaque_hooks[G + "_read_block"] = contract_block(P, n)
    q = G + "parse_google"
    main_loop_spec(P, q, n)
    opts = sym_options(P, G_OPTIONS)
    P.witness["options"] = dict(opts)
    kind, res = outcome(P, lambda: call(P, q, doc, **opts))

    def post(res):
        P.prove("post.returns_a_list_of_sections", isinstance(res, (list, SSeq)) or type(res).__name__ in ("SCat", "MList"))
    finish(P, doc, kind, res, post=post)


# =========================================================================== structural lemmas (decided on the source tree)
def lemmas(tier, seed):
    from pyvc.source import SourceIndex
    from pyvc.interp import Explorer
    out = []
    idx = SourceIndex()
    idx.load_all()
    ex = Explorer(idx, max_paths=10)
    holder = {}

    def drv(P):
        for modname, names in (("_griffe.docstrings.google", G_READERS), ("_griffe.docstrings.numpy", N_READERS)):
            kinds, readers = real_tables(P, modname)
            missing = sorted({v.name for v in kinds.values()} - {k.name for k in readers})
            uncontracted = sorted(r.qualname for r in readers.values() if r.qualname not in names)
            holder[modname] = (missing, uncontracted, len(kinds), len(readers))
    ex.run(drv)
    for modname, (missing, uncontracted, nk, nr) in holder.items():
        short = modname.rsplit(".", 1)[-1]
        out.append({"name": f"{short}.tables_total", "ok": not missing and not uncontracted,
                    "detail": f"{nk} section titles map to kinds that all have a reader ({nr} readers); every reader in the table is under contract"
                              + (f"; kinds without reader: {missing}" if missing else "") + (f"; readers without contract: {uncontracted}" if uncontracted else "")})
    return out


# =========================================================================== Numpy main loop, dispatcher
@contract("C12", "numpy.parse_numpy", [N + "parse_numpy", N + "_append_section", N + "_is_dash_line", N + "_is_empty_line"], floor=4,
          replay="replay_parsers", split=16)
def c_parse_numpy(P):
    install_env(P)
    doc, lines, n = mk_docstring(P)
    install_tables(P, "_griffe.docstrings.numpy", n, "numpy")
    install_helper_contracts(P)
    q = N + "parse_numpy"
    main_loop_spec(P, q, n)
    opts = sym_options(P, N_OPTIONS)
    P.witness["options"] = dict(opts)
    kind, res = outcome(P, lambda: call(P, q, doc, **opts))
    finish(P, doc, kind, res, post=lambda r: P.prove("post.returns_a_list_of_sections", isinstance(r, (list, SSeq)) or type(r).__name__ in ("SCat", "MList")))


@contract("C12", "parsers.parse", ["_griffe.docstrings.parsers:parse", "_griffe.models:Docstring.parse"], floor=2, replay="replay_parsers")
def c_parse_dispatch(P):
    """Docstring.parse -> parsers.parse: every Parser member (and its string value) reaches a contracted parser; no parser -> one text section."""
    install_env(P)
    doc, lines, n = mk_docstring(P)
    called = []
    for mod, fn in (("google", "parse_google"), ("numpy", "parse_numpy"), ("sphinx", "parse_sphinx")):
        def hook(P_, a, k, fn=fn):
            called.append(fn)
            return hint_sections(P_, "sections_" + fn)
        P.opaque_hooks[f"_griffe.docstrings.{mod}:{fn}"] = hook
        P.opaque_hooks[f"_griffe.docstrings.parsers:{fn}"] = hook
    P.opaque_hooks["_griffe.docstrings.parsers:parse_auto"] = lambda P_, a, k: hint_sections(P_, "sections_auto")
    members = P.enum_members("Parser")
    kk = P.fresh_int("parser_choice")
    P.assume(z3.And(kk.z >= 0, kk.z <= 2 * len(members)))
    alts = [(kk.z == i, m) for i, m in enumerate(members)] + [(kk.z == len(members) + i, m.value) for i, m in enumerate(members)] + [(kk.z == 2 * len(members), None)]
    parser = P.choose(SUnion(alts))
    doc.fields["parser"] = None
    doc.fields["parser_options"] = {}
    kind, res = outcome(P, lambda: call(P, "_griffe.models:Docstring.parse", doc, parser))

    def post(r):
        if parser is None:
            seq = r if isinstance(r, (list, tuple)) else None
            P.prove("post.no_parser_gives_one_text_section", seq is not None and len(seq) == 1 and P.resolve_cls(seq[0]) == "DocstringSectionText")
        else:
            P.prove("post.parser_reached", isinstance(r, SSeq))
    finish(P, doc, kind, res, post=post)


def bounded_checks(tier, seed):
    import json, os, subprocess, time
    from pyvc.run import VERIF, VENV_PY, REPO_SRC
    t0 = time.time()
    max_lines, budget = (3, 60) if tier == "quick" else (4, 900)
    r = subprocess.run([VENV_PY, "-m", "replay.C12", str(seed), str(max_lines), str(budget), "1" if tier != "quick" else "0"], capture_output=True, text=True,
                       cwd=str(VERIF), env=dict(os.environ, PYTHONPATH=str(REPO_SRC)), timeout=budget + 600)
    if r.returncode != 0:
        raise RuntimeError("bounded C12 corpus crashed: " + r.stderr[-1500:])
    d = json.loads(r.stdout.strip().splitlines()[-1])
    return [{"check": "docstring_corpus", "tool": "native parsers on generated docstrings (line kinds of each style incl. malformed items, lone surrogates, code fences, "
             "dash lines) x option valuations x parent kinds (none, module, class, __init__, function, generator, iterator, property, attribute, classes with "
             "unresolvable / cyclic alias members); clauses: terminates (5 s watchdog), no exception, list of well-formed sections (as_dict), docstring and parent "
             "unmodified, plain text comes back as one text section",
             "bound": f"all docstrings of <= {max_lines - 1} lines over the line kinds, random ones of {max_lines}..12 lines for {budget}s; plain-text docstrings <= 4 lines",
             "cases": d["cases"], "failing": len(d["bad"]), "wall_s": round(time.time() - t0, 1), "violations": d["bad"]}]
