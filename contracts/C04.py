"""C04 — names in expressions resolve to what Python scoping binds: contracts on resolve / canonical_path / relative_to_absolute / visit_import*."""
from __future__ import annotations

import os

import z3

from pyvc.api import *  # noqa: F403
from pyvc.values import *  # noqa: F403
from pyvc import models
from specs.heap import Heap, OBJ_KINDS, ALL_KINDS

MD = "_griffe.models:"
VS = "_griffe.agents.visitor:Visitor."

TRUSTED_BASE = [
    "Object.resolve: modular recursion (the call on the parent scope is replaced by its own contract); tree well-formedness from C16",
    "relative_to_absolute spec = importlib._bootstrap._resolve_name on component sequences (anchor = the module if it is an __init__ module else its parent; "
    "strip level-1 components), clamped at the top package instead of raising; cross-validated against importlib in the bounded tier",
    "visit_import/visit_importfrom: one arbitrary imported name per statement (generic iteration); set_member by contract (C16); extensions.call is effect-free here",
]
ASSUMPTIONS = [
    "end-to-end agreement with CPython name binding for generated packages (annotations, bases, decorators, values through every import form) is a bounded native tier",
]


def mk_scope(P, H, tag, kinds):
    o = H.obj(tag, kinds)
    return o


@contract("C04", "object.resolve", [MD + "Object.resolve"], floor=6, replay="replay_scoping", shard_bits=2)
def c_resolve(P):
    H = Heap(P)
    scope = H.obj("scope", OBJ_KINDS)
    name = P.fresh_str("name")
    P.witness["name"] = name
    members = P.getattr(scope, "members")
    rec = []
    P.opaque_hooks[MD + "Object.resolve"] = lambda P_, a, k: (rec.append(a), SStr(z3.Function("RESOLVE", IntS, StrS, StrS)(a[0].ident, zstr(a[1]))))[1]
    P.opaque_hooks[MD + "Function.resolve"] = P.opaque_hooks[MD + "Object.resolve"]
    P.opaque_hooks[MD + "Alias.resolve"] = P.opaque_hooks[MD + "Object.resolve"]
    kind, res = outcome(P, lambda: call(P, MD + "Object.resolve", scope, name))
    has = models.map_has(P, members, name)
    par = P.getattr(scope, "parent")
    no_parent = zbool(P.identical(par, None))
    # Python looks a name up in the enclosing function / class scopes Griffe models, then in the module's globals, then in the builtins: the module is the
    # last scope -- the names of the package the module lives in are not visible in it (a sub-module `pkg/int.py` does not capture `int` in `pkg/mod.py`)
    last_scope = z3.Or(no_parent, z3.BoolVal(P.resolve_cls(scope) == "Module"))
    if kind == "raise":
        P.prove("only_NameResolutionError_and_only_when_the_module_scope_does_not_bind_the_name", z3.And(z3.Not(has), last_scope, P.resolve_cls(res) == "NameResolutionError"),
                exc=P.resolve_cls(res))
        P.cover("resolve.raise")
        return
    P.prove("a_name_the_module_scope_does_not_bind_is_left_to_the_builtins", z3.Or(has, z3.Not(last_scope)))
    if P.branch(has):
        m = models.map_get(P, members, name)
        m = P.choose(m) if isinstance(m, SUnion) else m
        if P.resolve_cls(m) == "Alias":
            P.prove("imported_name_resolves_to_the_import_target", zstr(res) == zstr(P.getattr(m, "target_path")))
        else:
            P.prove("member_resolves_to_its_own_path", zstr(res) == H.path_of(m))
        P.prove("own_scope_wins_no_recursion", len(rec) == 0)
    else:
        P.prove("unknown_name_needs_a_parent_scope", z3.Not(no_parent))
        p = P.choose(par) if isinstance(par, SUnion) else par
        pname = zstr(P.getattr(p, "name"))
        is_mod = P.resolve_cls(p) == "Module"
        same = z3.And(name.z == pname, not is_mod)
        if rec:
            # "enclosing class body, then module globals": the body of a class nested in another class does not see that class's names (known finding C04-F1)
            P.prove("a_nested_class_body_does_not_see_the_names_of_the_enclosing_class", not (P.resolve_cls(scope) == "Class" and P.resolve_cls(p) == "Class"),
                    scope=P.resolve_cls(scope), parent=P.resolve_cls(p))
            P.prove("recursion_into_the_parent_scope_with_the_same_name", rec[0][0] is p and zstr(rec[0][1]).sexpr() == name.z.sexpr() and len(rec) == 1)
            P.prove("enclosing_non_module_scope_named_like_the_name_is_returned_directly", z3.Not(same))
            P.prove("result_is_the_parents_answer", zstr(res).sexpr() == z3.Function("RESOLVE", IntS, StrS, StrS)(p.ident, name.z).sexpr())
        else:
            P.prove("only_the_enclosing_class_itself_short_cuts", same)
            P.prove("short_cut_returns_the_parent_path", zstr(res) == H.path_of(p))
    P.cover("resolve.ok")


@contract("C04", "function.resolve", [MD + "Function.resolve"], floor=3, replay="replay_scoping")
def c_function_resolve(P):
    H = Heap(P)
    fn = H.obj("fn", ["Function"])
    name = P.fresh_str("name")
    in_params = z3.Function("IN_PARAMS", StrS, BoolS)
    params = SObj("Parameters", {}, ident=z3.Int("params_id"))
    P.attr_hooks[("Parameters", "__contains__")] = lambda P_, o, item: in_params(zstr(item))
    fn.fields["parameters"] = params
    rec = []
    P.opaque_hooks[MD + "Object.resolve"] = lambda P_, a, k: (rec.append(a), SStr(z3.String("OBJECT_RESOLVE")))[1]
    kind, res = outcome(P, lambda: call(P, MD + "Function.resolve", fn, name))
    P.prove("never_raises_by_itself", kind == "ok", exc=str(res))
    if kind != "ok":
        return
    par = P.getattr(fn, "parent")
    has_parent = z3.Not(zbool(P.identical(par, None)))
    is_init = zstr(P.getattr(fn, "name")) == z3.StringVal("__init__")
    special = z3.And(has_parent, is_init, in_params(name.z))
    P.prove("init_parameter_resolves_to_class_call_form", z3.Implies(special, len(rec) == 0))
    P.prove("everything_else_uses_object_scoping", z3.Implies(z3.Not(special), len(rec) == 1 and zstr(res).sexpr() == z3.String("OBJECT_RESOLVE").sexpr()))
    if not rec:
        p = P.choose(par) if isinstance(par, SUnion) else par
        P.prove("class_call_form", zstr(res) == z3.Concat(H.path_of(p), z3.StringVal("("), name.z, z3.StringVal(")")))
    P.cover("function.resolve")


@contract("C04", "exprname.canonical_path", ["_griffe.expressions:ExprName.canonical_path", "_griffe.expressions:ExprName.path"], floor=5, replay="replay_scoping")
def c_canonical_path(P):
    H = Heap(P)
    name = P.fresh_str("name")
    which = z3.Int("parent_kind")
    P.assume(z3.And(which >= 0, which <= 3))
    P.witness["parent_kind"] = SInt(which)
    if P.branch(which == 0):
        parent = None
    elif P.branch(which == 1):
        parent = SObj("ExprName", {"name": P.fresh_str("parent_name"), "parent": None}, ident=z3.Int("parent_expr_id"))
        PARENT_CP = z3.String("PARENT_CANONICAL_PATH")
    elif P.branch(which == 2):
        parent = P.fresh_str("parent_str")
    else:
        parent = H.obj("scope", ["Module", "Class"])
    e = SObj("ExprName", {"name": name, "parent": parent}, ident=z3.Int("expr_id"))
    raised = z3.Bool("scope_cannot_resolve")

    def resolve(P_, a, k):
        if P_.branch(raised):
            raise PyExc(SObj("NameResolutionError", {"args": ("x",)}))
        return SStr(z3.String("SCOPE_RESOLVED"))
    P.opaque_hooks[MD + "Object.resolve"] = resolve
    real_cp = P.find_class_member("ExprName", "canonical_path")[1]
    if isinstance(parent, SObj) and parent.cls == "ExprName":
        P.attr_hooks[("ExprName", "canonical_path")] = lambda P_, o: SStr(z3.String("PARENT_CANONICAL_PATH")) if o is parent else P_.call_closure(real_cp, [o], {})
    kind, res = outcome(P, lambda: P.getattr(e, "canonical_path"))
    P.prove("resolution_never_raises", kind == "ok", exc=str(res))
    if kind != "ok":
        return
    r = zstr(res)
    if parent is None:
        P.prove("no_scope_returns_the_bare_name", r == name.z)
    elif isinstance(parent, SObj) and parent.cls == "ExprName":
        P.prove("attribute_chain_resolves_segment_by_segment_from_the_root", r == z3.Concat(z3.String("PARENT_CANONICAL_PATH"), z3.StringVal("."), name.z))
    elif isinstance(parent, SStr):
        P.prove("string_parent_is_a_prefix", r == z3.Concat(parent.z, z3.StringVal("."), name.z))
    else:
        P.prove("scope_answer_or_bare_name_when_unbound", r == z3.If(raised, name.z, z3.String("SCOPE_RESOLVED")))
    P.cover("canonical_path")


@contract("C04", "relative_to_absolute", ["_griffe.agents.nodes.imports:relative_to_absolute"], floor=2, replay="replay_scoping", tier="BS",
          note="import level 0..3, module nested <= 3 packages deep; paths, names and __init__-ness symbolic", shard_bits=2)
def c_relative(P):
    H = Heap(P, hook_path=True)
    lvl = z3.Int("level")
    P.assume(z3.And(lvl >= 0, lvl <= 3))
    level = next(k for k in range(4) if P.branch(lvl == k) or k == 3)
    depth_z = z3.Int("ancestors")
    P.assume(z3.And(depth_z >= 0, depth_z <= 3))
    depth = next(k for k in range(4) if P.branch(depth_z == k) or k == 3)
    chain = [H.obj(f"m{i}", ["Module"]) for i in range(depth + 1)]
    for i, m in enumerate(chain):
        m.fields["parent"] = chain[i + 1] if i + 1 < len(chain) else None
    INIT = z3.Function("IS_INIT_MODULE", IntS, BoolS)
    P.attr_hooks[("Module", "is_init_module")] = lambda P_, o: SBool(INIT(o.ident))
    module_none = z3.Bool("node_module_none")
    node_module = P.fresh_str("node_module")
    node = SObj("ast.ImportFrom", {"level": level, "module": SUnion([(module_none, None), (z3.Not(module_none), node_module)])}, frozen=True)
    P.assume(z3.Length(node_module.z) > 0)
    iname = P.fresh_str("imported_name")
    alias = SObj("ast.alias", {"name": iname, "asname": None}, frozen=True)
    P.witness.update(level=level, ancestors=depth, module_is_init=SBool(INIT(chain[0].ident)))
    kind, res = outcome(P, lambda: call(P, "_griffe.agents.nodes.imports:relative_to_absolute", node, alias, chain[0]))
    P.prove("never_raises", kind == "ok", exc=str(res))
    if kind != "ok":
        return
    mod_part = z3.If(module_none, z3.StringVal(""), z3.Concat(node_module.z, z3.StringVal(".")))
    if level == 0:
        exp = z3.Concat(mod_part, iname.z)
    else:
        init = INIT(chain[0].ident)
        # importlib: anchor package = module itself if it is an __init__ module, else its parent; then strip level-1 components
        def anc(k):
            return chain[min(k, depth)]
        exp_init = z3.Concat(H.path_of(anc(level - 1)), z3.StringVal("."), mod_part, iname.z)
        exp_plain = z3.Concat(H.path_of(anc(level)), z3.StringVal("."), mod_part, iname.z)
        exp = z3.If(init, exp_init, exp_plain)
    P.prove("equals_importlib_resolve_name", zstr(res) == exp)
    P.cover("relative_to_absolute")


def mk_visitor(P, H):
    cur = H.obj("current", ["Module", "Class"])
    cur.fields["imports"] = {}
    v = SObj("Visitor", {"current": cur, "type_guarded": SBool(z3.Bool("type_guarded")), "extensions": Opaque("lenient:extensions")}, ident=z3.Int("visitor_id"))
    sets = []
    P.opaque_hooks["_griffe.mixins:SetMembersMixin.set_member"] = lambda P_, a, k: sets.append(a)
    P.opaque_hooks["new:Alias"] = lambda P_, a, k: SObj("Alias", {"name": a[0], "target_path": a[1], "alias_lineno": k.get("lineno"), "alias_endlineno": k.get("endlineno"),
                                                            "runtime": k.get("runtime")}, ident=P_.new_ident())
    return v, cur, sets


@contract("C04", "visit_import.per_name", [VS + "visit_import"], floor=5, replay="replay_scoping")
def c_visit_import(P):
    H = Heap(P)
    v, cur, sets = mk_visitor(P, H)
    dotted = P.fresh_str("dotted_name")
    asname = opt(P, "asname", lambda: P.fresh_str("asname_text"))
    P.assume(z3.Length(z3.String("asname_text")) > 0)     # ast invariant: asname is None or a non-empty identifier
    P.assume(z3.Length(dotted.z) > 0)
    P.assume(z3.Not(z3.PrefixOf(z3.StringVal("."), dotted.z)))
    al = SObj("ast.alias", {"name": dotted, "asname": asname}, frozen=True)
    node = SObj("ast.Import", {"names": [al], "lineno": P.fresh_int("lineno"), "end_lineno": P.fresh_int("end_lineno")}, frozen=True)
    kind, res = outcome(P, lambda: call(P, VS + "visit_import", v, node))
    P.prove("never_raises", kind == "ok", exc=str(res))
    if kind != "ok":
        return
    P.prove("exactly_one_alias_per_imported_name", len(sets) == 1)
    if len(sets) != 1:
        return
    _, key, alias = sets[0]
    has_as = z3.Not(asname.alts[0][0])
    first = SStr(z3.String("first_component"))
    # first component of the dotted name: dotted == first or dotted startswith first + "."
    fc = zstr(alias.fields["name"])
    P.prove("import_a_b_binds_the_first_component", z3.Implies(z3.Not(has_as), z3.And(zstr(alias.fields["target_path"]) == fc,
            z3.Or(dotted.z == fc, z3.PrefixOf(z3.Concat(fc, z3.StringVal(".")), dotted.z)), z3.Not(z3.Contains(fc, z3.StringVal("."))))))
    P.prove("import_a_b_as_c_binds_c_to_the_full_path", z3.Implies(has_as, z3.And(fc == zstr(asname.alts[1][1]), zstr(alias.fields["target_path"]) == dotted.z)))
    P.prove("member_keyed_by_bound_name", zstr(key) == fc)
    imp = cur.fields["imports"]
    items = [(k.v if isinstance(k, models._SymKey) else k, val) for k, val in imp.items()]
    P.prove("import_map_records_the_binding", len(items) == 1 and zstr(items[0][0]).sexpr() == fc.sexpr() and zstr(items[0][1]).sexpr() == zstr(alias.fields["target_path"]).sexpr())
    P.prove("runtime_flag_is_not_type_guarded", zbool(alias.fields["runtime"]) == z3.Not(z3.Bool("type_guarded")))
    P.prove("span_is_the_statement", alias.fields["alias_lineno"] is node.fields["lineno"] and alias.fields["alias_endlineno"] is node.fields["end_lineno"])
    P.cover("visit_import")


@contract("C04", "visit_importfrom.per_name", [VS + "visit_importfrom"], floor=5, replay="replay_scoping", shard_bits=2)
def c_visit_importfrom(P):
    H = Heap(P)
    v, cur, sets = mk_visitor(P, H)
    module = H.obj("module", ["Module"])
    P.attr_hooks[("Object", "module")] = lambda P_, o: module
    INIT = z3.Bool("current_module_is_init")
    P.attr_hooks[("Module", "is_init_module")] = lambda P_, o: SBool(INIT)
    ABS = z3.String("ABSOLUTE_PATH")
    P.opaque_hooks["_griffe.agents.nodes.imports:relative_to_absolute"] = lambda P_, a, k: SStr(ABS)
    P.opaque_hooks["_griffe.agents.visitor:relative_to_absolute"] = lambda P_, a, k: SStr(ABS)
    name = P.fresh_str("imported_name")
    star = z3.Bool("is_star")
    P.assume(star == (name.z == z3.StringVal("*")))
    asname = opt(P, "asname", lambda: P.fresh_str("asname_text"))
    P.assume(z3.Length(z3.String("asname_text")) > 0)     # ast invariant: asname is None or a non-empty identifier
    P.assume(z3.Length(name.z) > 0)
    module_none = z3.Bool("node_module_none")
    level = P.fresh_int("level")
    P.assume(level.z >= 0)
    al = SObj("ast.alias", {"name": name, "asname": asname}, frozen=True)
    node = SObj("ast.ImportFrom", {"names": [al], "module": SUnion([(module_none, None), (z3.Not(module_none), P.fresh_str("node_module"))]), "level": level,
                                   "lineno": P.fresh_int("lineno"), "end_lineno": P.fresh_int("end_lineno")}, frozen=True)
    P.assume(z3.Length(node.fields["module"].alts[1][1].z) > 0)
    kind, res = outcome(P, lambda: call(P, VS + "visit_importfrom", v, node))
    P.prove("never_raises", kind == "ok", exc=str(res))
    if kind != "ok":
        return
    has_as = z3.Not(asname.alts[0][0])
    skip_sub = z3.And(module_none, level.z == 1, z3.Not(has_as), INIT)     # `from . import x` in an __init__ module: x is a submodule
    bound = z3.If(has_as, zstr(asname.alts[1][1]), name.z)
    self_alias = z3.And(z3.Not(star), ABS == z3.Concat(H.path_of(cur), z3.StringVal("."), bound))
    P.prove("at_most_one_alias_per_imported_name", len(sets) <= 1)
    P.prove("submodule_import_in_init_and_self_import_create_no_alias", z3.Implies(z3.Not(star), z3.Or(skip_sub, self_alias) == (len(sets) == 0)), sets=len(sets))
    P.prove("wildcard_import_in_init_submodule_form_is_skipped_too", z3.Implies(z3.And(star, skip_sub), len(sets) == 0))
    imp = cur.fields["imports"]
    items = [(k.v if isinstance(k, models._SymKey) else k, val) for k, val in imp.items()]
    P.prove("import_map_only_for_non_wildcard_names", z3.And(z3.Not(skip_sub), z3.Not(star)) == (len(items) == 1), items=len(items))
    if items:
        P.prove("import_map_binds_the_bound_name_to_the_absolute_path", z3.And(zstr(items[0][0]) == bound, zstr(items[0][1]) == ABS))
    if sets:
        _, key, alias = sets[0]
        P.prove("alias_named_by_asname_or_name", z3.Implies(z3.Not(star), z3.And(zstr(alias.fields["name"]) == bound, zstr(alias.fields["target_path"]) == ABS)))
        P.prove("member_keyed_by_alias_name", zstr(key).sexpr() == zstr(alias.fields["name"]).sexpr())
        P.prove("runtime_flag_is_not_type_guarded", zbool(alias.fields["runtime"]) == z3.Not(z3.Bool("type_guarded")))
    P.cover("visit_importfrom")


def bounded_checks(tier, seed):
    import json, os, subprocess, time
    from pyvc.run import VERIF, VENV_PY, REPO_SRC
    t0 = time.time()
    r = subprocess.run([VENV_PY, "-m", "replay.C04"], capture_output=True, text=True, cwd=str(VERIF), env=dict(os.environ, PYTHONPATH=str(REPO_SRC)), timeout=600)
    if r.returncode != 0:
        raise RuntimeError("bounded C04 sweep crashed: " + r.stderr[-1500:])
    d = json.loads(r.stdout.strip().splitlines()[-1])
    return [{"check": "scoping_fixture", "tool": "fixture package imported by CPython: the object bound to every annotated name vs. Griffe's canonical_path (followed through aliases)",
             "bound": "11 modules, packages nested 3 deep, every import form (plain, aliased, dotted, from, relative level 1-3 from modules and __init__ modules), class and module scope, a sub-module named like a builtin; annotations and base classes against CPython's own binding",
             "cases": d["cases"], "failing": len(d["bad"]), "wall_s": round(time.time() - t0, 1), "violations": d["bad"]}]


EX = "_griffe.expressions:"


@contract("C04", "_build_attribute.name_chain", [EX + "_build_attribute", EX + "ExprAttribute.append", EX + "ExprAttribute.last", EX + "ExprAttribute.canonical_path", EX + "ExprAttribute.path"],
          floor=5, replay="replay_scoping")
def c_build_attribute(P):
    """`value.attr`: the new name is linked to the name on its left (so it resolves as <root>.b.c segment by segment); a dotted chain stays one flat chain in
    source order; a string on the left gives builtin-`str` members; anything else leaves the new name without scope."""
    parent = SObj("Module", {}, ident=z3.Int("scope_id"), frozen=True)
    attr = P.fresh_str("attr")
    which = z3.Int("left_kind")     # 0 dotted chain, 1 name, 2 string literal, 3 other expression
    P.assume(z3.And(which >= 0, which <= 3))
    P.witness["left_kind"] = SInt(which)
    root = SObj("ExprName", {"name": P.fresh_str("root_name"), "parent": parent}, ident=z3.Int("root_id"))
    if P.branch(which == 0):
        second = SObj("ExprName", {"name": P.fresh_str("second_name"), "parent": root}, ident=z3.Int("second_id"))
        left = SObj("ExprAttribute", {"values": [root, second]}, ident=z3.Int("chain_id"))
    elif P.branch(which == 1):
        left = root
    elif P.branch(which == 2):
        left = P.fresh_str("string_literal")
    else:
        left = SObj("ExprCall", {}, ident=z3.Int("call_id"), frozen=True)
    P.opaque_hooks[EX + "_build"] = lambda P_, a, k: left
    node = SObj("ast.Attribute", {"value": SObj("ast.expr", {}, frozen=True), "attr": attr}, frozen=True)
    kind, res = outcome(P, lambda: call(P, EX + "_build_attribute", node, parent))
    if kind == "raise":
        P.prove("never_raises", False, exc=P.resolve_cls(res))
        return
    P.prove("result_is_an_attribute_chain", isinstance(res, SObj) and P.resolve_cls(res) == "ExprAttribute")
    vals = res.fields["values"]
    new = vals[-1]
    P.prove("chain_ends_with_the_new_name", P.resolve_cls(new) == "ExprName" and new.fields["name"] is attr)
    if isinstance(left, SObj) and left.cls == "ExprAttribute":
        P.prove("dotted_chain_stays_one_flat_chain_in_source_order", res is left and len(vals) == 3 and vals[0] is root and vals[1] is second)
        P.prove("new_name_is_resolved_through_the_name_on_its_left", new.fields["parent"] is second)
    elif left is root:
        P.prove("two_names_in_source_order", len(vals) == 2 and vals[0] is root)
        P.prove("new_name_is_resolved_through_the_name_on_its_left", new.fields["parent"] is root)
    elif isinstance(left, SStr):
        P.prove("string_literal_members_are_str_members", len(vals) == 2 and vals[0] is left and new.fields["parent"] == "str")
    else:
        P.prove("other_expressions_give_an_unscoped_name", len(vals) == 2 and vals[0] is left and new.fields["parent"] is None)
    # the chain's paths are those of its last name
    CP = z3.Function("NAME_CANONICAL_PATH", IntS, StrS)
    P.attr_hooks[("ExprName", "canonical_path")] = lambda P_, o: SStr(CP(o.ident)) if o.ident is not None else models.NOATTR
    k2, cp = outcome(P, lambda: P.getattr(res, "canonical_path"))
    P.prove("chain_canonical_path_is_that_of_its_last_name", k2 == "ok" and new.ident is not None and zstr(cp).eq(CP(new.ident)) if new.ident is not None else k2 == "ok")
    P.cover("_build_attribute")


# --------------------------------------------------------------------------- class statements: where the names of bases and decorators are bound
from contracts import C01 as _C01  # noqa: E402  (the visit_classdef fixture and driver live with the C01 handler contracts)


@contract("C04", "visit_classdef.bases_and_decorators_scope", [VS + "visit_classdef"], floor=5, replay="replay_scoping", split=16)
def c_classdef_scope(P):
    """Python evaluates the decorators and base classes of a class statement in the scope the statement stands in, before the class body exists: the
    expressions Griffe stores for them are given that scope (the scope current on entry), the class body is visited with the class as scope, and the
    scope is restored afterwards."""
    _C01.visit_classdef_driver(P, "C04")
