"""C13 — well-formed docstrings parse back to what was written: structural contracts on the real readers and main loops.

The property is a round trip through a renderer that is not part of the library, so the deductive part pins down what makes the round trip work:

  block readers      line classification of _read_block_items (Google, Numpy), one generic line from an arbitrary reader state: a blank line and an
                     indented line always continue the current item, an item-level line starts a new item, the section ends only where the layout
                     says (lower indentation / a title + dash line); the returned offset is the last line read (nothing skipped, nothing read twice)
  item readers       one generic item from an arbitrary carried state: every field of the element produced for the item is determined by that item's
                     lines and by the documented object's signature -- never by a previous item (no leakage between items); omitted annotations /
                     defaults come from the parent lookup or are None
  main loops         an iteration that starts a known section leaves no state of the previous section behind (text buffer flushed and emptied,
                     admonition title cleared), so content never leaks across section boundaries
  tables             every documented section title maps to its kind, every kind to the reader of that kind

The rendered-then-parsed equality itself (names, annotations, defaults, descriptions, titles, order) is checked by the native round-trip tier.
"""
from __future__ import annotations

import z3

from pyvc.api import *  # noqa: F403
from pyvc.values import *  # noqa: F403
from pyvc import models
from pyvc.models import ufn
from contracts import C12 as K

G, N, S = K.G, K.N, K.S
REPLAY_KEYED_BY_EXPECTS = True

TRUSTED_BASE = K.TRUSTED_BASE + [
    "no-leakage is checked as non-interference: after one generic iteration from a havocked (arbitrary) carried state, no field of the element created for the "
    "item mentions a havocked symbol",
    "the renderer of the native round-trip tier writes the layouts documented in docs/reference/docstrings.md (Google: indented items 'name (type): text'; "
    "Numpy: 'name : type' + indented text, sections underlined with dashes; Sphinx: ':param type name: text' fields)",
]
ASSUMPTIONS = [
    "not covered deductively: equality of the recovered field texts with the written ones (regular-expression level) -- native round-trip tier only (bounded)",
]

ELEMENT_CLASSES = ["DocstringParameter", "DocstringAttribute", "DocstringReturn", "DocstringYield", "DocstringReceive", "DocstringRaise", "DocstringWarn",
                   "DocstringFunction", "DocstringClass", "DocstringModule"]


# ---------------------------------------------------------------------------- taint: does a value mention carried (havocked) state?
def z3_consts(t, acc):
    stack, seen = [t], set()
    while stack:
        x = stack.pop()
        if x.get_id() in seen:
            continue
        seen.add(x.get_id())
        if z3.is_app(x):
            if x.num_args() == 0 and x.decl().kind() == z3.Z3_OP_UNINTERPRETED:
                acc.add(x.decl().name())
            else:
                if x.decl().kind() == z3.Z3_OP_UNINTERPRETED:
                    acc.add(x.decl().name())
                stack.extend(x.children())


TAINT_MARK = ["@L"]


def _is_taint(n):
    return TAINT_MARK[0] in n and not n.startswith("__i")


def tainted(v, depth=0):
    """Names of havocked symbols of the item loop (created at its head: '<var>@L<loop>...', the ghost index aside) the value depends on."""
    out = set()
    if depth > 6 or v is None or isinstance(v, (bool, int, str)):
        return out
    if isinstance(v, (SStr, SInt, SBool)):
        acc = set()
        z3_consts(v.z, acc)
        return {n for n in acc if _is_taint(n)}
    if isinstance(v, SUnion):
        for g, x in v.alts:
            acc = set()
            z3_consts(g, acc)
            out |= {n for n in acc if _is_taint(n)}
            out |= tainted(x, depth + 1)
        return out
    if isinstance(v, SAny):
        return {"carried:" + v.origin} if v.origin.startswith("carried") and _is_taint(v.origin) else set()
    if isinstance(v, (list, tuple)):
        for x in v:
            out |= tainted(x, depth + 1)
        return out
    if isinstance(v, SSeq):
        if not isinstance(v.len, int):
            acc = set()
            z3_consts(zint(v.len), acc)
            out |= {n for n in acc if _is_taint(n)}
        return out
    if isinstance(v, MList):
        return tainted(v.seq, depth + 1)
    return out


def hint_carried_annotation(P, name):
    g1, g2 = z3.Bool(P._fresh_name(name + "_is_none")), z3.Bool(P._fresh_name(name + "_is_str"))
    return SUnion([(g1, None), (z3.And(z3.Not(g1), g2), P.fresh_str(name + "_str")), (z3.And(z3.Not(g1), z3.Not(g2)), SAny("carried." + name))])


def install_element_recording(P):
    created = []
    P.ghost["created"] = created

    def mk(cls):
        def hook(P_, a, k):
            fields = dict(k)
            if cls in ("DocstringParameter",) and a:
                fields.setdefault("name", a[0])
            elif a:
                fields.setdefault("name", a[0])
            o = SObj(cls, fields, ident=P_.new_ident())
            created.append(o)
            return o
        return hook
    for cls in ELEMENT_CLASSES:
        P.opaque_hooks["new:" + cls] = mk(cls)
    return created


def item_loop_spec(P, q, created, extra=None):
    """Every item loop of reader `q`: one generic iteration from an arbitrary carried state; the created element must not depend on it."""
    import ast as _ast
    mi, node, cls = P.index.find_function(q)
    loops_ = [x for x in _ast.walk(node) if isinstance(x, (_ast.For, _ast.While))]
    loops_.sort(key=lambda x: (x.lineno, x.col_offset))
    hints = K.auto_hints(dict({v: hint_carried_annotation for v in K.ANNOT_VARS}, **(extra or {})))
    outer = [lp for lp in loops_ if isinstance(lp, _ast.For) and not isinstance(lp.iter, (_ast.Tuple, _ast.List))]
    for i, lp in enumerate(loops_):
        if isinstance(lp, _ast.For) and not isinstance(lp.iter, (_ast.Tuple, _ast.List)):
            is_items_loop = lp is outer[0]

            def post_body(P_, before, after, is_items_loop=is_items_loop, loop_name=f"for{i}"):
                if not is_items_loop:
                    return
                TAINT_MARK[0] = "@L" + loop_name      # carried state of the item loop (inner lookup loops havoc with their own mark)
                for o in created:
                    bad = {}
                    for fld, val in o.fields.items():
                        t = tainted(val)
                        if t:
                            bad[fld] = sorted(t)[:3]
                    P_.expects["clause"] = "item-leak"
                    P_.prove("element_of_an_item_depends_only_on_that_item_and_the_signature", not bad, leaked=str(bad), element=P_.resolve_cls(o))
            P.loop_specs[(q, i)] = dict(mode="inv", name=f"for{i}", hints=hints, post_body=post_body)


def reader_items_driver(style, fname, helper_fns=()):
    mod = G if style == "google" else N

    def driver(P):
        K.install_env(P)
        K.install_helper_contracts(P)
        created = install_element_recording(P)
        doc, lines, n = K.mk_docstring(P)
        offset = P.fresh_int("offset")
        P.assume(K.rd_pre(n.z, offset.z))
        P.opaque_hooks[mod + "_read_block_items"] = K.contract_block_items(P, n, style == "google")
        P.opaque_hooks[mod + "_read_block"] = K.contract_block(P, n)
        for f in tuple(helper_fns) + (fname,):
            item_loop_spec(P, mod + f, created)
        opts = K.sym_options(P, K.G_OPTIONS if style == "google" else K.N_OPTIONS)
        kind, res = outcome(P, lambda: call(P, mod + fname, doc, offset=offset, **opts))
        if kind == "raise":
            return      # exceptions are C12's subject
        P.cover(fname)
    return driver


G_ITEM_READERS = {"_read_parameters_section": ("_read_parameters",), "_read_other_parameters_section": ("_read_parameters",), "_read_attributes_section": (),
                  "_read_functions_section": (), "_read_classes_section": (), "_read_modules_section": (), "_read_raises_section": (), "_read_warns_section": (),
                  "_read_returns_section": ("_read_block_items_maybe",), "_read_yields_section": ("_read_block_items_maybe",), "_read_receives_section": ("_read_block_items_maybe",)}
N_ITEM_READERS = {"_read_parameters_section": ("_read_parameters",), "_read_other_parameters_section": ("_read_parameters",), "_read_attributes_section": (),
                  "_read_functions_section": (), "_read_classes_section": (), "_read_modules_section": (), "_read_raises_section": (), "_read_warns_section": (),
                  "_read_returns_section": (), "_read_yields_section": (), "_read_receives_section": ()}

for _f, _h in G_ITEM_READERS.items():
    contract("C13", "google.items." + _f, [G + _f] + [G + x for x in _h], floor=1, replay="replay_roundtrip", split=16)(reader_items_driver("google", _f, _h))
for _f, _h in N_ITEM_READERS.items():
    contract("C13", "numpy.items." + _f, [N + _f] + [N + x for x in _h], floor=1, replay="replay_roundtrip", split=16)(reader_items_driver("numpy", _f, _h))


# ============================================================================ block readers: line classification
def _record_head_length(P, spec, get):
    """The current item is a list mutated in place: remember its length at the loop head (second evaluation of the invariant = right after the havoc)."""
    inv0 = spec["inv"]
    seen = []

    def inv(P_, L, pre):
        seen.append(zint(models._b_len(P_, [get(L)], {})))
        if len(seen) == 2:
            P_.ghost["head_len"] = seen[1]
        return inv0(P_, L, pre)
    spec["inv"] = inv


SP4 = z3.StringVal("    ")


def _same_cell(a, b):
    return a is b


@contract("C13", "numpy._read_block_items.line_classification", [N + "_read_block_items"], floor=4, replay="replay_roundtrip")
def c_numpy_lines(P):
    K.install_env(P)
    K.install_helper_contracts(P)
    doc, lines, n = K.mk_docstring(P)
    offset = P.fresh_int("offset")
    P.assume(K.rd_pre(n.z, offset.z))
    q = N + "_read_block_items"
    K.n_block_items_loops(P, q, n)
    spec = P.loop_specs[(q, 1)]
    DASH = lambda z: z3.And(z3.Not(K.blank(z)), K.blank(ufn("str_replace", StrS, StrS, StrS, StrS)(z, z3.StringVal("-"), z3.StringVal(""))))  # noqa: E731
    P.expects["clause"] = "block-lines"

    def line_at(view):
        i = zint(view["new_offset"])
        return i, K.LINE(i)

    def post_body(P_, before, after):
        i = zint(before["new_offset"])
        line = K.LINE(i)
        cur_before, cur_after = before["current_item"], after["current_item"]
        items_before, items_after = before["items"], after["items"]
        indented = z3.And(z3.Not(K.blank(line)), z3.PrefixOf(z3.StringVal(" "), line))
        continued = cur_after is cur_before and items_after is items_before
        grew = zint(models._b_len(P_, [cur_after], {})) == P_.ghost["head_len"] + 1 if continued else z3.BoolVal(False)
        P_.prove("a_blank_or_indented_line_continues_the_current_item", z3.Implies(z3.Or(K.blank(line), indented), z3.And(z3.BoolVal(continued), grew)))
        if not continued:
            # a new item starts: the previous one is kept, in order, and the new one begins with this very line
            P_.prove("an_item_level_line_starts_a_new_item", z3.And(z3.Not(K.blank(line)), z3.Not(z3.PrefixOf(z3.StringVal(" "), line))))
            first = models.getitem(P_, cur_after, 0)
            P_.prove("the_new_item_begins_with_the_line", zstr(first) == line)
            n_after, n_before = zint(P_.seq_len(P_.to_seq(items_after))), zint(P_.seq_len(P_.to_seq(items_before)))
            P_.prove("the_finished_item_is_kept_in_order", z3.And(n_after == n_before + 1, z3.BoolVal(P_.seq_at(P_.to_seq(items_after), mk_int(n_before)) is cur_before)))
        P_.prove("every_line_is_read_exactly_once", zint(after["new_offset"]) == i + 1)

    def on_break(P_, view):
        i, line = line_at(view)
        nxt = K.LINE(i + 1)
        P_.prove("the_section_ends_only_at_an_item_level_line_followed_by_a_dash_line",
                 z3.And(z3.Not(K.blank(line)), z3.Not(z3.PrefixOf(z3.StringVal(" "), line)), i + 1 < n.z, DASH(nxt)))
    spec["post_body"] = post_body
    spec["on_break"] = on_break
    _record_head_length(P, spec, lambda L: L["current_item"])
    kind, res = outcome(P, lambda: call(P, q, doc, offset=offset))
    if kind == "ok":
        P.cover("numpy.lines")


@contract("C13", "google._read_block_items.line_classification", [G + "_read_block_items"], floor=4, replay="replay_roundtrip")
def c_google_lines(P):
    K.install_env(P)
    K.install_helper_contracts(P)
    doc, lines, n = K.mk_docstring(P)
    offset = P.fresh_int("offset")
    P.assume(K.rd_pre(n.z, offset.z))
    q = G + "_read_block_items"
    K.g_block_items_loops(P, q, n)
    spec = P.loop_specs[(q, 1)]
    P.expects["clause"] = "block-lines"
    LSTRIP = ufn("str_lstrip", StrS, StrS)

    def ind(z):
        return z3.Length(z) - z3.Length(LSTRIP(z))

    def post_body(P_, before, after):
        i = zint(before["new_offset"])
        line = K.LINE(i)
        indent = zint(before["indent"])
        cur_before, cur_after = before["current_item"], after["current_item"]
        items_before, items_after = before["items"], after["items"]
        continued = cur_after is cur_before and items_after is items_before
        # deeper than the item indentation (or blank) => continuation; the engine's repeat(" ", k) is a string of k characters, startswith is exact
        P_.prove("every_line_is_read_exactly_once", zint(after["new_offset"]) == i + 1)
        P_.prove("a_blank_line_continues_the_current_item", z3.Implies(K.blank(line), z3.BoolVal(continued)))
        if not continued:
            P_.prove("a_new_item_starts_only_on_a_non_blank_line", z3.Not(K.blank(line)))
            n_after, n_before = zint(P_.seq_len(P_.to_seq(items_after))), zint(P_.seq_len(P_.to_seq(items_before)))
            P_.prove("the_finished_item_is_kept_in_order", z3.And(n_after == n_before + 1, z3.BoolVal(P_.seq_at(P_.to_seq(items_after), mk_int(n_before)) is cur_before)))
            P_.prove("the_new_item_remembers_its_line_number", zint(cur_after[0]) == i)
        else:
            P_.prove("a_continuation_line_extends_the_item_by_one_line", zint(models._b_len(P_, [cur_after[1]], {})) == P_.ghost["head_len"] + 1)

    def on_break(P_, view):
        i = zint(view["new_offset"])
        P_.prove("the_section_ends_only_at_a_non_blank_line", z3.Not(K.blank(K.LINE(i))))
    spec["post_body"] = post_body
    spec["on_break"] = on_break
    _record_head_length(P, spec, lambda L: L["current_item"][1])
    kind, res = outcome(P, lambda: call(P, q, doc, offset=offset))
    if kind == "ok":
        P.cover("google.lines")


# ============================================================================ main loops: a new section leaves nothing of the previous one behind
@contract("C13", "numpy.parse_numpy.section_start_resets_state", [N + "parse_numpy"], floor=2, replay="replay_roundtrip", split=16)
def c_numpy_main(P):
    K.install_env(P)
    doc, lines, n = K.mk_docstring(P)
    K.install_tables(P, "_griffe.docstrings.numpy", n, "numpy")
    K.install_helper_contracts(P)
    q = N + "parse_numpy"
    K.main_loop_spec(P, q, n)
    spec = P.loop_specs[(q, 0)]
    calls = []
    orig = P.attr_hooks[("ReaderTable", "__getitem__")]

    def table_get(P_, o, key):
        b = orig(P_, o, key)

        def fn(P__, a, k):
            calls.append(1)
            return b.fn(P__, a, k)
        return Builtin("section_reader", fn)
    P.attr_hooks[("ReaderTable", "__getitem__")] = table_get
    flushed = []
    P.opaque_hooks[N + "_append_section"] = lambda P_, a, k: flushed.append((a[1], a[2]))
    P.expects["clause"] = "main-loop"

    def post_body(P_, before, after):
        if calls:
            title = after["admonition_title"]
            P_.prove("a_known_section_clears_the_pending_admonition_title", P_.eq(title, ""), title=str(title))
            cs = after["current_section"]
            P_.prove("a_known_section_starts_with_an_empty_text_buffer", zint(P_.seq_len(P_.to_seq(cs))) == 0)
            P_.prove("the_text_before_the_section_is_flushed_first", len(flushed) >= 1 and flushed[0][0] is before["current_section"])
    spec["post_body"] = post_body
    opts = K.sym_options(P, K.N_OPTIONS)
    outcome(P, lambda: call(P, q, doc, **opts))


@contract("C13", "google.parse_google.section_start_resets_state", [G + "parse_google"], floor=1, replay="replay_roundtrip", split=16)
def c_google_main(P):
    K.install_env(P)
    doc, lines, n = K.mk_docstring(P)
    K.install_tables(P, "_griffe.docstrings.google", n, "google")
    K.install_helper_contracts(P)
    P.opaque_hooks[G + "_read_block"] = K.contract_block(P, n)
    q = G + "parse_google"
    K.main_loop_spec(P, q, n)
    spec = P.loop_specs[(q, 0)]
    calls = []
    orig = P.attr_hooks[("ReaderTable", "__getitem__")]

    def table_get(P_, o, key):
        b = orig(P_, o, key)

        def fn(P__, a, k):
            calls.append(1)
            return b.fn(P__, a, k)
        return Builtin("section_reader", fn)
    P.attr_hooks[("ReaderTable", "__getitem__")] = table_get
    P.expects["clause"] = "main-loop"

    def post_body(P_, before, after):
        if calls:
            cs = after["current_section"]
            P_.prove("a_known_section_starts_with_an_empty_text_buffer", zint(P_.seq_len(P_.to_seq(cs))) == 0)
    spec["post_body"] = post_body
    opts = K.sym_options(P, K.G_OPTIONS)
    outcome(P, lambda: call(P, q, doc, **opts))


# ============================================================================ tables against the documentation
DOC_TITLES = {
    "google": {"args": "parameters", "arguments": "parameters", "params": "parameters", "parameters": "parameters", "keyword args": "other parameters",
               "keyword arguments": "other parameters", "other args": "other parameters", "other arguments": "other parameters", "other params": "other parameters",
               "other parameters": "other parameters", "raises": "raises", "exceptions": "raises", "returns": "returns", "yields": "yields", "receives": "receives",
               "examples": "examples", "attributes": "attributes", "functions": "functions", "methods": "functions", "classes": "classes", "modules": "modules",
               "warns": "warns", "warnings": "warns"},
    "numpy": {"deprecated": "deprecated", "parameters": "parameters", "other parameters": "other parameters", "returns": "returns", "yields": "yields", "receives": "receives",
              "raises": "raises", "warns": "warns", "examples": "examples", "attributes": "attributes", "functions": "functions", "methods": "functions", "classes": "classes",
              "modules": "modules"},
}
READER_OF_KIND = {"parameters": "_read_parameters_section", "other parameters": "_read_other_parameters_section", "raises": "_read_raises_section",
                  "warns": "_read_warns_section", "examples": "_read_examples_section", "attributes": "_read_attributes_section", "functions": "_read_functions_section",
                  "classes": "_read_classes_section", "modules": "_read_modules_section", "returns": "_read_returns_section", "yields": "_read_yields_section",
                  "receives": "_read_receives_section", "deprecated": "_read_deprecated_section"}


def lemmas(tier, seed):
    from pyvc.source import SourceIndex
    from pyvc.interp import Explorer
    idx = SourceIndex()
    idx.load_all()
    ex = Explorer(idx, max_paths=5)
    got = {}

    def drv(P):
        for style, modname in (("google", "_griffe.docstrings.google"), ("numpy", "_griffe.docstrings.numpy")):
            kinds, readers = K.real_tables(P, modname)
            got[style] = ({t: v.value for t, v in kinds.items()}, {k.value: r.qualname for k, r in readers.items()})
    ex.run(drv)
    out = []
    for style, (titles, readers) in got.items():
        want = DOC_TITLES[style]
        missing = {t: k for t, k in want.items() if titles.get(t) != k}
        out.append({"name": f"{style}.documented_titles_map_to_their_kind", "ok": not missing,
                    "detail": f"{len(want)} documented section titles map to the documented kind" + (f"; wrong or missing: {missing}" if missing else "")})
        wrong = {k: r for k, r in readers.items() if READER_OF_KIND.get(k) != r}
        out.append({"name": f"{style}.each_kind_is_read_by_its_own_reader", "ok": not wrong,
                    "detail": f"{len(readers)} kinds dispatch to the reader named after them" + (f"; mismatches: {wrong}" if wrong else "")})
    return out


def bounded_checks(tier, seed):
    import json, os, subprocess, time
    from pyvc.run import VERIF, VENV_PY, REPO_SRC
    t0 = time.time()
    n, budget = (1500, 60) if tier == "quick" else (40000, 900)
    r = subprocess.run([VENV_PY, "-m", "replay.C13", str(seed), str(n), str(budget)], capture_output=True, text=True, cwd=str(VERIF),
                       env=dict(os.environ, PYTHONPATH=str(REPO_SRC)), timeout=budget + 300)
    if r.returncode != 0:
        raise RuntimeError("bounded C13 round trip crashed: " + r.stderr[-1500:])
    d = json.loads(r.stdout.strip().splitlines()[-1])
    return [{"check": "render_parse_roundtrip", "tool": "section lists rendered in the documented Google / Numpy / Sphinx layouts and parsed back by the real parsers; compared "
             "field by field (kinds, titles, item names, annotations, defaults, descriptions, order); annotations / defaults omitted from the text are compared with the "
             "signature of the documented object",
             "bound": f"one deterministic catalogue (every section kind x item shapes x neighbours) + {n} random section lists (<= 6 sections, <= 3 items, multi-line and "
                      "blank-line-containing descriptions, underlined sub-headings and rules inside descriptions, optional types, admonitions and free text in between) per style; "
                      "untyped Returns / Yields / Receives items (one and several) under tuple-returning functions and generators",
             "cases": d["cases"], "failing": len(d["bad"]), "wall_s": round(time.time() - t0, 1), "violations": d["bad"]}]
