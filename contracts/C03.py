"""C03 — stored expressions render back to equivalent Python: contracts on expressions.py.

Per node class X (one lemma each, children arbitrary):
    str(_build_X(node))  ==  TEMPLATE_X(renderings of the children, their binding levels)
where the real `_build_X`, the real dataclass constructor, the real `ExprX.iterate`, `_yield`, `_join`, `_precedence` and `Expr.__str__` are
executed symbolically.  A child is an expression of an arbitrary class (operator, comparison, conditional, lambda, yield, implicit tuple, atom,
plain string) whose own rendering is an uninterpreted string R(child); the template (written from the Python grammar, independently of the
code) says where the child's rendering goes, which separators surround it and when it must be wrapped in parentheses:
    paren_if(level(child) < required(position), R(child)).
Adequacy of the templates (that such strings parse back to the same tree) is validated against CPython's parser by the native tier.

String annotations: the parse-strings decision (get_expression auto mode, the Literal rule of _build_subscript, _build_constant) and the
argument every call site of safe_get_expression / get_expression passes (annotations: auto; decorators, bases, defaults, values: never).
"""
from __future__ import annotations

import ast as _ast

import z3

from pyvc.api import *  # noqa: F403
from pyvc.values import *  # noqa: F403
from pyvc import models
from pyvc.models import ufn

EX = "_griffe.expressions:"

TRUSTED_BASE = [
    "templates = the Python expression grammar (operator precedence table of the language reference; the same ladder ast.unparse uses); their adequacy "
    "(rendered text parses back to the same tree) is cross-validated against ast.parse on the expression catalogue by the native tier",
    "a child expression is abstracted to (class, operator, uninterpreted rendering R): the lemmas hold for arbitrary nesting by structural induction over the "
    "expression tree (each child's R is what the same lemma yields for the child) -- the induction itself is a paper argument",
    "quick tier: in a lemma with several children one child at a time ranges over all classes / operators while its siblings are names (each position is "
    "covered for every class; the thorough tier lets every pair of children range over all classes at once)",
    "sequences of children (call arguments, list elements, boolean operands, ...) are rendered by _join, proved separately for all lengths against its "
    "defining equations (first element, then joint + element per further element); in the per-class lemmas they have 0..2 elements (bounded, symbolic contents)",
    "repr() of constants is CPython's literal spelling",
]
ASSUMPTIONS = [
    "known limits (native tier, known findings): conversion / format specification of f-string fields are not stored; quotes inside f-string text are not escaped",
]

R = z3.Function("RENDERING", IntS, StrS)

# ---------------------------------------------------------------------------- binding levels (Python language reference, 6.17)
TUPLE, YIELD, TEST, OR, AND, NOT, CMP, BOR, BXOR, BAND, SHIFT, ARITH, TERM, FACTOR, POWER, ATOM = range(16)
BINOPS = {"+": ARITH, "-": ARITH, "*": TERM, "@": TERM, "/": TERM, "//": TERM, "%": TERM, "<<": SHIFT, ">>": SHIFT, "&": BAND, "^": BXOR, "|": BOR, "**": POWER}
AST_BINOPS = {"Add": "+", "Sub": "-", "Mult": "*", "MatMult": "@", "Div": "/", "FloorDiv": "//", "Mod": "%", "LShift": "<<", "RShift": ">>", "BitAnd": "&",
              "BitXor": "^", "BitOr": "|", "Pow": "**"}
AST_UNARY = {"Invert": "~", "Not": "not ", "UAdd": "+", "USub": "-"}
AST_BOOL = {"And": "and", "Or": "or"}
AST_CMP = {"Eq": "==", "NotEq": "!=", "Lt": "<", "LtE": "<=", "Gt": ">", "GtE": ">=", "Is": "is", "IsNot": "is not", "In": "in", "NotIn": "not in"}

CHILD_KINDS = [("str", ATOM), ("ExprName", ATOM), ("ExprCall", ATOM), ("ExprTuple", None), ("ExprBinOp", None), ("ExprBoolOp", None), ("ExprUnaryOp", None),
               ("ExprCompare", CMP), ("ExprIfExp", TEST), ("ExprLambda", TEST), ("ExprYield", YIELD), ("ExprYieldFrom", YIELD), ("ExprGeneratorExp", ATOM),
               ("ExprNamedExpr", ATOM), ("ExprSubscript", ATOM)]


class Child:
    """An already-built child expression of an arbitrary class."""

    def __init__(self, P, tag):
        self.tag = tag
        self.ident = z3.Int(f"{tag}_id")
        self.k = z3.Int(f"{tag}_kind")
        P.assume(z3.And(self.k >= 0, self.k < len(CHILD_KINDS)))
        self.op = z3.Int(f"{tag}_operator")
        self.implicit = z3.Bool(f"{tag}_implicit")
        self.r = R(self.ident)
        names = [k for k, _ in CHILD_KINDS]
        # quick tier: one child at a time is of an arbitrary class, its siblings are names (every position is still covered for every class and
        # operator); thorough tier: all children arbitrary at once
        import os
        idx = P.ghost.setdefault("n_children", 0)
        P.ghost["n_children"] = idx + 1
        if os.environ.get("PYVC_TIER", "quick") == "quick":
            focus = z3.Int("focus_child")
            P.assume(z3.Or(focus == idx, self.k == names.index("ExprName")))
        else:
            # thorough: every pair of children ranges over all classes at once (the full product is out of reach for 4+ children)
            f1, f2 = z3.Int("focus_child"), z3.Int("focus_child2")
            P.assume(z3.Or(f1 == idx, f2 == idx, self.k == names.index("ExprName")))
        bin_ops, un_ops, bool_ops = list(BINOPS), list(AST_UNARY.values()), ["and", "or"]
        P.assume(z3.And(self.op >= 0, self.op < len(bin_ops)))
        self.bin_ops, self.un_ops = bin_ops, un_ops
        # spec level of the child
        lvl = z3.IntVal(ATOM)
        for i, (kname, fixed) in enumerate(CHILD_KINDS):
            if fixed is not None:
                val = z3.IntVal(fixed)
            elif kname == "ExprTuple":
                val = z3.If(self.implicit, TUPLE, ATOM)
            elif kname == "ExprBinOp":
                val = z3.IntVal(ATOM)
                for j, o in enumerate(bin_ops):
                    val = z3.If(self.op == j, BINOPS[o], val)
            elif kname == "ExprBoolOp":
                val = z3.If(self.op % 2 == 0, AND, OR)
            else:  # unary
                val = z3.If(self.op % 4 == un_ops.index("not "), NOT, FACTOR)
            lvl = z3.If(self.k == i, val, lvl)
        self.level = lvl
        P.witness[tag] = {"kind": SInt(self.k), "operator": SInt(self.op), "implicit": SBool(self.implicit)}

    def value(self, P):
        """The engine value: a plain string or an expression object of the chosen class (forks on the class)."""
        names = [k for k, _ in CHILD_KINDS]
        for i, kname in enumerate(names[:-1]):
            if P.branch(self.k == i):
                return self._mk(P, kname)
        P.assume(self.k == len(names) - 1)
        return self._mk(P, names[-1])

    def _mk(self, P, kname):
        if kname == "str":
            return SStr(self.r)
        fields = {"__child": True}
        if kname == "ExprBinOp":
            z = z3.StringVal(self.bin_ops[-1])
            for j, o in reversed(list(enumerate(self.bin_ops[:-1]))):
                z = z3.If(self.op == j, z3.StringVal(o), z)
            fields["operator"] = SStr(z)
        elif kname == "ExprBoolOp":
            fields["operator"] = SStr(z3.If(self.op % 2 == 0, z3.StringVal("and"), z3.StringVal("or")))
        elif kname == "ExprUnaryOp":
            z = z3.StringVal(self.un_ops[-1])
            for j, o in reversed(list(enumerate(self.un_ops[:-1]))):
                z = z3.If(self.op % 4 == j, z3.StringVal(o), z)
            fields["operator"] = SStr(z)
        elif kname == "ExprTuple":
            fields["implicit"] = SBool(self.implicit)
            fields["elements"] = [SStr(z3.String(self.tag + "_elt"))]
        return SObj(kname, fields, ident=self.ident, frozen=True)


def paren_if(cond, s):
    return z3.If(cond, z3.Concat(z3.StringVal("("), s, z3.StringVal(")")), s)


def need(child: Child, required: int):
    """Rendered where binding level `required` is needed."""
    return paren_if(child.level < required, child.r) if required > TUPLE else child.r


def install(P):
    """Children render to their uninterpreted string; everything else (the node under test) runs its real code."""
    def iterate_hook(P_, o):
        if not o.fields.get("__child"):
            return models.NOATTR
        return BoundMethod(o, lambda P__, s, a, k: [SStr(R(s.ident))])
    for kname, _ in CHILD_KINDS:
        if kname != "str":
            P.attr_hooks[(kname, "iterate")] = iterate_hook
    built = []
    P.ghost["built"] = built

    def build_hook(P_, a, k):
        node = a[0]
        if isinstance(node, SUnion):
            node = P_.choose(node)
        built.append((node, dict(k)))
        ch = node.fields.get("__as_child")
        if ch is None:
            raise Unsupported("child node without an abstract expression")
        return ch.value(P_)
    P.opaque_hooks[EX + "_build"] = build_hook


def child_node(P, tag):
    ch = Child(P, tag)
    return SObj("ast.expr", {"__as_child": ch}, ident=z3.Int(f"{tag}_node"), frozen=True), ch


def op_node(P, table, tag):
    names = list(table)
    k = z3.Int(tag)
    P.assume(z3.And(k >= 0, k < len(names)))
    z = z3.StringVal(table[names[-1]])
    for j, n in reversed(list(enumerate(names[:-1]))):
        z = z3.If(k == j, z3.StringVal(table[n]), z)
    P.witness[tag] = SInt(k)
    return SObj(SCls(["ast." + n for n in names], k), {}, frozen=True), k, z, names


def render(P, expr):
    """str(expr) through the real Expr.__str__."""
    if isinstance(expr, (str, SStr)):
        return zstr(expr)
    return zstr(models.to_str(P, expr))


def run(P, fname, node, **kw):
    parent = SObj("Module", {}, ident=z3.Int("scope_id"), frozen=True)
    kind, res = outcome(P, lambda: call(P, EX + fname, node, parent, **kw))
    if kind == "raise":
        P.prove("never_raises", False, exc=P.resolve_cls(res))
        return None
    kind2, text = outcome(P, lambda: render(P, res))
    if kind2 == "raise":
        P.prove("str_never_raises", False, exc=P.resolve_cls(text))
        return None
    return res, text


def cat(*parts):
    zs = [z3.StringVal(p) if isinstance(p, str) else p for p in parts if not (isinstance(p, str) and p == "")]
    return zs[0] if len(zs) == 1 else z3.Concat(*zs)


def lemma(name, fn, floor=1, split=0, tier="P", note=""):
    def deco(driver):
        def wrapped(P):
            install(P)
            P.expects["family"] = name
            driver(P)
            P.cover(name)
        contract("C03", f"render.{name}", [EX + f for f in ([fn] if isinstance(fn, str) else fn)] + [EX + "_yield", EX + "_join", EX + "_precedence", EX + "Expr.__str__"],
                 floor=floor, replay="replay_expression", split=split, tier=tier, note=note)(wrapped)
        return driver
    return deco


# ============================================================================ per-class lemmas
@lemma("BinOp", ["_build_binop", "ExprBinOp.iterate"], split=16)
def l_binop(P):
    ln, l = child_node(P, "left")
    rn, r = child_node(P, "right")
    opn, k, opz, names = op_node(P, AST_BINOPS, "binary_operator")
    node = SObj("ast.BinOp", {"left": ln, "op": opn, "right": rn}, frozen=True)
    out = run(P, "_build_binop", node)
    if out is None:
        return
    _, text = out
    p = z3.IntVal(ATOM)
    for j, n in enumerate(names):
        p = z3.If(k == j, BINOPS[AST_BINOPS[n]], p)
    is_pow = k == names.index("Pow")
    left = z3.If(is_pow, paren_if(l.level < ATOM, l.r), paren_if(l.level < p, l.r))
    right = z3.If(is_pow, paren_if(r.level < FACTOR, r.r), paren_if(r.level < p + 1, r.r))
    P.prove("text_is_left_operator_right_with_grouping", text == cat(left, " ", opz, " ", right))


@lemma("UnaryOp", ["_build_unaryop", "ExprUnaryOp.iterate"])
def l_unary(P):
    vn, v = child_node(P, "operand")
    opn, k, opz, names = op_node(P, AST_UNARY, "unary_operator")
    node = SObj("ast.UnaryOp", {"op": opn, "operand": vn}, frozen=True)
    out = run(P, "_build_unaryop", node)
    if out is None:
        return
    req = z3.If(k == names.index("Not"), NOT, FACTOR)
    P.prove("text_is_operator_operand_with_grouping", out[1] == cat(opz, paren_if(v.level < req, v.r)))


def seq_children(P, tag, n):
    nodes, chs = [], []
    for i in range(n):
        nd, ch = child_node(P, f"{tag}{i}")
        nodes.append(nd)
        chs.append(ch)
    return nodes, chs


def joined(chs, sep, required):
    parts = []
    for i, c in enumerate(chs):
        if i:
            parts.append(sep)
        parts.append(need(c, required))
    return cat(*parts) if parts else z3.StringVal("")


def for_sizes(P, lo, hi, tag="n_elements"):
    n = z3.Int(tag)
    P.assume(z3.And(n >= lo, n <= hi))
    P.witness[tag] = SInt(n)
    for i in range(lo, hi):
        if P.branch(n == i):
            return i
    P.assume(n == hi)
    return hi


@lemma("BoolOp", ["_build_boolop", "ExprBoolOp.iterate"], split=16)
def l_boolop(P):
    n = for_sizes(P, 2, 3)
    nodes, chs = seq_children(P, "value", n)
    opn, k, opz, names = op_node(P, AST_BOOL, "boolean_operator")
    node = SObj("ast.BoolOp", {"op": opn, "values": nodes}, frozen=True)
    out = run(P, "_build_boolop", node)
    if out is None:
        return
    p = z3.If(k == names.index("Or"), OR, AND)
    parts = []
    for i, c in enumerate(chs):
        if i:
            parts += [" ", opz, " "]
        parts.append(paren_if(c.level < p + 1, c.r))
    P.prove("text_is_operands_joined_by_the_operator_with_grouping", out[1] == cat(*parts))


@lemma("Compare", ["_build_compare", "ExprCompare.iterate"], split=16)
def l_compare(P):
    n = for_sizes(P, 1, 2, "n_comparators")
    ln, l = child_node(P, "left")
    nodes, chs = seq_children(P, "comparator", n)
    ops = [op_node(P, AST_CMP, f"comparison_operator{i}") for i in range(n)]
    node = SObj("ast.Compare", {"left": ln, "ops": [o[0] for o in ops], "comparators": nodes}, frozen=True)
    out = run(P, "_build_compare", node)
    if out is None:
        return
    parts = [paren_if(l.level < BOR, l.r)]
    for o, c in zip(ops, chs):
        parts += [" ", o[2], " ", paren_if(c.level < BOR, c.r)]
    P.prove("text_is_operands_separated_by_their_operators_with_grouping", out[1] == cat(*parts))


@lemma("IfExp", ["_build_ifexp", "ExprIfExp.iterate"], split=16)
def l_ifexp(P):
    bn, b = child_node(P, "body")
    tn, t = child_node(P, "test")
    on, o = child_node(P, "orelse")
    out = run(P, "_build_ifexp", SObj("ast.IfExp", {"body": bn, "test": tn, "orelse": on}, frozen=True))
    if out is None:
        return
    P.prove("text_is_body_if_test_else_orelse_with_grouping", out[1] == cat(need(b, OR), " if ", need(t, OR), " else ", need(o, TEST)))


@lemma("Attribute", ["_build_attribute", "ExprAttribute.iterate"], split=16)
def l_attribute(P):
    vn, v = child_node(P, "value")
    attr = P.fresh_str("attribute_name")
    P.assume(v.k != [k for k, _ in CHILD_KINDS].index("ExprName"))     # names are chained by _build_attribute (C04 proves that case)
    out = run(P, "_build_attribute", SObj("ast.Attribute", {"value": vn, "attr": attr}, frozen=True))
    if out is None:
        return
    P.prove("text_is_value_dot_name_with_grouping", out[1] == cat(need(v, ATOM), ".", attr.z))


@lemma("Call", ["_build_call", "ExprCall.iterate", "_build_keyword", "ExprKeyword.iterate", "ExprVarKeyword.iterate"], split=16)
def l_call(P):
    fnn, f = child_node(P, "function")
    n = for_sizes(P, 0, 2, "n_arguments")
    nodes, chs = seq_children(P, "argument", n)
    kwn, kwc = child_node(P, "keyword_value")
    has_kw = z3.Bool("has_keyword")
    star = z3.Bool("keyword_is_unpacking")
    kws = []
    if P.branch(has_kw):
        kwname = None if P.branch(star) else P.fresh_str("keyword_name")
        kws = [SObj("ast.keyword", {"arg": kwname, "value": kwn}, frozen=True)]
    P.opaque_hooks[EX + "_build"] = (lambda orig: (lambda P_, a, k: call(P_, EX + "_build_keyword", a[0], a[1], **k) if isinstance(a[0], SObj) and a[0].cls == "ast.keyword"
                                                       else orig(P_, a, k)))(P.opaque_hooks[EX + "_build"])
    gen_idx = [k for k, _ in CHILD_KINDS].index("ExprGeneratorExp")
    P.assume(z3.Or(n != 1, len(kws) != 0, chs[0].k != gen_idx) if n == 1 else z3.BoolVal(True))   # the sole-generator argument form is its own lemma
    node = SObj("ast.Call", {"func": fnn, "args": nodes, "keywords": kws}, frozen=True)
    out = run(P, "_build_call", node)
    if out is None:
        return
    args = [need(c, TEST) for c in chs]
    if kws:
        args.append(cat("**", need(kwc, BOR)) if kws[0].fields["arg"] is None else cat(kws[0].fields["arg"].z, "=", need(kwc, TEST)))
    parts = [need(f, ATOM), "("]
    for i, a in enumerate(args):
        if i:
            parts.append(", ")
        parts.append(a)
    parts.append(")")
    P.prove("text_is_function_and_comma_separated_arguments_with_grouping", out[1] == cat(*parts))


@lemma("Subscript", ["_build_subscript", "ExprSubscript.iterate"], split=16)
def l_subscript(P):
    vn, v = child_node(P, "value")
    sn, s = child_node(P, "slice")
    out = run(P, "_build_subscript", SObj("ast.Subscript", {"value": vn, "slice": sn}, frozen=True))
    if out is None:
        return
    tuple_idx = [k for k, _ in CHILD_KINDS].index("ExprTuple")
    inner = z3.If(s.k == tuple_idx, s.r, need(s, TEST))
    P.prove("text_is_value_bracket_slice_with_grouping", out[1] == cat(need(v, ATOM), "[", inner, "]"))
    # the slice is the only child built with in_subscript=True; the left side never is
    built = P.ghost["built"]
    flags = {id(nd): kw for nd, kw in built}
    P.prove("only_the_slice_is_built_as_subscript_content", flags[id(sn)].get("in_subscript") is True and not flags[id(vn)].get("in_subscript"))


def container_lemma(name, fn, cls, astcls, field, open_, close_):
    @lemma(name, [fn, f"{cls}.iterate"], split=16)
    def l(P):
        n = for_sizes(P, 0 if astcls != "ast.Set" else 1, 2)
        nodes, chs = seq_children(P, "element", n)
        out = run(P, fn, SObj(astcls, {field: nodes}, frozen=True))
        if out is None:
            return
        trailing = "," if (astcls == "ast.Tuple" and n == 1) else ""
        P.prove("text_is_delimited_comma_separated_elements_with_grouping", out[1] == cat(open_, joined(chs, ", ", TEST), trailing, close_))
    return l


container_lemma("List", "_build_list", "ExprList", "ast.List", "elts", "[", "]")
container_lemma("Set", "_build_set", "ExprSet", "ast.Set", "elts", "{", "}")
container_lemma("Tuple", "_build_tuple", "ExprTuple", "ast.Tuple", "elts", "(", ")")


@lemma("Tuple.implicit", ["_build_tuple", "ExprTuple.iterate"], split=16)
def l_tuple_implicit(P):
    n = for_sizes(P, 0, 2)
    nodes, chs = seq_children(P, "element", n)
    out = run(P, "_build_tuple", SObj("ast.Tuple", {"elts": nodes}, frozen=True), in_subscript=True)
    if out is None:
        return
    body = cat(joined(chs, ", ", TEST), "," if n == 1 else "")
    P.prove("subscript_tuple_drops_its_parentheses_only_when_it_has_elements", out[1] == (cat("(", ")") if n == 0 else body))
    P.prove("elements_are_not_built_as_subscript_content", all(not kw.get("in_subscript") for _, kw in P.ghost["built"]))


@lemma("Dict", ["_build_dict", "ExprDict.iterate", "ExprVarKeyword.iterate"], split=16)
def l_dict(P):
    n = for_sizes(P, 0, 2, "n_items")
    knodes, kchs = seq_children(P, "key", n)
    vnodes, vchs = seq_children(P, "value", n)
    unpack = [z3.Bool(f"item{i}_is_unpacking") for i in range(n)]
    keys = []
    for i in range(n):
        keys.append(None if P.branch(unpack[i]) else knodes[i])
    out = run(P, "_build_dict", SObj("ast.Dict", {"keys": keys, "values": vnodes}, frozen=True))
    if out is None:
        return
    items = []
    for i in range(n):
        items.append(cat("**", need(vchs[i], BOR)) if keys[i] is None else cat(need(kchs[i], TEST), ": ", need(vchs[i], TEST)))
    parts = ["{"]
    for i, it in enumerate(items):
        if i:
            parts.append(", ")
        parts.append(it)
    parts.append("}")
    P.prove("text_is_braced_items_with_unpacking_and_grouping", out[1] == cat(*parts))


@lemma("Starred", ["_build_starred", "ExprVarPositional.iterate"])
def l_starred(P):
    vn, v = child_node(P, "value")
    out = run(P, "_build_starred", SObj("ast.Starred", {"value": vn}, frozen=True))
    if out is not None:
        P.prove("text_is_star_value_with_grouping", out[1] == cat("*", need(v, BOR)))


@lemma("NamedExpr", ["_build_named_expr", "ExprNamedExpr.iterate"], split=16)
def l_named(P):
    tn, t = child_node(P, "target")
    vn, v = child_node(P, "value")
    out = run(P, "_build_named_expr", SObj("ast.NamedExpr", {"target": tn, "value": vn}, frozen=True))
    if out is not None:
        P.prove("text_is_parenthesized_target_walrus_value", out[1] == cat("(", t.r, " := ", need(v, TEST), ")"))


@lemma("Yield", ["_build_yield", "ExprYield.iterate"])
def l_yield(P):
    vn, v = child_node(P, "value")
    has = z3.Bool("has_value")
    val = vn if P.branch(has) else None
    out = run(P, "_build_yield", SObj("ast.Yield", {"value": val}, frozen=True))
    if out is not None:
        P.prove("text_is_yield_and_its_value_with_grouping", out[1] == (cat("yield ", need(v, TEST)) if val is not None else z3.StringVal("yield")))


@lemma("YieldFrom", ["_build_yield_from", "ExprYieldFrom.iterate"])
def l_yield_from(P):
    vn, v = child_node(P, "value")
    out = run(P, "_build_yield_from", SObj("ast.YieldFrom", {"value": vn}, frozen=True))
    if out is not None:
        P.prove("text_is_yield_from_value_with_grouping", out[1] == cat("yield from ", need(v, TEST)))


@lemma("Slice", ["_build_slice", "ExprSlice.iterate"], split=16)
def l_slice(P):
    parts_nodes = {}
    chs = {}
    for nm in ("lower", "upper", "step"):
        nd, ch = child_node(P, nm)
        chs[nm] = ch
        parts_nodes[nm] = nd if P.branch(z3.Bool(f"has_{nm}")) else None
    out = run(P, "_build_slice", SObj("ast.Slice", parts_nodes, frozen=True))
    if out is None:
        return
    exp = cat(need(chs["lower"], TEST) if parts_nodes["lower"] is not None else "", ":", need(chs["upper"], TEST) if parts_nodes["upper"] is not None else "",
              cat(":", need(chs["step"], TEST)) if parts_nodes["step"] is not None else "")
    P.prove("text_is_colon_separated_bounds_with_grouping", out[1] == exp)


def comp_lemma(name, fn, cls, astcls, open_, close_):
    @lemma(name, [fn, f"{cls}.iterate"], split=16)
    def l(P):
        en, e = child_node(P, "element")
        n = for_sizes(P, 1, 2, "n_generators")
        gnodes, gchs = seq_children(P, "generator", n)
        gen_kind = [k for k, _ in CHILD_KINDS].index("ExprCall")
        for g in gchs:
            P.assume(g.k == gen_kind)      # comprehension clauses are atoms for their container (their own lemma renders them)
        out = run(P, fn, SObj(astcls, {"elt": en, "generators": gnodes}, frozen=True))
        if out is None:
            return
        P.prove("text_is_delimited_element_then_space_separated_clauses", out[1] == cat(open_, need(e, TEST), " ", joined(gchs, " ", TUPLE), close_))
    return l


comp_lemma("ListComp", "_build_listcomp", "ExprListComp", "ast.ListComp", "[", "]")
comp_lemma("SetComp", "_build_setcomp", "ExprSetComp", "ast.SetComp", "{", "}")
comp_lemma("GeneratorExp", "_build_generatorexp", "ExprGeneratorExp", "ast.GeneratorExp", "(", ")")


@lemma("DictComp", ["_build_dictcomp", "ExprDictComp.iterate"], split=16)
def l_dictcomp(P):
    kn, k = child_node(P, "key")
    vn, v = child_node(P, "value")
    n = for_sizes(P, 1, 2, "n_generators")
    gnodes, gchs = seq_children(P, "generator", n)
    gen_kind = [kk for kk, _ in CHILD_KINDS].index("ExprCall")
    for g in gchs:
        P.assume(g.k == gen_kind)
    out = run(P, "_build_dictcomp", SObj("ast.DictComp", {"key": kn, "value": vn, "generators": gnodes}, frozen=True))
    if out is not None:
        P.prove("text_is_braced_key_colon_value_then_space_separated_clauses", out[1] == cat("{", need(k, TEST), ": ", need(v, TEST), " ", joined(gchs, " ", TUPLE), "}"))


@lemma("comprehension", ["_build_comprehension", "ExprComprehension.iterate"], split=16)
def l_comprehension(P):
    tn, t = child_node(P, "target")
    inn, it = child_node(P, "iterable")
    n = for_sizes(P, 0, 2, "n_conditions")
    cnodes, cchs = seq_children(P, "condition", n)
    is_async = z3.Bool("is_async")
    node = SObj("ast.comprehension", {"target": tn, "iter": inn, "ifs": cnodes, "is_async": SInt(z3.If(is_async, 1, 0))}, frozen=True)
    out = run(P, "_build_comprehension", node)
    if out is None:
        return
    conds = cat(" if ", joined(cchs, " if ", OR)) if n else ""
    P.prove("text_is_for_target_in_iterable_and_conditions_with_grouping",
            out[1] == cat(z3.If(is_async, z3.StringVal("async "), z3.StringVal("")), "for ", t.r, " in ", need(it, OR), conds))


@lemma("FormattedValue", ["_build_formatted", "ExprFormatted.iterate"])
def l_formatted(P):
    vn, v = child_node(P, "value")
    out = run(P, "_build_formatted", SObj("ast.FormattedValue", {"value": vn}, frozen=True))
    if out is not None:
        inner = need(v, OR)
        # `{{` is an escaped brace: a value whose text starts with a brace (dict / set display or comprehension) is set off by a space
        P.prove("text_is_braced_value_with_grouping_set_off_from_an_opening_brace",
                out[1] == z3.If(z3.PrefixOf(z3.StringVal("{"), inner), cat("{ ", inner, "}"), cat("{", inner, "}")))
        P.prove("value_is_built_as_formatted_content", all(kw.get("in_formatted_str") is True for _, kw in P.ghost["built"]))


@lemma("JoinedStr", ["_build_joinedstr", "ExprJoinedStr.iterate"], split=16)
def l_joined(P):
    n = for_sizes(P, 0, 2, "n_parts")
    nodes, chs = seq_children(P, "part", n)
    out = run(P, "_build_joinedstr", SObj("ast.JoinedStr", {"values": nodes}, frozen=True), in_formatted_str=True)
    if out is not None:
        P.prove("text_is_f_quote_parts_quote", out[1] == cat("f'", joined(chs, "", TUPLE), "'"))
        P.prove("parts_are_built_as_text_of_the_string_not_of_an_enclosing_field",
                all(kw.get("in_joined_str") is True and kw.get("in_formatted_str") is False for _, kw in P.ghost["built"]))


@lemma("Lambda", ["ExprLambda.iterate"], split=16, tier="BS",
       note="parameter lists with <= 2 positional-only, <= 1 positional-or-keyword, an optional *args, <= 1 keyword-only and an optional **kwargs parameter; names and "
            "defaults are symbolic; the body is of an arbitrary class when there is no parameter and a plain name otherwise")
def l_lambda(P):
    """`lambda <parameters>: <body>` with the markers where Python wants them: `/` right after the last positional-only parameter (also when nothing
    follows), a bare `*` ahead of the first keyword-only parameter unless `*args` is there, defaults after `=`, the body grouped as a test."""
    PKIND = "ParameterKind"
    kinds_ = {m.name: m for m in P.enum_members(PKIND)}
    _, body = child_node(P, "body")
    groups = [("positional_only", 2), ("positional_or_keyword", 1), ("var_positional", 1), ("keyword_only", 1), ("var_keyword", 1)]
    params, spec_parts = [], []
    present = {}
    for kind, cap in groups:
        n = 0
        for j in range(cap):
            if P.branch(z3.Bool(f"has_{kind}_{j}")):
                n += 1
            else:
                break
        present[kind] = n
    for kind, cap in groups:
        if kind == "keyword_only" and present[kind] and not present["var_positional"]:
            spec_parts.append(z3.StringVal("*"))
        for j in range(present[kind]):
            nm = z3.String(f"{kind}_{j}_name")
            has_default = z3.Bool(f"{kind}_{j}_has_default")
            dflt = z3.String(f"{kind}_{j}_default")
            P.assume(z3.Length(dflt) > 0)          # a default is a non-empty piece of source text (or an expression)
            with_default = kind not in ("var_positional", "var_keyword") and P.branch(has_default)
            params.append(SObj("ExprParameter", {"name": SStr(nm), "kind": kinds_[kind], "annotation": None, "default": SStr(dflt) if with_default else None},
                               ident=z3.Int(f"{kind}_{j}_id"), frozen=True))
            prefix = {"var_positional": "*", "var_keyword": "**"}.get(kind, "")
            text = z3.Concat(z3.StringVal(prefix), nm) if prefix else nm
            if with_default:
                text = z3.Concat(text, z3.StringVal("="), dflt)
            spec_parts.append(text)
        if kind == "positional_only" and present[kind]:
            spec_parts.append(z3.StringVal("/"))
    if params:
        P.assume(body.k == [k for k, _ in CHILD_KINDS].index("str"))     # the grouping of the body does not depend on the parameters: decided on `lambda: <body>`
    lam = SObj("ExprLambda", {"parameters": params, "body": body.value(P)}, ident=z3.Int("lambda_id"), frozen=True)
    kind2, text = outcome(P, lambda: render(P, lam))
    if kind2 == "raise":
        P.prove("str_never_raises", False, exc=P.resolve_cls(text))
        return
    joined = None
    for part in spec_parts:
        joined = part if joined is None else z3.Concat(joined, z3.StringVal(", "), part)
    head = z3.StringVal("lambda") if joined is None else z3.Concat(z3.StringVal("lambda "), joined)
    P.prove("text_is_lambda_parameters_with_markers_colon_body", text == z3.Concat(head, z3.StringVal(": "), need(body, TEST)))


@lemma("Name", ["_build_name", "ExprName.iterate"])
def l_name(P):
    ident = P.fresh_str("identifier")
    parent = SObj("Module", {}, ident=z3.Int("scope_id"), frozen=True)
    kind, res = outcome(P, lambda: call(P, EX + "_build_name", SObj("ast.Name", {"id": ident}, frozen=True), parent))
    if kind == "raise":
        P.prove("never_raises", False)
        return
    P.prove("a_name_is_a_resolvable_name_element_of_its_scope", P.resolve_cls(res) == "ExprName" and res.fields["name"] is ident and res.fields["parent"] is parent)
    pieces = P.call(P.getattr(res, "iterate"), [], {"flat": True})
    P.prove("a_name_iterates_to_itself", isinstance(pieces, (list, tuple)) and len(pieces) == 1 and pieces[0] is res)


# ============================================================================ string annotations
def strings_contract(name, fns, **kw):
    def deco(driver):
        def wrapped(P):
            install(P)
            P.expects["clause"] = "strings"
            driver(P)
            P.cover(name)
        contract("C03", f"strings.{name}", [EX + f for f in fns], replay="replay_expression", **kw)(wrapped)
        return driver
    return deco


@strings_contract("get_expression.auto_mode", ["get_expression"], floor=2)
def s_get_expression(P):
    """parse_strings=None: strings are parsed iff the module does not postpone annotation evaluation; explicit values are passed on unchanged."""
    nd, ch = child_node(P, "node")
    future = z3.Bool("imports_future_annotations")
    no_module = z3.Bool("parent_has_no_module")
    module = SObj("Module", {"imports_future_annotations": SBool(future)}, ident=z3.Int("module_id"), frozen=True)
    parent = SObj("Class", {}, ident=z3.Int("scope_id"), frozen=True)

    def module_of(P_, o):
        if P_.branch(no_module):
            raise PyExc(P_.mk_exc("ValueError", "no module"))
        return module
    P.attr_hooks[("Class", "module")] = module_of
    mode = z3.Int("parse_strings_argument")      # 0 None, 1 False, 2 True
    P.assume(z3.And(mode >= 0, mode <= 2))
    arg = None if P.branch(mode == 0) else (False if P.branch(mode == 1) else True)
    kind, res = outcome(P, lambda: call(P, EX + "get_expression", nd, parent, parse_strings=arg))
    if kind == "raise":
        P.prove("never_raises", False, exc=P.resolve_cls(res))
        return
    built = P.ghost["built"]
    P.prove("builds_the_node_once", len(built) == 1 and built[0][0] is nd)
    if len(built) == 1:
        got = built[0][1].get("parse_strings")
        want = z3.If(mode == 0, z3.And(z3.Not(no_module), z3.Not(future)), mode == 2)
        P.prove("strings_parsed_iff_requested_or_annotations_are_evaluated_eagerly", zbool(got) == want)
    kind, res = outcome(P, lambda: call(P, EX + "get_expression", None, parent))
    P.prove("no_node_gives_no_expression", kind == "ok" and res is None)


@strings_contract("_build_subscript.literal_rule", ["_build_subscript"], floor=3, split=16)
def s_subscript(P):
    """Inside X[...] strings are literals iff X resolves to typing.Literal / typing_extensions.Literal (however X is spelled); otherwise the
    parse-strings mode of the context is passed on to the slice; the left side is built without it."""
    vn, v = child_node(P, "value")
    sn, sl = child_node(P, "slice")
    names = [k for k, _ in CHILD_KINDS]
    P.assume(z3.Or(v.k == names.index("ExprName"), v.k == names.index("ExprCall"), v.k == names.index("str")))
    CANON = z3.String("canonical_path_of_value")
    SPELL = z3.String("spelling_of_value")
    P.attr_hooks[("ExprName", "canonical_path")] = lambda P_, o: SStr(CANON) if o.fields.get("__child") else models.NOATTR
    P.attr_hooks[("ExprName", "path")] = lambda P_, o: SStr(SPELL) if o.fields.get("__child") else models.NOATTR
    parse = z3.Bool("parse_strings")
    lit_in = z3.Bool("already_inside_literal")
    ps = True if P.branch(parse) else False
    li = True if P.branch(lit_in) else False
    parent = SObj("Module", {}, ident=z3.Int("scope_id"), frozen=True)
    kind, res = outcome(P, lambda: call(P, EX + "_build_subscript", SObj("ast.Subscript", {"value": vn, "slice": sn}, frozen=True), parent, parse_strings=ps, literal_strings=li))
    if kind == "raise":
        P.prove("never_raises", False, exc=P.resolve_cls(res))
        return
    flags = {id(nd): kw for nd, kw in P.ghost["built"]}
    skw, vkw = flags.get(id(sn), {}), flags.get(id(vn), {})
    is_name = v.k == names.index("ExprName")
    is_literal = z3.And(is_name, z3.Or(CANON == z3.StringVal("typing.Literal"), CANON == z3.StringVal("typing_extensions.Literal")))
    P.witness.update(canonical=SStr(CANON), spelling=SStr(SPELL))
    P.expects["family"] = "Literal"
    P.prove("slice_parses_strings_iff_the_context_does", zbool(bool(skw.get("parse_strings", False))) == parse)
    got_lit = skw.get("literal_strings", False)
    P.prove("strings_inside_literal_are_never_parsed", z3.Implies(parse, zbool(got_lit) == z3.Or(lit_in, is_literal)), got=str(got_lit))
    P.prove("slice_is_subscript_content", skw.get("in_subscript") is True)
    P.prove("left_side_is_built_plainly", not vkw.get("parse_strings") and not vkw.get("literal_strings") and not vkw.get("in_subscript"))


@strings_contract("_build_constant.decision", ["_build_constant"], floor=2, split=16)
def s_constant(P):
    """A string constant is parsed as code iff parse_strings and not literal_strings (and it is not bare f-string text); text that does not compile
    stays a string literal; every other constant is its repr (Ellipsis: ...)."""
    flags = {n: z3.Bool(n) for n in ("in_formatted_str", "in_joined_str", "parse_strings", "literal_strings")}
    vals = {n: (True if P.branch(b) else False) for n, b in flags.items()}
    is_str = z3.Bool("value_is_a_string")
    text = P.fresh_str("string_value")
    compiles = z3.Bool("string_compiles")
    parsed_body = SObj("ast.expr", {"__as_child": Child(P, "parsed")}, ident=z3.Int("parsed_node"), frozen=True)

    def b_compile(P_, a, k):
        if P_.branch(compiles):
            return SObj("ast.Expression", {"body": parsed_body}, frozen=True)
        raise PyExc(P_.mk_exc("SyntaxError", "invalid syntax"))
    P.opaque_hooks["builtin:compile"] = b_compile
    parent = SObj("Module", {}, ident=z3.Int("scope_id"), frozen=True)
    if P.branch(is_str):
        value = text
    else:
        value = P.fresh_int("number_value") if P.branch(z3.Bool("value_is_a_number")) else Ellipsis
    node = SObj("ast.Constant", {"value": value}, frozen=True)
    def b_repr(P_, a, k):
        if isinstance(a[0], (str, SStr)):
            r = ufn("REPR", StrS, StrS)(zstr(a[0]))
            P_.assume(z3.Length(r) >= 2)       # a string literal has its two quotes
            return SStr(r)
        return SStr(z3.String("repr_of_number"))
    P.opaque_hooks["builtin:repr"] = b_repr
    kind, res = outcome(P, lambda: call(P, EX + "_build_constant", node, parent, **vals))
    if kind == "raise":
        P.prove("never_raises", False, exc=P.resolve_cls(res))
        return
    built = P.ghost["built"]
    should_parse = z3.And(is_str, flags["parse_strings"], z3.Not(flags["literal_strings"]), z3.Not(z3.And(flags["in_joined_str"], z3.Not(flags["in_formatted_str"]))), compiles)
    P.expects["family"] = "strings"
    P.prove("string_parsed_iff_annotation_context_and_not_literal", z3.BoolVal(len(built) == 1) == should_parse, built=len(built))
    if len(built) == 1:
        P.prove("parsed_text_is_built_in_the_same_scope", built[0][0] is parsed_body)


# ============================================================================ tables
# ============================================================================ the "safe" getters never raise (assumed by every caller: visitor, docstring parsers)
@contract("C03", "safe_get_expression.total", [EX + "safe_get_expression"], floor=2, replay="replay_expression")
def c_safe_get_expression(P):
    """safe_get_expression returns the built expression, or None when building it fails -- whatever exception the builder raises and whatever reporting
    the failure needs: the path of the parent's file may not exist relative to the working directory (ValueError) or not exist at all for a module built
    in memory (BuiltinModuleError).  With logging disabled nothing but the expression or None comes back either."""
    P.expects["family"] = "safe_get_expression"
    node = SObj("ast.expr", {"lineno": P.fresh_int("lineno")}, ident=z3.Int("node_id"), frozen=True)
    parent = SObj("Module", {}, ident=z3.Int("scope_id"), frozen=True)
    built = SObj("ExprName", {"name": P.fresh_str("built_name")}, ident=z3.Int("built_id"), frozen=True)
    fails = z3.Bool("building_fails")
    exc_kind = z3.Int("builder_exception")
    classes = ["KeyError", "ValueError", "TypeError", "AttributeError", "RecursionError", "SyntaxError"]
    P.assume(z3.And(exc_kind >= 0, exc_kind < len(classes)))

    def get_expression(P_, a, k):
        if not P_.branch(fails):
            return built
        for j, c in enumerate(classes):
            if P_.branch(exc_kind == j):
                raise PyExc(P_.mk_exc(c, "cannot build"))
        raise PyExc(P_.mk_exc(classes[-1], "cannot build"))
    P.opaque_hooks[EX + "get_expression"] = get_expression
    path_outcome = z3.Int("relative_filepath_outcome")       # 0: a path, 1: ValueError (not under the working directory), 2: BuiltinModuleError (no file path)
    P.assume(z3.And(path_outcome >= 0, path_outcome <= 2))
    P.witness["relative_filepath_outcome"] = SInt(path_outcome)

    def rel(P_, o):
        if P_.branch(path_outcome == 0):
            return SObj("pathlib.Path", {}, ident=z3.Int("path_id"), frozen=True)
        if P_.branch(path_outcome == 1):
            raise PyExc(P_.mk_exc("ValueError", "not relative"))
        raise PyExc(SObj("BuiltinModuleError", {"args": ("m",)}))
    P.attr_hooks[("Module", "relative_filepath")] = rel
    P.attr_hooks[("pathlib.Path", "__str__")] = lambda P_, o: SStr(z3.String("path_text"))
    logged = []
    P.opaque_hooks["logging.Logger.error"] = lambda P_, a, k: logged.append(a)
    log_none = z3.Bool("log_level_none")
    level = None if P.branch(log_none) else models.NOATTR
    kw = {"log_level": None} if level is None else {}
    kind, res = outcome(P, lambda: call(P, EX + "safe_get_expression", node, parent, **kw))
    P.prove("never_raises", kind == "ok", exc=(P.resolve_cls(res) if kind == "raise" else ""))
    if kind != "ok":
        return
    P.prove("the_built_expression_or_none", z3.If(fails, z3.BoolVal(res is None), z3.BoolVal(res is built)))
    P.cover("safe_get_expression")


def lemmas(tier, seed):
    """Operator tables of the real source against the language's operator spelling; _node_map total over the expression node classes."""
    from pyvc.source import SourceIndex
    from pyvc.interp import Explorer
    idx = SourceIndex()
    idx.load_all()
    ex = Explorer(idx, max_paths=5)
    got = {}

    def drv(P):
        mi = P.index.module("_griffe.expressions")
        for nm in ("_unary_op_map", "_binary_op_map", "_bool_op_map", "_compare_op_map", "_binary_op_precedence", "_node_map"):
            got[nm] = P.eval_in_module(mi, mi.assigns[nm]) if nm in mi.assigns else {}
        for nm in ("_PREC_TUPLE", "_PREC_YIELD", "_PREC_TEST", "_PREC_OR", "_PREC_AND", "_PREC_NOT", "_PREC_CMP", "_PREC_BOR", "_PREC_BXOR", "_PREC_BAND", "_PREC_SHIFT",
                   "_PREC_ARITH", "_PREC_TERM", "_PREC_FACTOR", "_PREC_POWER", "_PREC_ATOM"):
            got[nm] = P.eval_in_module(mi, mi.assigns[nm]) if nm in mi.assigns else None
    ex.run(drv)
    out = []

    def table(nm, spec):
        real = {k.name.split(".")[-1]: v for k, v in got.get(nm, {}).items()}
        out.append({"name": f"table.{nm}", "ok": real == spec, "detail": f"{len(spec)} operators spelled as in the language reference" + ("" if real == spec else f"; differs: {sorted(set(real.items()) ^ set(spec.items()))}")})
    table("_unary_op_map", AST_UNARY)
    table("_binary_op_map", AST_BINOPS)
    table("_bool_op_map", AST_BOOL)
    table("_compare_op_map", AST_CMP)
    ladder = [got.get(n) for n in ("_PREC_TUPLE", "_PREC_YIELD", "_PREC_TEST", "_PREC_OR", "_PREC_AND", "_PREC_NOT", "_PREC_CMP", "_PREC_BOR", "_PREC_BXOR", "_PREC_BAND",
                                   "_PREC_SHIFT", "_PREC_ARITH", "_PREC_TERM", "_PREC_FACTOR", "_PREC_POWER", "_PREC_ATOM")]
    out.append({"name": "table.binding_levels_strictly_increasing", "ok": all(isinstance(x, int) for x in ladder) and ladder == sorted(set(ladder)),
                "detail": "tuple < yield < test < or < and < not < comparison < | < ^ < & < shift < arithmetic < term < factor < power < atom"})
    real_prec = got.get("_binary_op_precedence", {})
    want = {o: ladder[lvl] for o, lvl in BINOPS.items()} if all(isinstance(x, int) for x in ladder) else None
    out.append({"name": "table._binary_op_precedence", "ok": real_prec == want, "detail": "binary operators sit on the level the language reference gives them"})
    # call sites: only annotations are built in auto mode; decorators, base classes, defaults, values, conditions never parse strings
    sites, bad = 0, []
    for modname in ("_griffe.agents.visitor", "_griffe.expressions", "_griffe.agents.inspector", "_griffe.extensions.dataclasses", "_griffe.agents.nodes.exports"):
        mi = idx.module(modname)
        if mi is None:
            continue
        for n in _ast.walk(mi.tree):
            if isinstance(n, _ast.Call) and isinstance(n.func, _ast.Name) and n.func.id in ("safe_get_expression", "get_expression"):
                enclosing = next((f.name for f in _ast.walk(mi.tree) if isinstance(f, (_ast.FunctionDef, _ast.AsyncFunctionDef)) and f.lineno <= n.lineno <= f.end_lineno and
                                  any(x is n for x in _ast.walk(f))), "<module>")
                if enclosing in ("safe_get_expression",):
                    continue      # the wrapper forwards its own argument
                kw = {k.arg: k.value for k in n.keywords}
                ps = kw.get("parse_strings")
                sites += 1
                if enclosing == "<module>":
                    continue      # functools.partial definitions are checked below
                if not (isinstance(ps, _ast.Constant) and ps.value is False):
                    bad.append(f"{modname.split('.')[-1]}.{enclosing}:{n.lineno}")
    emi = idx.module("_griffe.expressions")
    partial_modes = {}
    for st in emi.tree.body:
        if isinstance(st, _ast.Assign) and isinstance(st.value, _ast.Call) and isinstance(st.value.func, _ast.Name) and st.value.func.id == "partial":
            kw = {k.arg: k.value for k in st.value.keywords}
            v = kw.get("parse_strings")
            partial_modes[st.targets[0].id] = v.value if isinstance(v, _ast.Constant) else "?"
    want_modes = {"get_annotation": None, "safe_get_annotation": None, "get_base_class": False, "safe_get_base_class": False, "get_condition": False, "safe_get_condition": False}
    out.append({"name": "strings.only_annotations_are_built_in_auto_mode", "ok": sites > 0 and not bad and all(partial_modes.get(k, "?") == v for k, v in want_modes.items()),
                "detail": f"{sites} direct calls of safe_get_expression / get_expression outside the annotation helpers pass parse_strings=False; the annotation helpers use "
                          f"auto mode, base-class and condition helpers never parse" + (f"; offending call sites: {bad}" if bad else "") +
                          ("" if all(partial_modes.get(k, "?") == v for k, v in want_modes.items()) else f"; helper modes: {partial_modes}")})
    handled = {k.name.split(".")[-1] for k in got.get("_node_map", {})}
    expr_classes = {n for n in dir(_ast) if isinstance(getattr(_ast, n), type) and issubclass(getattr(_ast, n), _ast.expr) and n not in ("expr", "Await", "Num", "Str", "Bytes",
                    "NameConstant", "Ellipsis", "Index", "ExtSlice", "slice", "Suite", "AugLoad", "AugStore", "Param")} | {"comprehension", "keyword"}
    expr_classes = {n for n in expr_classes if not getattr(getattr(_ast, n), "__module__", "ast") != "ast" or True}
    missing = sorted(n for n in expr_classes if n not in handled and n not in ("TemplateStr", "Interpolation"))
    out.append({"name": "table._node_map_total", "ok": not missing, "detail": f"every expression node class of the grammar has a builder ({len(handled)} classes)" + (f"; missing {missing}" if missing else "")})
    return out


def bounded_checks(tier, seed):
    import json, os, subprocess, time
    from pyvc.run import VERIF, VENV_PY, REPO_SRC
    t0 = time.time()
    budget = 60 if tier == "quick" else 600
    r = subprocess.run([VENV_PY, "-m", "replay.C03", str(budget), "1"], capture_output=True, text=True, cwd=str(VERIF), env=dict(os.environ, PYTHONPATH=str(REPO_SRC)), timeout=budget + 300)
    if r.returncode != 0:
        raise RuntimeError("bounded C03 catalogue crashed: " + r.stderr[-1500:])
    d = json.loads(r.stdout.strip().splitlines()[-1])
    return [{"check": "expression_catalogue", "tool": "get_expression + str() re-parsed by ast.parse and compared with the source tree (ast.dump); flat / first-level iteration pieces; "
             "name elements; string-annotation table through griffe.visit (eager and postponed annotations, Literal under aliases, decorators / bases / defaults / values)",
             "bound": "every node template over 13 atoms, every binary / boolean / comparison template over 6x6 atoms, and every template over 22 compound operands "
                      "with and without explicit parentheses (depth 2)",
             "cases": d["cases"], "failing": len(d["bad"]), "wall_s": round(time.time() - t0, 1), "class_match": False, "violations": d["bad"]}]
