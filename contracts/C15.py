"""C15 — static loading never executes analysed code; interpreter state is restored."""
from __future__ import annotations

import ast

import z3

from pyvc.api import *  # noqa: F403
from pyvc.values import *  # noqa: F403
from pyvc import loops

IMP = "_griffe.importer:"
LD = "_griffe.loader:GriffeLoader."

TRUSTED_BASE = [
    "compile(..., PyCF_ONLY_AST) / ast.parse / ast.literal_eval execute nothing",
    "extensions are the user's code (load_extensions/_load_extension_path excluded from the execution frontier)",
    "exceptions are modelled by one representative per handler-equivalence class (api.BASE_EXC_REPS); asynchronous exceptions only at call boundaries",
    "opaque summaries: import_module / getattr on foreign objects may return anything or raise any BaseException; "
    "ModuleFinder.find_spec returns or raises ModuleNotFoundError; visit/inspect/_load_submodules are opaque effects recorded in the ghost trace",
]
ASSUMPTIONS = ["the body of `with sys_path(...)` (incl. the code run by import_module) may rebind sys.path and raise anything; it does not mutate the old list object in place",
               "dynamic_import is called with the finder's search paths, which are not empty (ModuleFinder falls back to sys.path); with no path at all "
               "sys_path() installs nothing and restores nothing (pinned)"]


def setup_sys(P):
    old = Opaque("old_sys_path", z3.Int("old_sys_path_id"))
    # value comparison of the old list with anything else: undetermined (the requested paths may or may not equal it)
    P.ex.opaque_eq = lambda P_, o, other: z3.Bool(P_._fresh_name("sys_path_value_equals_other"))
    # sys.modules: an arbitrary table (what is already imported is outside the function's control)
    in_modules = z3.Function("IN_SYS_MODULES", StrS, BoolS)
    P.ghost["ext"] = {"sys.path": old, "sys.modules": SMap(lambda k: in_modules(zstr(k)), lambda k: Opaque("pyobj"), tag="sys.modules")}
    return old


def path_seq(P):
    f = z3.Function("path_str", IntS, StrS)
    return sym_seq(P, "paths", lambda i: SStr(f(i)), kind="tuple")


@contract("C15", "sys_path.restore", [IMP + "sys_path"], floor=2, replay="replay_sys_path")
def c_sys_path(P):
    old = setup_sys(P)
    paths = path_seq(P)
    P.witness["n_paths"] = SInt(zint(paths.len))
    state = {}

    def body():
        # arbitrary user code: may rebind sys.path, may raise anything
        state["inside"] = P.ghost["ext"]["sys.path"]
        if P.branch(z3.Bool("body_rebinds_sys_path")):
            P.ghost["ext"]["sys.path"] = Opaque("user_list", z3.Int("user_list_id"))
        may_raise(P, "body")
    P.witness["body_rebinds"] = SBool(z3.Bool("body_rebinds_sys_path"))
    P.witness["body_raises"] = SBool(z3.Bool("body_raises"))
    P.assume(z3.Int("user_list_id") != z3.Int("old_sys_path_id"))
    kind, res = outcome(P, lambda: with_cm(P, IMP + "sys_path", [], body, star=paths))
    now = P.ghost["ext"]["sys.path"]
    nonempty = zint(paths.len) > 0
    writes = [t for t in P.trace if t[0] == "write" and t[1] == "sys.path"]
    P.prove("restored_on_every_exit", z3.Implies(nonempty, zbool(P.identical(now, old))), outcome=kind)
    P.prove("no_write_when_no_paths", z3.Implies(z3.Not(nonempty), len(writes) == 0), writes=len(writes), level="pinned")
    if "inside" in state:
        P.prove("paths_installed_inside", z3.Implies(nonempty, z3.Not(zbool(P.identical(state["inside"], old)))), level="pinned")
    # exceptions of the body propagate unchanged (not swallowed, not replaced)
    if kind == "raise":
        P.prove("only_body_exceptions_escape", z3.Bool("body_raises"))
    else:
        P.prove("body_exception_not_swallowed", z3.Not(z3.Bool("body_raises")))
    P.cover("sys_path." + kind)


def _import_hooks(P):
    def import_module(P_, a, k):
        P_.trace.append(("import_module",))
        # the imported code is arbitrary: it may rebind sys.path (and then still succeed, raise or exit)
        n = sum(1 for t in P_.trace if t[0] == "import_module")
        if n <= 2 and P_.branch(z3.Bool(f"imported_code_rebinds_sys_path_{n}")):
            P_.ghost["ext"]["sys.path"] = Opaque("list_left_by_imported_code", z3.Int(f"imported_code_list_id_{n}"))
            P_.assume(z3.Int(f"imported_code_list_id_{n}") != z3.Int("old_sys_path_id"))
        may_raise(P_, "import_module")
        return Opaque("pyobj")

    def getattr_(P_, a, k):
        if isinstance(a[0], Opaque) and a[0].tag == "pyobj":
            P_.trace.append(("getattr",))
            may_raise(P_, "getattr")
            return Opaque("pyobj")
        from pyvc import models
        return models._b_getattr(P_, a, k)
    P.opaque_hooks["importlib.import_module"] = import_module
    P.opaque_hooks["builtin:getattr"] = getattr_


@contract("C15", "dynamic_import", [IMP + "dynamic_import", IMP + "sys_path", IMP + "_error_details"], floor=3, replay="replay_dynamic_import")
def c_dynamic_import(P):
    old = setup_sys(P)
    _import_hooks(P)
    q = IMP + "dynamic_import"
    P.loop_specs[(q, 0)] = dict(mode="inv", name="while_module_parts",
                                variant=lambda P_, L, pre: P_.seq_len(L["module_parts"]) if not isinstance(P_.seq_len(L["module_parts"]), int) else P_.seq_len(L["module_parts"]))
    P.loop_specs[(q, 1)] = dict(mode="inv", name="for_object_parts",
                                hints={"value": lambda P_, n: Opaque("pyobj")})
    import_path = P.fresh_str("import_path")
    ips = opt(P, "import_paths", lambda: path_seq(P))
    if isinstance(ips, SUnion):
        ips = P.choose(ips)
    # the search paths handed over by the loader / inspector are the finder's, which are never empty (ASSUMPTIONS); with no path at all sys_path() has
    # nothing to install and what the imported code does to sys.path stays (pinned behaviour of sys_path, see sys_path.restore)
    nonempty = z3.BoolVal(False) if ips is None else (zint(P.seq_len(ips)) > 0)
    kind, res = outcome(P, lambda: call(P, q, import_path, ips))
    now = P.ghost["ext"]["sys.path"]
    rebound = z3.Or(z3.Bool("imported_code_rebinds_sys_path_1"), z3.Bool("imported_code_rebinds_sys_path_2"))
    P.prove("sys_path_restored", z3.Implies(z3.Or(nonempty, z3.Not(rebound)), zbool(P.identical(now, old))), outcome=kind)
    if kind == "raise":
        cname = P.resolve_cls(res)
        P.prove("raises_only_ImportError", P.is_subclass(cname, "ImportError"), exc=cname)
    P.cover("dynamic_import." + kind)


def mk_loader(P, allow, force):
    finder = SObj("ModuleFinder", {"search_paths": []}, frozen=True)
    coll = SObj("ModulesCollection", {}, frozen=True)
    return SObj("GriffeLoader", {
        "allow_inspection": allow, "force_inspection": force, "finder": finder, "modules_collection": coll,
        "lines_collection": Opaque("lenient:lines"), "store_source": SBool(z3.Bool("store_source")),
        "extensions": Opaque("lenient:extensions"), "docstring_parser": None, "docstring_options": {},
        "ignored_modules": [], "_time_stats": {"time_spent_visiting": 0, "time_spent_inspecting": 0}}, ident=z3.Int("loader_id"))


def _loader_hooks(P):
    def ev(name, ret=lambda P_: Opaque("lenient:module"), raises=None):
        def h(P_, a, k):
            P_.trace.append((name,))
            if raises:
                may_raise(P_, name, raises)
            return ret(P_)
        return h
    P.opaque_hooks[LD + "_inspect_module"] = ev("INSPECT")
    P.opaque_hooks[LD + "_visit_module"] = ev("visit", raises=["SyntaxError", "UnicodeDecodeError", "OSError", "ValueError"])
    P.opaque_hooks[LD + "_create_module"] = ev("create")
    P.opaque_hooks[LD + "_load_submodules"] = ev("submodules", ret=lambda P_: None)
    P.opaque_hooks["_griffe.collections:ModulesCollection.set_member"] = ev("set_member", ret=lambda P_: None)
    P.opaque_hooks["_griffe.mixins:SetMembersMixin.set_member"] = ev("set_member", ret=lambda P_: None)
    P.opaque_hooks["_griffe.importer:dynamic_import"] = ev("DYNAMIC_IMPORT", ret=lambda P_: Opaque("pyobj"), raises=["ImportError"])
    P.opaque_hooks["_griffe.loader:dynamic_import"] = P.opaque_hooks["_griffe.importer:dynamic_import"]


def exec_events(P):
    return [t for t in P.trace if t[0] in ("INSPECT", "DYNAMIC_IMPORT", "import_module")]


@contract("C15", "load_module_path.no_inspection", [LD + "_load_module_path"], floor=2, replay="replay_static_load")
def c_load_module_path(P):
    _loader_hooks(P)
    loader = mk_loader(P, False, False)
    suffix = P.fresh_str("suffix")
    is_list = z3.Bool("module_path_is_list")
    path = SUnion([(is_list, [Opaque("lenient:path")]), (z3.Not(is_list), SObj("pathlib.Path", {"suffix": suffix}, frozen=True))])
    parent = opt(P, "parent", lambda: Opaque("lenient:module"))
    kind, res = outcome(P, lambda: call(P, LD + "_load_module_path", loader, P.fresh_str("module_name"), path,
                                        submodules=SBool(z3.Bool("submodules")), parent=parent))
    P.prove("inspection_sites_dead", len(exec_events(P)) == 0, events=str(exec_events(P)))
    py = z3.Or(suffix.z == z3.StringVal(".py"), suffix.z == z3.StringVal(".pyi"))
    if kind == "raise":
        cname = P.resolve_cls(res)
        visited = any(t[0] == "visit" for t in P.trace)
        P.prove("compiled_module_rejected_or_visit_error", z3.Or(z3.And(z3.Not(is_list), z3.Not(py), cname == "LoadingError"), visited), exc=cname)
    else:
        P.prove("only_source_modules_loaded", z3.Or(is_list, py))
    P.cover("load_module_path." + kind)


@contract("C15", "load.no_dynamic_import", [LD + "load"], floor=2, replay="replay_static_load")
def c_load(P):
    _loader_hooks(P)
    loader = mk_loader(P, False, False)

    def find_spec(P_, a, k):
        P_.trace.append(("find_spec",))
        if P_.branch(z3.Bool("module_not_found")):
            raise PyExc(P_.mk_exc("ModuleNotFoundError", "x"))
        return (P_.fresh_str("obj_path"), Opaque("lenient:package"))
    P.opaque_hooks["_griffe.finder:ModuleFinder.find_spec"] = find_spec

    def load_package(P_, a, k):
        P_.trace.append(("load_package",))
        may_raise(P_, "load_package", ["LoadingError"])
        return Opaque("lenient:module")
    P.opaque_hooks[LD + "_load_package"] = load_package
    P.opaque_hooks[LD + "_post_load"] = lambda P_, a, k: Opaque("lenient:object")
    kind, res = outcome(P, lambda: call(P, LD + "load", loader, P.fresh_str("objspec"),
                                        submodules=SBool(z3.Bool("submodules")), try_relative_path=True, find_stubs_package=False))
    P.prove("no_dynamic_import_no_inspection", len(exec_events(P)) == 0, events=str(exec_events(P)))
    if kind == "raise":
        cname = P.resolve_cls(res)
        P.prove("not_found_reraised", z3.Implies(z3.Bool("module_not_found"), cname == "ModuleNotFoundError"), exc=cname)
        P.prove("raises_only_documented", cname in ("ModuleNotFoundError", "LoadingError"), exc=cname)
    else:
        P.prove("found_when_returning", z3.Not(z3.Bool("module_not_found")))
    P.cover("load." + kind)


@contract("C15", "resolve_module_aliases.no_inspection", [LD + "resolve_module_aliases"], floor=2, replay="replay_static_load", shard_bits=2)
def c_resolve_module_aliases(P):
    """"...even when alias resolution is asked to load external packages": resolve_module_aliases, driven exactly as in its C06 contract (one arbitrary member,
    symbolic implicit / external flags, load() by its contract above), reaches no execution site when the loader disallows inspection."""
    from contracts import C06 as _c06
    _loader_hooks(P)
    orig = _c06.mk_loader

    def mk(P_, H):
        ld, coll = orig(P_, H)
        ld.fields.update({"allow_inspection": False, "force_inspection": False})
        return ld, coll
    _c06.mk_loader = mk
    try:
        _c06.c_resolve_module_aliases(P)
    finally:
        _c06.mk_loader = orig
    ev = exec_events(P)
    P.prove("alias_resolution_reaches_no_execution_site", not ev, events=str(ev[:3]))


@contract("C15", "inspect_module.system_exit", [LD + "_inspect_module"], floor=1, replay="replay_inspect_exit")
def c_inspect_module(P):
    loader = mk_loader(P, True, False)
    loader.fields["store_source"] = False

    def inspect(P_, a, k):
        P_.trace.append(("inspect",))
        may_raise(P_, "inspect")
        return Opaque("lenient:module")
    P.opaque_hooks["_griffe.agents.inspector:inspect"] = inspect
    kind, res = outcome(P, lambda: call(P, LD + "_inspect_module", loader, P.fresh_str("module_name"), None, None))
    if kind == "raise":
        cname = P.resolve_cls(res)
        P.prove("system_exit_becomes_import_error", cname != "SystemExit", exc=cname, level="pinned")
    P.cover("inspect_module." + kind)


@contract("C15", "load_module.error_conversion", [LD + "_load_module"], floor=1, replay="replay_inspect_exit")
def c_load_module(P):
    loader = mk_loader(P, True, False)

    def lmp(P_, a, k):
        may_raise(P_, "load_module_path", ["SyntaxError", "ImportError", "ModuleNotFoundError", "UnicodeDecodeError", "OSError", "LoadingError"])
        return Opaque("lenient:module")
    P.opaque_hooks[LD + "_load_module_path"] = lmp
    kind, res = outcome(P, lambda: call(P, LD + "_load_module", loader, "m", Opaque("lenient:path"), submodules=False, parent=None))
    if kind == "raise":
        cname = P.resolve_cls(res)
        P.prove("errors_become_LoadingError", cname == "LoadingError", exc=cname)
    P.cover("load_module." + kind)


@contract("C15", "load_submodule.skips_unloadable", [LD + "_load_submodule"], floor=1, replay="replay_static_load")
def c_load_submodule(P):
    loader = mk_loader(P, False, False)

    def lm(P_, a, k):
        P_.trace.append(("load_module",))
        may_raise(P_, "load_module", ["LoadingError"])
        return SObj("Module", {"path": "pkg.sub"}, frozen=True)
    P.opaque_hooks[LD + "_load_module"] = lm
    parent_members = {}
    parent = SObj("Module", {"members": parent_members}, frozen=True)
    P.opaque_hooks[LD + "_get_or_create_parent_module"] = lambda P_, a, k: parent
    P.opaque_hooks["_griffe.mixins:SetMembersMixin.set_member"] = lambda P_, a, k: P_.trace.append(("set_member",))
    kind, res = outcome(P, lambda: call(P, LD + "_load_submodule", loader, Opaque("lenient:module"), ("sub",), Opaque("lenient:path")))
    P.prove("loading_error_is_swallowed", kind == "ok", exc=str(res))
    raised = z3.Bool("load_module_raises")
    attached = any(t[0] == "set_member" for t in P.trace)
    P.prove("unloadable_submodule_not_attached", z3.Implies(raised, not attached))
    P.cover("load_submodule." + kind)


# --------------------------------------------------------------------------- execution frontier (syntactic lemma over the whole tree)
PRIM_NAMES = {"exec", "eval", "__import__", "import_module", "compile", "spec_from_file_location", "module_from_spec"}
PRIM_ATTRS = {"import_module", "exec_module", "run_module", "run_path", "load_module", "system", "popen", "Popen", "run", "check_output",
              "check_call", "call", "spec_from_file_location", "module_from_spec"}
PRIM_BASES = ("subprocess", "importlib", "runpy", "os", "importlib.util", "util", "spec.loader", "sys")
CALLEES = {"dynamic_import", "_inspect_module", "inspect", "Inspector", "get_module"}

# functions allowed to contain an execution primitive (pinned), and who may call into the inspection machinery
ALLOWED_PRIMS = {
    "_griffe.extensions.base:_load_extension_path": {"module_from_spec", "spec.loader.exec_module", "spec_from_file_location"},  # user's extension code
    "_griffe.git:assert_git_repo": {"subprocess.run"}, "_griffe.git:get_latest_tag": {"subprocess.run"},
    "_griffe.git:get_repo_root": {"subprocess.check_output"}, "_griffe.git:tmp_worktree": {"subprocess.run"},
    "_griffe.importer:dynamic_import": {"import_module"},
}
ALLOWED_CALLERS = {
    "_griffe.agents.inspector:inspect": {"Inspector", "get_module"},
    "_griffe.agents.inspector:Inspector.get_module": {"dynamic_import", "inspect"},
    "_griffe.agents.inspector:Inspector.generic_inspect": {"Inspector", "inspect"},
    "_griffe.agents.visitor:visit": {"get_module"},           # Visitor.get_module (static), not the inspector's
    "_griffe.extensions.base:_load_extension": {"dynamic_import"},  # user's extension code
    "_griffe.extensions.base:Extension.generic_inspect": {"inspect"},
    "_griffe.loader:GriffeLoader.load": {"_inspect_module", "dynamic_import"},          # proved dead under not allow and not force
    "_griffe.loader:GriffeLoader._load_module_path": {"_inspect_module"},               # proved dead under not allow and not force
    "_griffe.loader:GriffeLoader._inspect_module": {"inspect"},
    "_griffe.tests:temporary_inspected_module": {"inspect"},
}


def frontier():
    from pyvc.source import SourceIndex
    idx = SourceIndex()
    idx.load_all()
    prims_by_fn, calls_by_fn = {}, {}
    for name, mi in sorted(idx.modules.items()):
        qual = {}

        def rec(body, prefix):
            for st in body:
                if isinstance(st, (ast.FunctionDef, ast.AsyncFunctionDef)):
                    qual[id(st)] = prefix + st.name
                    rec(st.body, prefix + st.name + ".")
                elif isinstance(st, ast.ClassDef):
                    rec(st.body, prefix + st.name + ".")
                elif isinstance(getattr(st, "body", None), list):
                    rec(st.body, prefix)
                    for x in ("orelse", "finalbody"):
                        rec(getattr(st, x, []) or [], prefix)
                    for h in getattr(st, "handlers", []) or []:
                        rec(h.body, prefix)
        rec(mi.tree.body, "")
        # module-level code counts as the pseudo function <module>
        units = [(name + ":" + qual.get(id(n), n.name), n) for n in ast.walk(mi.tree) if isinstance(n, (ast.FunctionDef, ast.AsyncFunctionDef))]
        top = ast.Module(body=[st for st in mi.tree.body if not isinstance(st, (ast.FunctionDef, ast.AsyncFunctionDef, ast.ClassDef))], type_ignores=[])
        units.append((name + ":<module>", top))
        for q, fn in units:
            prims, calls = set(), set()
            for n in ast.walk(fn):
                if isinstance(n, ast.Call):
                    f = n.func
                    if isinstance(f, ast.Name):
                        if f.id in PRIM_NAMES and not (f.id == "compile" and "PyCF_ONLY_AST" in ast.unparse(n)):
                            prims.add(f.id)
                        if f.id in CALLEES:
                            calls.add(f.id)
                    elif isinstance(f, ast.Attribute):
                        base = ast.unparse(f.value)
                        if f.attr in PRIM_ATTRS and (base in PRIM_BASES or f.attr in ("exec_module", "import_module")):
                            prims.add(base + "." + f.attr)
                        if f.attr in CALLEES:
                            calls.add(f.attr)
            if prims:
                prims_by_fn[q] = prims
            if calls:
                calls_by_fn[q] = calls
    return prims_by_fn, calls_by_fn


def lemmas(tier, seed):
    prims, calls = frontier()
    new_prims = {f: sorted(p - ALLOWED_PRIMS.get(f, set())) for f, p in prims.items() if p - ALLOWED_PRIMS.get(f, set())}
    new_calls = {f: sorted(c - ALLOWED_CALLERS.get(f, set())) for f, c in calls.items() if c - ALLOWED_CALLERS.get(f, set())}
    return [
        {"name": "frontier.execution_primitives_closed", "ok": not new_prims, "on_fail": "undecided",
         "detail": f"new code-execution primitive(s) outside the contracted frontier: {new_prims} -- needs a contract before C15 can be decided",
         "covered": sorted(prims)},
        {"name": "frontier.inspection_call_sites_closed", "ok": not new_calls, "on_fail": "undecided",
         "detail": f"new call site(s) into dynamic import / inspection: {new_calls} -- needs a dead-site contract before C15 can be decided",
         "covered": sorted(calls)},
    ]


def bounded_checks(tier, seed):
    import json, os, subprocess, time
    from pyvc.run import VERIF, VENV_PY, REPO_SRC
    t0 = time.time()
    r = subprocess.run([VENV_PY, "-m", "replay.C15"], capture_output=True, text=True, cwd=str(VERIF), env=dict(os.environ, PYTHONPATH=str(REPO_SRC)), timeout=900)
    if r.returncode != 0:
        raise RuntimeError("bounded C15 scenarios crashed: " + r.stderr[-1500:])
    d = json.loads(r.stdout.strip().splitlines()[-1])
    return [{"check": "native_scenarios", "tool": "real loads with markers: side-effecting sources, compiled and source-less modules, missing packages (inspection disallowed: marker "
             "files, sys.modules, sys.path, execution sites spied on); modules that raise / exit / rebind sys.path at import time under inspection; sys_path() under every "
             "exception class", "bound": "4 scenario families, about 60 loads / imports (static load incl. an external module that exists only as byte code behind an alias, external alias resolution on)", "cases": d["cases"], "failing": len(d["bad"]), "wall_s": round(time.time() - t0, 1),
             "violations": d["bad"]}]
