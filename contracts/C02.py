"""C02 — function signatures equal CPython's view: contracts."""
from __future__ import annotations

import z3

from pyvc.api import *  # noqa: F403
from pyvc.values import *  # noqa: F403

TRUSTED_BASE = [
    "spec cpython_args = the `ast.arguments` alignment rule of the Python docs (defaults right-aligned on posonlyargs+args; kw_defaults pointwise); "
    "cross-validated against inspect.signature in the bounded tier",
    "ast.arguments validity: len(defaults) <= len(posonlyargs)+len(args), len(kw_defaults) == len(kwonlyargs) (guaranteed by the CPython parser)",
]
ASSUMPTIONS = ["annotation/default *expressions* are C03's subject; here they are opaque AST identities"]

PK = "ParameterKind"


def mk_arguments(P):
    """Symbolic ast.arguments of arbitrary sizes."""
    def args_seq(tag):
        namef = z3.Function(tag + "_name", IntS, StrS)
        annf = z3.Function(tag + "_ann", IntS, IntS)
        ann_none = z3.Function(tag + "_ann_none", IntS, BoolS)

        def elem(i):
            ann = SUnion([(ann_none(i), None), (z3.Not(ann_none(i)), Opaque("ast", annf(i)))])
            return SObj("ast.arg", {"arg": SStr(namef(i)), "annotation": ann}, ident=z3.Function(tag + "_id", IntS, IntS)(i), frozen=True)
        return sym_seq(P, tag, elem)
    po, ar, kw = args_seq("posonly"), args_seq("args"), args_seq("kwonly")
    dff = z3.Function("default_node", IntS, IntS)
    defaults = sym_seq(P, "defaults", lambda i: Opaque("ast", dff(i)))
    kdf = z3.Function("kwdefault_node", IntS, IntS)
    kdn = z3.Function("kwdefault_none", IntS, BoolS)
    kw_defaults = sym_seq(P, "kw_defaults", lambda i: SUnion([(kdn(i), None), (z3.Not(kdn(i)), Opaque("ast", kdf(i)))]), length=kw.len)

    def single(tag):
        return SObj("ast.arg", {"arg": P.fresh_str(tag + "_name"),
                                "annotation": opt(P, tag + "_ann", lambda: Opaque("ast", z3.Int(tag + "_ann_id")))}, ident=z3.Int(tag + "_id"), frozen=True)
    vararg = opt(P, "vararg", lambda: single("vararg"))
    kwarg = opt(P, "kwarg", lambda: single("kwarg"))
    node = SObj("ast.arguments", dict(posonlyargs=po, args=ar, defaults=defaults, vararg=vararg, kwonlyargs=kw,
                                      kw_defaults=kw_defaults, kwarg=kwarg), frozen=True)
    P.assume(zint(defaults.len) <= zint(po.len) + zint(ar.len))
    P.witness.update(posonlyargs=po, args=ar, defaults=defaults, vararg=vararg, kwonlyargs=kw, kw_defaults=kw_defaults, kwarg=kwarg)
    return node, po, ar, defaults, vararg, kw, kw_defaults, kwarg


def kind(P, name):
    return next(m for m in P.enum_members(PK) if m.name == name)


@contract("C02", "get_parameters", ["_griffe.agents.nodes.parameters:get_parameters"], replay="replay_get_parameters", floor=8)
def c_get_parameters(P):
    node, po, ar, defaults, vararg, kw, kw_defaults, kwarg = mk_arguments(P)
    kind_, res = outcome(P, lambda: call(P, "_griffe.agents.nodes.parameters:get_parameters", node))
    if kind_ == "raise":
        P.prove("raises", False, exc=P.resolve_cls(res))
        return
    result = as_seq(P, res)
    npo, na, nd, nk = zint(po.len), zint(ar.len), zint(defaults.len), zint(kw.len)
    n = npo + na
    has_va = z3.Not(vararg.alts[0][0])
    has_kw = z3.Not(kwarg.alts[0][0])
    va = z3.If(has_va, 1, 0)
    total = n + va + nk + z3.If(has_kw, 1, 0)
    P.prove("len", zint(P.seq_len(result)) == total)
    # positional segment, Skolem index
    i = z3.Int("i_pos")
    P.witness["i_pos"] = SInt(i)
    P.assume(z3.And(i >= 0, i < n))
    src = P.ite(mk_bool(i < npo), po.at(i), ar.at(mk_int(i - npo)))
    src = P.choose(src) if isinstance(src, SUnion) else src
    elt = P.seq_at(result, SInt(i))
    elt = P.choose(elt) if isinstance(elt, SUnion) else elt
    P.prove("pos.name", P.eq(elt[0], src.fields["arg"]))
    P.prove("pos.annotation", P.eq(elt[1], src.fields["annotation"]))
    P.prove("pos.kind", P.eq(elt[2], P.ite(mk_bool(i < npo), kind(P, "positional_only"), kind(P, "positional_or_keyword"))))
    exp_default = P.ite(mk_bool(i >= n - nd), defaults.at(mk_int(i - (n - nd))), None)
    P.prove("pos.default", P.eq(elt[3], exp_default))
    # vararg
    if P.branch(has_va):
        v = P.choose(vararg)
        e = P.seq_at(result, mk_int(n))
        e = P.choose(e) if isinstance(e, SUnion) else e
        P.prove("vararg", z3.And(zbool(P.eq(e[0], v.fields["arg"])), zbool(P.eq(e[1], v.fields["annotation"])),
                                 zbool(P.eq(e[2], kind(P, "var_positional"))), zbool(P.eq(e[3], "()"))))
    # keyword-only segment
    j = z3.Int("j_kw")
    P.witness["j_kw"] = SInt(j)
    P.assume(z3.And(j >= 0, j < nk))
    ke = P.seq_at(result, mk_int(n + va + j))
    ke = P.choose(ke) if isinstance(ke, SUnion) else ke
    ksrc = kw.at(j)
    P.prove("kwonly.name", P.eq(ke[0], ksrc.fields["arg"]))
    P.prove("kwonly.annotation", P.eq(ke[1], ksrc.fields["annotation"]))
    P.prove("kwonly.kind", P.eq(ke[2], kind(P, "keyword_only")))
    P.prove("kwonly.default", P.eq(ke[3], kw_defaults.at(j)))
    if P.branch(has_kw):
        v = P.choose(kwarg)
        e = P.seq_at(result, mk_int(n + va + nk))
        e = P.choose(e) if isinstance(e, SUnion) else e
        P.prove("kwarg", z3.And(zbool(P.eq(e[0], v.fields["arg"])), zbool(P.eq(e[1], v.fields["annotation"])),
                                zbool(P.eq(e[2], kind(P, "var_keyword"))), zbool(P.eq(e[3], "{}"))))
    P.cover("get_parameters")


# =========================================================================== Visitor.handle_function: overloads, accessors, parameters
from specs import visitorfx as VF  # noqa: E402

TRUSTED_BASE += [
    "handle_function: extensions.call, set_member (C16), safe_get_expression / safe_get_annotation (C03), decorators_to_labels (C01), get_base_property and "
    "get_parameters (contract above) are taken by contract; the fold 'some decorator among the first i is typing.overload' is specified by its defining equations",
]


@contract("C02", "handle_function.overloads_and_accessors", [VF.VS + "handle_function"], floor=5, replay="replay_handle_function", split=16)
def c_handle_function_branches(P):
    """Arbitrary decorator lists, accessor kinds, pending overloads, labels argument (the definition has no parameters here)."""
    VF.handle_function_driver(P, "C02-branches")


@contract("C02", "handle_function.parameters", [VF.VS + "handle_function"], floor=4, replay="replay_handle_function", split=16)
def c_handle_function_params(P):
    """Arbitrary parameter lists on an undecorated definition; lemma `parameters_statement_reads_only_the_signature` shows that the statement building the
    parameters reads nothing the decorator / accessor / overload handling writes, so the result is the same for every decorated definition."""
    VF.handle_function_driver(P, "C02-params")


def lemmas(tier, seed):
    import ast as _ast
    from pyvc.source import SourceIndex
    idx = SourceIndex()
    idx.load_all()
    mi, node, cls = idx.find_function(VF.VS + "handle_function")
    out = []
    stmt = next((st for st in node.body if isinstance(st, _ast.Assign) and isinstance(st.targets[0], _ast.Name) and st.targets[0].id == "parameters"), None)
    allowed = {"self", "node", "Parameters", "Parameter", "get_parameters", "safe_get_annotation", "safe_get_expression", "name", "annotation", "kind", "default",
               "isinstance", "str", "parameters"}
    vcls = next(c for c in mi.tree.body if isinstance(c, _ast.ClassDef) and c.name == "Visitor")
    methods = {f.name: f for f in vcls.body if isinstance(f, (_ast.FunctionDef, _ast.AsyncFunctionDef))}

    def reads(tree, extra, depth=0):
        """Names / attributes a piece of code reads, following private helper methods of the visitor (one level of extraction is a harmless refactoring)."""
        bad = []
        for n in _ast.walk(tree):
            if isinstance(n, _ast.Name) and n.id not in allowed and n.id not in extra:
                bad.append(n.id)
            elif isinstance(n, _ast.Attribute) and isinstance(n.value, _ast.Name) and n.value.id in ("self", "node"):
                text = _ast.unparse(n)
                if text in ("node.args", "self.current"):
                    continue
                if n.value.id == "self" and n.attr in methods and depth < 2:
                    m = methods[n.attr]
                    params = {a.arg for a in m.args.args + m.args.kwonlyargs}
                    local = {x.id for x in _ast.walk(m) if isinstance(x, _ast.Name) and isinstance(x.ctx, _ast.Store)}
                    bad += reads(_ast.Module(body=m.body, type_ignores=[]), params | local, depth + 1)
                else:
                    bad.append(text)
        return bad
    if stmt is None:
        out.append({"name": "parameters_statement_reads_only_the_signature", "ok": False, "on_fail": "undecided",
                    "detail": "handle_function no longer has a single `parameters = ...` statement; the decomposition of the proof must be revisited"})
    else:
        bad = sorted(set(reads(stmt, set())))
        # a side condition of the proof decomposition, not a clause of the property: when the statement changes shape the decomposition is undecided
        out.append({"name": "parameters_statement_reads_only_the_signature", "ok": not bad, "on_fail": "undecided",
                    "detail": "the statement that builds Function.parameters (private helper methods followed) reads only node.args, self.current and the expression builders"
                              + (f"; also reads {bad}" if bad else "")})
    out.append(VF.ownership_lemma(idx))
    return out


# =========================================================================== Parameter / Parameters (lookup by position and by name)
MDL = "_griffe.models:"
from pyvc import models  # noqa: E402


def mk_parameters(P):
    NAME = z3.Function("PARAMETER_NAME", IntS, StrS)

    def mk(i):
        return SObj("Parameter", {"name": SStr(NAME(zint(i))), "__index": SInt(zint(i))}, ident=z3.Function("PARAMETER_OBJECT", IntS, IntS)(zint(i)), frozen=True)
    seq = sym_seq(P, "parameters", mk)
    j1, j2 = z3.Int("ja"), z3.Int("jb")
    return SObj("Parameters", {"_params": seq}, ident=z3.Int("parameters_id"), frozen=True), seq, NAME


@contract("C02", "parameter.required", [MDL + "Parameter.required"], floor=1)
def c_required(P):
    d = opt(P, "default", lambda: P.fresh_str("default_text"))
    p = SObj("Parameter", {"default": d}, frozen=True)
    r = P.getattr(p, "required")
    P.prove("required_iff_no_default", py_bool(P, r) == d.alts[0][0])


@contract("C02", "parameters.lookup", [MDL + "Parameters.__getitem__", MDL + "Parameters.__contains__", MDL + "Parameters.__len__"], floor=6, replay="replay_handle_function", split=16)
def c_parameters_lookup(P):
    """By position: the parameter at that position (IndexError outside); by name (leading stars ignored): the first parameter of that name, KeyError if none;
    `in` answers whether such a parameter exists; len is the number of parameters."""
    ps, seq, NAME = mk_parameters(P)
    n = zint(seq.len)
    STRIPPED = models.ufn("str_lstrip_2a", StrS, StrS)
    by_index = z3.Bool("lookup_by_index")
    if P.branch(by_index):
        i = P.fresh_int("index")
        kind, res = outcome(P, lambda: models.getitem(P, ps, i))
        inb = z3.And(i.z >= -n, i.z < n)
        if kind == "raise":
            P.prove("index_error_only_outside", z3.And(z3.BoolVal(P.resolve_cls(res) == "IndexError"), z3.Not(inb)))
        else:
            P.prove("positional_lookup_returns_that_parameter", z3.And(inb, res.ident == z3.Function("PARAMETER_OBJECT", IntS, IntS)(z3.If(i.z < 0, n + i.z, i.z))))
        P.cover("index")
        return
    name = P.fresh_str("lookup_name")
    key = STRIPPED(name.z)
    k = z3.Int("k_any")          # an arbitrary position (free in the goals: they hold for every k)
    P.witness.update(parameters=seq, lookup_name=name, k_any=SInt(k))
    kind, res = outcome(P, lambda: models.getitem(P, ps, name))
    if kind == "raise":
        P.prove("key_error_only_when_no_parameter_has_that_name", z3.And(z3.BoolVal(P.resolve_cls(res) == "KeyError"), z3.Implies(z3.And(k >= 0, k < n), NAME(k) != key)))
    else:
        w = zint(res.fields["__index"])
        P.prove("named_lookup_returns_a_parameter_of_that_name", z3.And(w >= 0, w < n, NAME(w) == key))
        P.prove("named_lookup_returns_the_first_parameter_of_that_name", z3.Implies(z3.And(k >= 0, k < w), NAME(k) != key))
    kind2, res2 = outcome(P, lambda: models.contains(P, ps, name))
    if kind2 == "raise":
        P.prove("membership_never_raises", False)
    else:
        # `in` and `[...]` agree: present iff the lookup succeeded
        P.prove("membership_agrees_with_lookup", zbool(res2) == z3.BoolVal(kind == "ok"))
    ln = models._b_len(P, [ps], {})
    P.prove("len_is_the_number_of_parameters", zint(ln) == n)
    P.cover("name")


def bounded_checks(tier, seed):
    import json, os, subprocess, time
    from pyvc.run import VERIF, VENV_PY, REPO_SRC
    t0 = time.time()
    r = subprocess.run([VENV_PY, "-m", "replay.C02", "120" if tier == "quick" else "600"], capture_output=True, text=True, cwd=str(VERIF),
                       env=dict(os.environ, PYTHONPATH=str(REPO_SRC)), timeout=1200)
    if r.returncode != 0:
        raise RuntimeError("bounded C02 sweep crashed: " + r.stderr[-1500:])
    d = json.loads(r.stdout.strip().splitlines()[-1])
    return [{"check": "signatures_vs_inspect", "tool": "native: the whole static pipeline (griffe.visit) against inspect.signature of the executed definitions",
             "bound": f"all {d['shapes']} parameter-list shapes with <= 2 parameters per group, every legal default placement, with and without annotations, as function, "
                      "method and async method; overloads and property accessors of a fixed class",
             "cases": d["cases"], "failing": len(d["bad"]), "wall_s": round(time.time() - t0, 1), "violations": d["bad"]}]
