"""C18 — synthesised dataclass constructors: contracts on extensions/dataclasses.py."""
from __future__ import annotations

import os

import z3

from pyvc.api import *  # noqa: F403
from pyvc.values import *  # noqa: F403
from pyvc import models, loops
from specs.heap import Heap, OBJ_KINDS

DC = "_griffe.extensions.dataclasses:"
PK = "ParameterKind"

TRUSTED_BASE = [
    "_dataclass_parameters: the per-member decision table is proved for one generic loop iteration from an arbitrary carried state (kw_only flag, parameters so far); "
    "the whole-loop result is the fold of that table (induction on the member list)",
    "_field_arguments / _dataclass_arguments are summarised by the set of keys they return (init, kw_only, default, default_factory) with arbitrary values",
    "dataclass __init__ spec == CPython's dataclasses module: cross-validated in the bounded tier by executing dataclasses",
]
ASSUMPTIONS = ["equality with inspect.signature(cls.__init__) for whole hierarchies is a bounded native tier, never counted as proved"]


def kinds(P):
    return {m.name: m for m in P.enum_members(PK)}


def mk_param(P, tag, i):
    return SObj("Parameter", {"name": SStr(z3.Function(tag + "_name", IntS, StrS)(i)), "kind": SEnum(PK, z3.Function(tag + "_kind", IntS, IntS)(i)),
                              "default": None, "annotation": None}, ident=z3.Function(tag + "_id", IntS, IntS)(i), frozen=True)


@contract("C18", "_reorder_parameters", [DC + "_reorder_parameters"], floor=3, replay="replay_dataclasses", tier="BS",
          note="<= 4 (quick) / 5 (thorough) parameters; names (incl. duplicates) and kinds symbolic", shard_bits=3)
def c_reorder(P):
    maxn = 5 if os.environ.get("PYVC_TIER") == "thorough" else 4
    nz = z3.Int("n_params")
    P.assume(z3.And(nz >= 0, nz <= maxn))
    n = next(k for k in range(maxn + 1) if P.branch(nz == k) or k == maxn)
    ps = []
    for i in range(n):
        p = mk_param(P, "p", z3.IntVal(i))
        P.assume(z3.And(p.fields["kind"].z >= 0, p.fields["kind"].z < 5))
        ps.append(p)
    P.witness["params"] = ps
    kind, res = outcome(P, lambda: call(P, DC + "_reorder_parameters", list(ps)))
    P.prove("never_raises", kind == "ok", exc=str(res))
    if kind != "ok":
        return
    res = list(P.to_seq(res)) if not isinstance(res, list) else res
    K = kinds(P)
    # spec: dict semantics (first position kept, last definition wins), then stable partition PO / other / KWO
    slots = []
    for i, p in enumerate(ps):
        if any(P.branch(zstr(q.fields["name"]) == zstr(p.fields["name"])) for q in ps[:i]):
            continue
        last = p
        for q in ps[i + 1:]:
            if P.branch(zstr(q.fields["name"]) == zstr(p.fields["name"])):
                last = q
        slots.append(last)
    def grp(p):
        if P.branch(p.fields["kind"].z == K["positional_only"].index):
            return 0
        if P.branch(p.fields["kind"].z == K["keyword_only"].index):
            return 2
        return 1
    gs = [(grp(p), i, p) for i, p in enumerate(slots)]
    exp = [p for g, i, p in sorted(gs, key=lambda t: (t[0], t[1]))]
    P.prove("length", len(res) == len(exp), got=len(res), want=len(exp))
    P.prove("order_and_identity", len(res) == len(exp) and all(a is b for a, b in zip(res, exp)))
    P.cover("_reorder_parameters")


def mk_member(P, H, tag):
    m = H.obj(tag, OBJ_KINDS)   # members of a dataclass body that are aliases (imports) are outside the statement's domain
    ann_none = z3.Bool(tag + "_annotation_none")
    ann_path = P.fresh_str(tag + "_annotation_path")
    m.fields["annotation"] = SUnion([(ann_none, None), (z3.Not(ann_none), SObj("ExprName", {"canonical_path": ann_path}, ident=z3.Int(tag + "_ann_id"), frozen=True))])
    lab = z3.Function(tag + "_has_label", StrS, BoolS)
    m.fields["labels"] = SMap(lambda k: lab(zstr(k)), lambda k: None, tag="labels")
    m.fields["value"] = opt(P, tag + "_value", lambda: Opaque("value_expr", z3.Int(tag + "_value_id")))
    m.fields["docstring"] = None
    return m, dict(ann_none=ann_none, ann_path=ann_path.z, lab=lab)


@contract("C18", "_dataclass_parameters.per_member", [DC + "_dataclass_parameters"], floor=6, replay="replay_dataclasses", shard_bits=3)
def c_per_member(P):
    H = Heap(P)
    cls = H.obj("cls", ["Class"])
    cls.fields["decorators"] = []
    dec_init = P.fresh_str("dec_init")
    dec_kw = P.fresh_str("dec_kw_only")
    has_init, has_kw = z3.Bool("dec_has_init"), z3.Bool("dec_has_kw_only")
    dec = {}
    if P.branch(has_init):
        dec["init"] = dec_init
    if P.branch(has_kw):
        dec["kw_only"] = dec_kw
    P.opaque_hooks[DC + "_dataclass_arguments"] = lambda P_, a, k: dict(dec)
    member, mi = mk_member(P, H, "member")
    fa_keys = {k: z3.Bool("field_has_" + k) for k in ("init", "kw_only", "default", "default_factory")}
    fa_vals = {"init": P.fresh_str("field_init"), "kw_only": P.fresh_str("field_kw_only"),
               "default": Opaque("field_default", z3.Int("field_default_id")), "default_factory": Opaque("field_factory", z3.Int("field_factory_id"))}

    is_field_call = z3.Bool("value_is_field_call")

    def field_arguments(P_, a, k):
        if not P_.branch(is_field_call):
            return None
        return {key: fa_vals[key] for key in fa_keys if P_.branch(fa_keys[key])}
    for b_ in fa_keys.values():
        P.assume(z3.Implies(b_, is_field_call))
    P.opaque_hooks[DC + "_field_arguments"] = field_arguments
    P.opaque_hooks["new:ExprCall"] = lambda P_, a, k: SObj("ExprCall", {"function": k.get("function"), "arguments": k.get("arguments")}, ident=P_.new_ident())
    # the members: the generic element is `member`
    cls.fields["members"] = SMap(lambda k: True, lambda k: member, tag="members",
                                 keys_seq=SSeq(P.fresh_int("n_members"), lambda i: SStr(z3.Function("member_key", IntS, StrS)(zint(i))), tag="member_keys"))
    P.assume(zint(cls.fields["members"].keys_seq.len) >= 1)
    q = DC + "_dataclass_parameters"
    seen = {}

    def hint_params(P_, n):
        return []          # the parameters appended so far are irrelevant to the per-member decision; start the generic iteration from a fresh list

    def hint_bool(P_, n):
        return SBool(z3.Bool("kw_only_in"))

    def post_body(P_, before, after):
        seen["done"] = True
        params = after["parameters"]
        kw_in = z3.Bool("kw_only_in")
        kw_out = after["kw_only"]
        cname = P_.resolve_cls(member)
        is_attr = cname == "Attribute"
        sentinel = z3.And(z3.Not(mi["ann_none"]), mi["ann_path"] == z3.StringVal("dataclasses.KW_ONLY"))
        lab = mi["lab"]
        skip_label = z3.Or(lab(z3.StringVal("property")), z3.And(lab(z3.StringVal("class-attribute")), z3.Not(lab(z3.StringVal("instance-attribute")))))
        init_false = z3.And(fa_keys["init"], fa_vals["init"].z == z3.StringVal("False"))
        # class variables are no fields: a subscripted ClassVar[...] is unwrapped and labelled by the visitor (skip_label), a bare `ClassVar` annotation is still there
        bare_classvar = z3.And(z3.Not(mi["ann_none"]), z3.Or(mi["ann_path"] == z3.StringVal("typing.ClassVar"), mi["ann_path"] == z3.StringVal("typing_extensions.ClassVar")))
        produces = z3.And(is_attr, z3.Not(mi["ann_none"]), z3.Not(skip_label), z3.Not(bare_classvar), z3.Not(sentinel), z3.Not(init_false))
        P_.prove("at_most_one_parameter_per_member", len(params) <= 1)
        P_.prove("member_yields_parameter_iff_table", produces == (len(params) == 1), produced=len(params))
        P_.prove("kw_only_flag_flips_only_on_sentinel", zbool(kw_out) == z3.Or(kw_in, z3.And(is_attr, z3.Not(mi["ann_none"]), z3.Not(skip_label), sentinel)))
        if len(params) == 1:
            p = params[0]
            K = kinds(P_)
            P_.prove("parameter_named_after_member", P_.identical(p.fields["name"], P_.getattr(member, "name")))
            f_true = z3.And(fa_keys["kw_only"], fa_vals["kw_only"].z == z3.StringVal("True"))
            f_false = z3.And(fa_keys["kw_only"], fa_vals["kw_only"].z == z3.StringVal("False"))
            kw = z3.Or(z3.And(kw_in, z3.Not(f_false)), f_true)   # the field-level argument overrides the class-level flag / sentinel
            P_.prove("kind_follows_kw_only", p.fields["kind"].index == z3.If(kw, K["keyword_only"].index, K["positional_or_keyword"].index)
                     if isinstance(p.fields["kind"], EnumVal) else False)
            d = p.fields["default"]
            any_field_arg = z3.Or(*fa_keys.values())
            val = member.fields["value"]
            val_none = val.alts[0][0]
            if isinstance(d, SObj) and d.cls == "ExprCall":
                P_.prove("default_factory_becomes_a_call", z3.And(fa_keys["default_factory"], d.fields["function"] is fa_vals["default_factory"]))
            else:
                P_.prove("no_factory_without_call", z3.Not(fa_keys["default_factory"]))
                required = z3.BoolVal(d is None) if not isinstance(d, SUnion) else z3.Or(*[g for g, v in d.alts if v is None])
                exp_required = z3.If(fa_keys["default"], False, z3.If(is_field_call, True, val_none))
                P_.prove("required_iff_no_default", required == exp_required)
    P.loop_specs[(q, 0)] = dict(mode="inv", name="members", hints={"parameters": hint_params, "kw_only": hint_bool}, post_body=post_body)
    kind, res = outcome(P, lambda: call(P, q, cls))
    if kind == "raise":
        P.prove("never_raises", False, exc=P.resolve_cls(res))
        return
    if isinstance(res, list) and len(res) == 0 and not seen.get("done"):
        pass
    P.cover("_dataclass_parameters")


@contract("C18", "_set_dataclass_init", [DC + "_set_dataclass_init"], floor=6, replay="replay_dataclasses", shard_bits=2)
def c_set_init(P):
    H = Heap(P)
    cls = H.obj("cls", ["Class"])
    nz = z3.Int("mro_len")
    P.assume(z3.And(nz >= 0, nz <= 2))
    n = next(k for k in range(3) if P.branch(nz == k) or k == 2)
    parents = [H.obj(f"parent{i}", ["Class"]) for i in range(n)]
    mro_raises = z3.Bool("mro_raises")

    def mro(P_, a, k):
        if P_.branch(mro_raises):
            raise PyExc(P_.mk_exc("ValueError", "cycle"))
        return list(parents)
    P.opaque_hooks["_griffe.models:Class.mro"] = mro
    decorated = z3.Function("IS_DATACLASS", IntS, BoolS)
    for c in [cls] + parents:
        c.fields["decorators"] = Opaque("decorators", c.ident)
    P.opaque_hooks[DC + "_dataclass_decorator"] = lambda P_, a, k: SUnion([(z3.Not(decorated(a[0].z)), None), (decorated(a[0].z), Opaque("dataclass_expr", a[0].z))])
    returned = {}

    def dparams(P_, a, k):
        c = a[0]
        if id(c) not in returned:
            lst = [SObj("Parameter", {"name": P_.fresh_str(getattr(c, "tag", "c") + "_field"), "kind": kinds(P_)["positional_or_keyword"], "default": None, "annotation": None},
                        ident=P_.new_ident())]
            returned[id(c)] = (c, lst, list(lst))
        return returned[id(c)][1]
    P.opaque_hooks[DC + "_dataclass_parameters"] = dparams
    init_false = z3.Bool("decorator_init_false")
    P.opaque_hooks[DC + "_dataclass_arguments"] = lambda P_, a, k: ({"init": "False"} if P_.branch(init_false) else {})
    reorder_in = []

    def reorder(P_, a, k):
        reorder_in.append(list(P_.to_seq(a[0])))
        return list(P_.to_seq(a[0]))
    P.opaque_hooks[DC + "_reorder_parameters"] = reorder
    labels = models.SymSet()
    cls.fields["labels"] = labels
    # what the bases are labelled with is arbitrary: a plain class that merely inherits from a dataclass carries the label too, without contributing fields
    for i_, p_ in enumerate(parents):
        p_.fields["labels"] = models.SymSet(items=[], parts=[sym_seq(P, f"parent{i_}_labels", lambda i, i_=i_: SStr(z3.Function(f"PARENT{i_}_LABEL", IntS, StrS)(zint(i))))])
    sets = []
    P.opaque_hooks["_griffe.mixins:SetMembersMixin.set_member"] = lambda P_, a, k: sets.append(a)
    P.opaque_hooks["new:Function"] = lambda P_, a, k: SObj("Function", {"name": a[0], "parameters": k.get("parameters"), "returns": k.get("returns"), "parent": k.get("parent")}, ident=P_.new_ident())
    P.opaque_hooks["new:Parameters"] = lambda P_, a, k: SObj("Parameters", {"_params": list(a)}, ident=P_.new_ident())
    kind, res = outcome(P, lambda: call(P, DC + "_set_dataclass_init", cls))
    P.prove("never_raises", kind == "ok", exc=str(res))
    if kind != "ok":
        return
    own = decorated(cls.ident)
    mro_ok = z3.Not(mro_raises)
    dec_parents = [decorated(p.ident) for p in parents]
    any_parent = z3.And(mro_ok, z3.Or(*dec_parents)) if parents else z3.BoolVal(False)
    P.prove("dataclass_label_iff_a_parent_is_a_dataclass", any_parent == ("dataclass" in labels.items), labels=str(labels.items))
    P.prove("init_synthesised_iff_class_is_decorated_and_init_not_disabled", z3.And(own, z3.Not(init_false)) == (len(sets) == 1), sets=len(sets))
    # the lists handed out by _dataclass_parameters (they are cached) are never mutated
    for c, lst, snap in returned.values():
        P.prove("cached_parameter_lists_not_mutated", len(lst) == len(snap) and all(a is b for a, b in zip(lst, snap)))
    if len(sets) == 1:
        P.prove("init_attached_as___init__", sets[0][0] is cls and sets[0][1] == "__init__")
        init = sets[0][2]
        params = init.fields["parameters"].fields["_params"]
        P.prove("self_comes_first", len(params) >= 1 and params[0].fields["name"] == "self")
        P.prove("reordered_once", len(reorder_in) == 1)
        if len(reorder_in) == 1:
            got = reorder_in[0]
            # base-class fields in reverse MRO order (only decorated parents, only if the MRO is computable), then own fields
            exp = []
            for p in reversed(parents):
                if P.branch(z3.And(mro_ok, decorated(p.ident))):
                    exp += returned[id(p)][2] if id(p) in returned else [None]
            exp += returned[id(cls)][2] if id(cls) in returned else [None]
            P.prove("fields_of_bases_in_reverse_mro_then_own", len(got) == len(exp) and all(a is b for a, b in zip(got, exp)), got=len(got), want=len(exp))
    P.cover("_set_dataclass_init")


@contract("C18", "_apply_recursively.guards", [DC + "_apply_recursively"], floor=3, replay="replay_dataclasses")
def c_apply(P):
    H = Heap(P)
    is_class = z3.Bool("is_class")
    o = H.obj("o", ["Class"] if P.branch(is_class) else ["Module"])
    has_init = z3.Bool("declares___init__")
    child = H.obj("child", OBJ_KINDS + ["Alias"])
    members = {"child": child}
    if P.branch(has_init):
        members["__init__"] = H.obj("own_init", ["Function"])
    o.fields["members"] = members
    calls, dels, rec = [], [], []
    P.opaque_hooks[DC + "_set_dataclass_init"] = lambda P_, a, k: calls.append(a[0])
    P.opaque_hooks[DC + "_del_members_annotated_as_initvar"] = lambda P_, a, k: dels.append(a[0])
    P.opaque_hooks[DC + "_apply_recursively"] = lambda P_, a, k: rec.append(a[0])
    processed = models.SymSet()
    already = z3.Bool("already_processed")
    if P.branch(already):
        processed.items.append(SStr(H.path_of(o)))
    kind, res = outcome(P, lambda: call(P, DC + "_apply_recursively", o, processed))
    P.prove("never_raises", kind == "ok", exc=str(res))
    if kind != "ok":
        return
    P.prove("hand_written_init_is_never_replaced", z3.Implies(has_init, len(calls) == 0))
    P.prove("modules_get_no_init", z3.Implies(z3.Not(is_class), len(calls) == 0))
    P.prove("processed_objects_are_skipped", z3.Implies(already, len(calls) == 0 and len(rec) == 0))
    P.prove("class_without_init_is_considered", z3.Implies(z3.And(is_class, z3.Not(has_init), z3.Not(already)), len(calls) == 1))
    ccls = P.resolve_cls(child)
    P.prove("recursion_only_into_real_classes_and_modules", all(r is child for r in rec) and (len(rec) == 0 or ccls in ("Class", "Module")))
    P.cover("_apply_recursively")


def bounded_checks(tier, seed):
    import json, os, subprocess, time
    from pyvc.run import VERIF, VENV_PY, REPO_SRC
    t0 = time.time()
    budget = 90 if tier == "quick" else 900
    r = subprocess.run([VENV_PY, "-m", "replay.C18", str(budget)], capture_output=True, text=True, cwd=str(VERIF), env=dict(os.environ, PYTHONPATH=str(REPO_SRC)), timeout=budget + 300)
    if r.returncode != 0:
        raise RuntimeError("bounded C18 sweep crashed: " + r.stderr[-1500:])
    d = json.loads(r.stdout.strip().splitlines()[-1])
    return [{"check": "dataclass_hierarchies", "tool": "generated dataclass definitions: static load vs. executing dataclasses (inspect.signature of the generated __init__)",
             "bound": "17 field forms (incl. bare ClassVar) x 5 decorator forms, 1-2 fields per class; 2-level hierarchies (7x7 forms, 4x4 decorators, re-declared or new field; InitVar / ClassVar fields of the base under 4x4 decorators); special shapes incl. a plain class between two dataclasses",
             "cases": d["cases"], "rejected_by_cpython": d["rejected_by_cpython"], "failing": len(d["bad"]), "wall_s": round(time.time() - t0, 1),
             "class_match": True, "violations": d["bad"]}]
