"""C08 — JSON round trip: shape-level inverse-pair contracts on as_dict (models.py) and the loaders (encoders.py)."""
from __future__ import annotations

import z3

from pyvc.api import *  # noqa: F403
from pyvc.values import *  # noqa: F403
from pyvc import models
from pyvc.models import ufn

MD = "_griffe.models:"
EN = "_griffe.encoders:"

TRUSTED_BASE = [
    "the json codec round-trips str/int/None/list/dict and applies JSONEncoder.default bottom-up (as_dict of nested objects, set -> sorted list, Path -> str, "
    "str-valued enums -> their value); json_decoder is applied bottom-up as object_hook: both are mirrored by the contract's codec()/decode() which call the real "
    "as_dict and the real json_decoder on every nested value",
    "inspect.cleandoc / str.rstrip are uninterpreted (no idempotence assumed: the loader must not clean a dumped docstring again)",
    "objects are built by the real constructors with symbolic arguments; expressions are strings here (expression classes are covered by C03 and the bounded tier)",
]
ASSUMPTIONS = [
    "round trip of whole loaded trees (every expression class, resolved aliases, inspected / namespace / built-in modules, cli dump) is a bounded native tier",
]


def opt_int(P, tag):
    return SUnion([(z3.Bool(tag + "_none"), None), (z3.Not(z3.Bool(tag + "_none")), SInt(z3.Int(tag)))])


def opt_str(P, tag):
    return SUnion([(z3.Bool(tag + "_none"), None), (z3.Not(z3.Bool(tag + "_none")), SStr(z3.String(tag)))])


def ident_name(P, tag):
    z = z3.String(tag)
    P.assume(z3.And(z3.Length(z) > 0, z3.Not(z3.Contains(z, z3.StringVal(".")))))
    return SStr(z)


def new(P, cls, *a, **k):
    return P.instantiate(ClassRef(cls), list(a), k)


def mk_docstring(P, tag):
    g = z3.Bool(tag + "_none")
    if P.branch(g):
        return None
    v = SStr(z3.String(tag + "_value"))
    d = new(P, "Docstring", v, lineno=opt_int(P, tag + "_lineno"), endlineno=opt_int(P, tag + "_endlineno"))
    # no assumption about the cleaning done by Docstring.__init__: inspect.cleandoc is NOT idempotent (a first text line indented deeper than the
    # rest keeps its indentation once and loses it the second time), so a loader that cleans the dumped value again is refuted here
    cv = zstr(d.fields["value"])
    P.assume(z3.Length(cv) > 0)      # a falsy (empty) docstring is indistinguishable from no docstring in the dump
    return d


def codec(P, v, full):
    """What json.dumps(..., cls=JSONEncoder, full=full) followed by json.loads (without object_hook) makes of a value."""
    if isinstance(v, SUnion):
        if all(x is None or isinstance(x, (bool, int, str, SInt, SStr, SBool)) for _, x in v.alts):
            return v          # plain optional scalars pass through the codec unchanged: no need to split the path
        v = P.choose(v)
    if v is None or isinstance(v, (bool, int, str, SInt, SStr, SBool)):
        return v
    if isinstance(v, (EnumVal, SEnum)):
        return P.enum_value(v)
    if isinstance(v, dict):
        return {(k.v if isinstance(k, models._SymKey) else k): codec(P, x, full) for k, x in v.items()}
    if isinstance(v, (list, tuple)):
        return [codec(P, x, full) for x in v]
    if isinstance(v, models.SymSet):
        return [codec(P, x, full) for x in v.items]      # sorted(...) of a set: order is immaterial, the loader rebuilds a set
    if isinstance(v, (set, frozenset)):
        return sorted(v)
    if isinstance(v, SObj):
        cname = P.resolve_cls(v)
        if cname == "pathlib.Path":
            return SStr(z3.Function("PATH_STR", IntS, StrS)(v.ident))
        m = P.find_method(cname, "as_dict")
        if m is None:
            raise Unsupported(f"{cname} is not JSON serialisable (JSONEncoder.default would raise TypeError)")
        return codec(P, P.call_closure(m, [v], {"full": full}), full)
    if isinstance(v, Opaque):
        return v
    raise Unsupported(f"codec of {type(v).__name__}")


def decode(P, v):
    """json.loads(..., object_hook=json_decoder): the real json_decoder applied bottom-up to every dict."""
    if isinstance(v, list):
        return [decode(P, x) for x in v]
    if isinstance(v, dict):
        d = {k: decode(P, x) for k, x in v.items()}
        return call(P, EN + "json_decoder", d)
    return v


def same(P, a, b):
    """Structural equality of plain values as z3 Bool."""
    r = P.eq(a, b)
    return zbool(r) if not isinstance(r, bool) else z3.BoolVal(r)


def roundtrip(P, obj, full=False):
    d1 = codec(P, obj, full)
    kind, back = outcome(P, lambda: decode(P, d1))
    return d1, kind, back


def base_checks(P, obj, back, d1, full):
    for f in ("name", "lineno", "endlineno"):
        P.prove(f"field.{f}", same(P, P.getattr(obj, f), P.getattr(back, f)))
    od, bd = obj.fields.get("docstring"), back.fields.get("docstring")
    if od is None:
        P.prove("docstring.absent_stays_absent", bd is None)
    else:
        P.prove("docstring.present_stays_present", bd is not None)
        if bd is not None:
            for f in ("value", "lineno", "endlineno"):
                P.prove(f"docstring.{f}", same(P, od.fields[f], bd.fields[f]))
    lo, lb = obj.fields["labels"], back.fields["labels"]
    P.prove("labels.same_set", len(lo.items) == len(lb.items) and all(any(x is y or (isinstance(x, str) and x == y) for y in lb.items) for x in lo.items))
    d2 = codec(P, back, full)
    P.prove("serialises_to_the_identical_json.keys", sorted(map(str, d1)) == sorted(map(str, d2)), first=sorted(map(str, d1)), second=sorted(map(str, d2)))


def labelled(P, obj):
    if P.branch(z3.Bool("has_label")):
        models.call_method(P, obj.fields["labels"], "add", [SStr(z3.String("label"))], {})
    return obj


@contract("C08", "roundtrip.function", [MD + "Function.as_dict", MD + "Object.as_dict", MD + "Parameter.as_dict", MD + "Decorator.as_dict", MD + "Docstring.as_dict",
                                        EN + "json_decoder", EN + "_load_function", EN + "_load_parameter", EN + "_load_docstring", EN + "_load_decorators"],
          floor=12, replay="replay_roundtrip", shard_bits=4)
def c_function(P):
    PK = P.enum_members("ParameterKind")
    params = []
    import os
    n = 2 if os.environ.get("PYVC_TIER") == "thorough" and P.branch(z3.Bool("two_params")) else 1
    for i in range(n):
        params.append(new(P, "Parameter", SStr(z3.String(f"p{i}_name")), annotation=opt_str(P, f"p{i}_annotation"), kind=P.fresh_enum("ParameterKind", f"p{i}_kind"),
                          default=opt_str(P, f"p{i}_default")))
    decos = [new(P, "Decorator", SStr(z3.String("deco_value")), lineno=opt_int(P, "deco_lineno"), endlineno=opt_int(P, "deco_endlineno"))] if P.branch(z3.Bool("decorated")) else []
    fn = new(P, "Function", SStr(z3.String("name")), parameters=new(P, "Parameters", *params), returns=opt_str(P, "returns"), decorators=decos,
             lineno=opt_int(P, "lineno"), endlineno=opt_int(P, "endlineno"), docstring=mk_docstring(P, "doc"))
    labelled(P, fn)
    d1, kind, back = roundtrip(P, fn)
    P.prove("reload_never_fails", kind == "ok", exc=(P.resolve_cls(back) + str(back.fields.get("args")) if kind == "raise" else ""))
    if kind != "ok":
        return
    P.prove("reloads_as_a_function", isinstance(back, SObj) and back.cls == "Function")
    base_checks(P, fn, back, d1, False)
    P.prove("returns", same(P, fn.fields["returns"], back.fields["returns"]))
    bp = back.fields["parameters"].fields["_params"]
    P.prove("parameters.count", len(bp) == len(params))
    for a, b in zip(params, bp):
        for f in ("name", "annotation", "kind", "default"):
            P.prove(f"parameters.{f}", same(P, a.fields[f], b.fields[f]))
    bd = back.fields["decorators"]
    P.prove("decorators.count", len(bd) == len(decos))
    for a, b in zip(decos, bd):
        for f in ("value", "lineno", "endlineno"):
            P.prove(f"decorators.{f}", same(P, a.fields[f], b.fields[f]))
    P.cover("function")


@contract("C08", "roundtrip.attribute", [MD + "Attribute.as_dict", EN + "_load_attribute"], floor=8, replay="replay_roundtrip", shard_bits=2)
def c_attribute(P):
    a = new(P, "Attribute", SStr(z3.String("name")), value=opt_str(P, "value"), annotation=opt_str(P, "annotation"),
            lineno=opt_int(P, "lineno"), endlineno=opt_int(P, "endlineno"), docstring=mk_docstring(P, "doc"))
    labelled(P, a)
    d1, kind, back = roundtrip(P, a)
    P.prove("reload_never_fails", kind == "ok", exc=(P.resolve_cls(back) + str(back.fields.get("args")) if kind == "raise" else ""))
    if kind != "ok":
        return
    P.prove("reloads_as_an_attribute", isinstance(back, SObj) and back.cls == "Attribute")
    base_checks(P, a, back, d1, False)
    for f in ("value", "annotation"):
        P.prove(f"field.{f}", same(P, a.fields[f], back.fields[f]))
    P.cover("attribute")


@contract("C08", "roundtrip.alias", [MD + "Alias.as_dict", EN + "_load_alias"], floor=4, replay="replay_roundtrip")
def c_alias(P):
    a = new(P, "Alias", SStr(z3.String("name")), SStr(z3.String("target_path")), lineno=opt_int(P, "lineno"), endlineno=opt_int(P, "endlineno"))
    P.assume(z3.And(z3.Int("lineno") >= 1, z3.Int("endlineno") >= 1))      # ast line numbers start at 1
    if P.branch(z3.Bool("resolved")):
        # a resolved alias: whatever it points at (the end of a re-export chain has a path of its own), the dump keeps the target written in the source
        a.fields["_target"] = new(P, "Function", ident_name(P, "final_name"))
        a.fields["parent"] = new(P, "Module", ident_name(P, "module_name"))
        P.cover("alias.resolved")
    kind, d1 = outcome(P, lambda: codec(P, a, False))
    P.prove("serialising_never_fails", kind == "ok", exc=(P.resolve_cls(d1) + str(d1.fields.get("args")) if kind == "raise" else ""))
    if kind != "ok":
        return
    kind, back = outcome(P, lambda: decode(P, d1))
    P.prove("reload_never_fails", kind == "ok", exc=(P.resolve_cls(back) + str(back.fields.get("args")) if kind == "raise" else ""))
    if kind != "ok":
        return
    P.prove("reloads_as_an_alias", isinstance(back, SObj) and back.cls == "Alias")
    for f in ("name", "target_path", "alias_lineno", "alias_endlineno"):
        P.prove(f"field.{f}", same(P, a.fields[f], back.fields[f]))
    P.cover("alias")


@contract("C08", "roundtrip.class", [MD + "Class.as_dict", EN + "_load_class", EN + "_attach_parent_to_exprs"], floor=10, replay="replay_roundtrip", shard_bits=3)
def c_class(P):
    decos = [new(P, "Decorator", SStr(z3.String("deco_value")), lineno=opt_int(P, "deco_lineno"), endlineno=opt_int(P, "deco_endlineno"))] if P.branch(z3.Bool("decorated")) else []
    bases = [SStr(z3.String("base0"))] if P.branch(z3.Bool("has_base")) else []
    c = new(P, "Class", SStr(z3.String("name")), bases=bases, decorators=decos, lineno=opt_int(P, "lineno"), endlineno=opt_int(P, "endlineno"), docstring=mk_docstring(P, "doc"))
    labelled(P, c)
    if P.branch(z3.Bool("has_member")):
        m = new(P, "Attribute", ident_name(P, "member_name"), value=opt_str(P, "member_value"), lineno=opt_int(P, "member_lineno"))
        P.call(P.getattr(c, "set_member"), [m.fields["name"], m], {})
    d1, kind, back = roundtrip(P, c)
    P.prove("reload_never_fails", kind == "ok", exc=(P.resolve_cls(back) + str(back.fields.get("args")) if kind == "raise" else ""))
    if kind != "ok":
        return
    P.prove("reloads_as_a_class", isinstance(back, SObj) and back.cls == "Class")
    base_checks(P, c, back, d1, False)
    P.prove("bases", len(back.fields["bases"]) == len(bases) and all(zbool(same(P, x, y)) is not None for x, y in zip(bases, back.fields["bases"])))
    for x, y in zip(bases, back.fields["bases"]):
        P.prove("bases.items", same(P, x, y))
    P.prove("decorators.count", len(back.fields["decorators"]) == len(decos))
    om, bm = c.fields["members"], back.fields["members"]
    P.prove("members.count", len(om) == len(bm))
    for (k1, v1), (k2, v2) in zip(om.items(), bm.items()):
        k1 = k1.v if isinstance(k1, models._SymKey) else k1
        k2 = k2.v if isinstance(k2, models._SymKey) else k2
        P.prove("members.keyed_by_name", same(P, k1, k2))
        P.prove("members.parent_link_restored", P.identical(P.getattr(v2, "parent"), back))
        P.prove("members.kind", P.resolve_cls(v1) == P.resolve_cls(v2))
    P.cover("class")


@contract("C08", "roundtrip.module", [MD + "Module.as_dict", EN + "_load_module"], floor=8, replay="replay_roundtrip", shard_bits=3)
def c_module(P):
    fp_kind = z3.Int("filepath_kind")      # 0: a path, 1: None (built-in), 2: a list (namespace package)
    P.assume(z3.And(fp_kind >= 0, fp_kind <= 2))
    P.witness["filepath_kind"] = SInt(fp_kind)
    path = lambda t: SObj("pathlib.Path", {}, ident=z3.Int(t), frozen=True)  # noqa: E731
    fp = path("fp0") if P.branch(fp_kind == 0) else (None if P.branch(fp_kind == 1) else [path("fp0"), path("fp1")])
    P.opaque_hooks["new:pathlib.Path"] = lambda P_, a, k: SObj("pathlib.Path", {"from_str": a[0]}, ident=z3.Function("PATH_OF_STR", StrS, IntS)(zstr(a[0])), frozen=True) if isinstance(a[0], (str, SStr)) else (_ for _ in ()).throw(PyExc(P_.mk_exc("TypeError", "expected str, bytes or os.PathLike object")))
    P.attr_hooks[("pathlib.Path", "__str__")] = lambda P_, o: SStr(z3.Function("PATH_STR", IntS, StrS)(o.ident))
    m = new(P, "Module", SStr(z3.String("name")), filepath=fp, docstring=mk_docstring(P, "doc"))
    labelled(P, m)
    if P.branch(z3.Bool("has_member")):
        f = new(P, "Function", ident_name(P, "member_name"), lineno=opt_int(P, "member_lineno"))
        P.call(P.getattr(m, "set_member"), [f.fields["name"], f], {})
    d1, kind, back = roundtrip(P, m)
    P.prove("reload_never_fails", kind == "ok", exc=(P.resolve_cls(back) + str(back.fields.get("args")) if kind == "raise" else ""))
    if kind != "ok":
        return
    P.prove("reloads_as_a_module", isinstance(back, SObj) and back.cls == "Module")
    base_checks(P, m, back, d1, False)
    bf = back.fields["_filepath"]
    if fp is None:
        P.prove("builtin_module_keeps_no_filepath", bf is None)
    elif isinstance(fp, list):
        P.prove("namespace_package_keeps_its_paths", isinstance(bf, list) and len(bf) == 2)
    else:
        P.prove("filepath_restored", isinstance(bf, SObj) and zstr(bf.fields["from_str"]).sexpr() == z3.Function("PATH_STR", IntS, StrS)(fp.ident).sexpr())
    P.prove("members.count", len(m.fields["members"]) == len(back.fields["members"]))
    P.cover("module")


@contract("C08", "reload.names_get_their_scope_back", [EN + "_attach_parent_to_exprs", EN + "_attach_parent_to_expr"], floor=6, replay="replay_roundtrip")
def c_reattach(P):
    """`names in reloaded expressions resolve as before`: a name resolves through its `parent` (C04), which is not part of the JSON, so the loader has to give
    every name of every expression it stores on an object the scope the object is loaded into.  One object of each kind, a bare name in each of its
    expression-valued fields (class: decorators, bases; function: decorators, parameter annotations and defaults, return annotation; attribute: value and
    annotation); strings and None are left alone and nothing raises."""
    scope = SObj("Module", {}, ident=z3.Int("scope_id"), frozen=True)
    names = {}

    def name(tag):
        # a bare name as the expression loader builds it: no scope yet
        names[tag] = SObj("ExprName", {"name": SStr(z3.String(tag + "_name")), "parent": None}, ident=z3.Int(tag + "_id"))
        plain = z3.Int(tag + "_form")          # 0: a name, 1: a plain string (unparsed), 2: nothing
        P.assume(z3.And(plain >= 0, plain <= 2))
        if P.branch(plain == 0):
            return names[tag]
        names.pop(tag)
        return SStr(z3.String(tag + "_text")) if P.branch(plain == 1) else None
    kind = z3.Int("object_kind")
    P.assume(z3.And(kind >= 0, kind <= 2))
    P.witness["object_kind"] = SInt(kind)
    deco = lambda tag: SObj("Decorator", {"value": name(tag), "lineno": None, "endlineno": None}, ident=z3.Int(tag + "_deco_id"))  # noqa: E731
    if P.branch(kind == 0):
        obj = SObj("Class", {"docstring": None, "decorators": [deco("class_decorator")], "bases": [name("base0"), name("base1")]}, ident=z3.Int("obj_id"))
    elif P.branch(kind == 1):
        par = SObj("Parameter", {"name": SStr(z3.String("p")), "annotation": name("parameter_annotation"), "default": name("parameter_default")}, ident=z3.Int("par_id"))
        obj = SObj("Function", {"docstring": None, "decorators": [deco("function_decorator")], "parameters": [par], "returns": name("returns")}, ident=z3.Int("obj_id"))
    else:
        obj = SObj("Attribute", {"docstring": None, "value": name("attribute_value"), "annotation": name("attribute_annotation")}, ident=z3.Int("obj_id"))
    k, res = outcome(P, lambda: call(P, EN + "_attach_parent_to_exprs", obj, scope))
    P.prove("never_raises", k == "ok", exc=(P.resolve_cls(res) if k == "raise" else ""))
    if k != "ok":
        return
    for tag, n in names.items():
        P.prove(f"scope_restored.{tag}", n.fields["parent"] is scope, field=tag)
    P.cover("reattach")


def bounded_checks(tier, seed):
    import json, os, subprocess, time
    from pyvc.run import VERIF, VENV_PY, REPO_SRC
    t0 = time.time()
    budget = 90 if tier == "quick" else 600
    r = subprocess.run([VENV_PY, "-m", "replay.C08", str(budget), "roundtrip"], capture_output=True, text=True, cwd=str(VERIF), env=dict(os.environ, PYTHONPATH=str(REPO_SRC)), timeout=budget + 300)
    if r.returncode != 0:
        raise RuntimeError("bounded C08 sweep crashed: " + r.stderr[-1500:])
    d = json.loads(r.stdout.strip().splitlines()[-1])
    return [{"check": "roundtrip_modules", "tool": "generated modules (every model field, 39 expression shapes in annotations / defaults / values / decorators / bases) loaded statically, "
             "with resolved aliases, and by inspection; dumped minimal and full, reloaded, compared field by field and re-dumped; plus namespace package, parsed docstrings, built-in module",
             "bound": "39 modules (every expression class, multi-line decorators, indented docstrings, annotated attributes, derived classes) x 3 loading modes x 2 dump modes + special trees (namespace, built-in, parsed docstrings, directly built objects, a package with re-export chains with and without resolved aliases) + the command-line dump (one file / per package, minimal / full)", "cases": d["cases"], "failing": len(d["bad"]), "wall_s": round(time.time() - t0, 1),
             "class_match": True, "violations": d["bad"]}]
