"""C06 — alias resolution is total, all-or-nothing and cycle-safe: contracts on models.Alias and the loader recursions."""
from __future__ import annotations

import z3

from pyvc.api import *  # noqa: F403
from pyvc.values import *  # noqa: F403
from pyvc import models
from specs.heap import Heap, OBJ_KINDS, ALL_KINDS

MD = "_griffe.models:"
LD = "_griffe.loader:GriffeLoader."

# these native replays search on their own (guided by the obligation / expected outcome), not from the abstract witness: one run per obligation
REPLAY_KEYED_BY_EXPECTS = {"replay_alias_graphs", "replay_resolve_target"}

TRUSTED_BASE = [
    "finite heap, no RecursionError: termination of the mutual recursion resolve_target/_resolve_target follows from the proved variant "
    "(the caller is marked passed-through before it recurses, and a passed-through alias raises CyclicAliasError without recursing)",
    "final_target termination: each iteration inserts a fresh key which is the path of the alias being visited (proved); a finite tree has finitely many alias paths (pigeonhole, paper lemma)",
    "ModulesCollection.get_member raises only KeyError or returns a tree object (proved in C16); GriffeLoader.load raises ImportError/LoadingError or returns",
    "the alias has a parent chain ending in a module attached to a collection (call-site precondition of resolve_target)",
]
ASSUMPTIONS = [
    "resolve_module_aliases: immediately after a successful member.resolve_target() the alias chain is resolved and acyclic, so the "
    "member.final_target evaluated for the debug message returns; this needs the global all-or-nothing invariant, which wildcard expansion does not "
    "maintain (known finding C06-G1) -- decided only by the bounded import-graph search",
    "whole-collection fixpoint of resolve_aliases over arbitrary import graphs is decided bounded (generated graphs, native), never counted as proved",
]


def setup_alias(P, H, passed=None):
    a = H.obj("a", ["Alias"])
    coll = H.collection("coll")
    P.attr_hooks[("Alias", "modules_collection")] = lambda P_, o: coll
    par = H.obj("a_parent", ["Module", "Class"])
    a.fields["_parent"] = par
    return a, coll


def resolve_hook(P, H, log, protected):
    """Contract of Alias.resolve_target assumed at the recursive call site."""
    def h(P_, args, kw):
        (r,) = args
        log.append(("resolve_target", r, {id(o): o.fields.get("_passed_through") for o in protected}))
        pt = P_.getattr(r, "_passed_through")
        if P_.branch(zbool(pt) if not isinstance(pt, bool) else pt):
            raise PyExc(SObj("CyclicAliasError", {"args": (["x"],), "chain": [P_.fresh_str("cyc")]}))
        oc = z3.Int(P_._fresh_name("rec_outcome"))
        P_.assume(z3.And(oc >= 0, oc <= 2))
        if P_.branch(oc == 0):
            t = H.obj(getattr(r, "tag", "r") + ".resolved_to", ALL_KINDS)
            r.fields["_target"] = t
            return None
        if P_.branch(oc == 1):
            raise PyExc(SObj("AliasResolutionError", {"args": (r,), "alias": r}))
        raise PyExc(SObj("CyclicAliasError", {"args": (["x"],), "chain": [P_.fresh_str("cyc")]}))
    return h


@contract("C06", "resolve_target", [MD + "Alias.resolve_target", MD + "Alias._resolve_target"], floor=7, replay="replay_resolve_target")
def c_resolve_target(P):
    H = Heap(P)
    a, coll = setup_alias(P, H)
    r = H.obj("r", ALL_KINDS)
    log = []
    # get_member by contract: KeyError, or the alias itself, or another object
    oc = z3.Int("get_member_outcome")
    P.assume(z3.And(oc >= 0, oc <= 2))
    P.witness["get_member_outcome"] = SInt(oc)

    def get_member(P_, args, kw):
        log.append(("get_member", args[1], a.fields.get("_passed_through")))
        if P_.branch(oc == 0):
            raise PyExc(P_.mk_exc("KeyError", "x"))
        if P_.branch(oc == 1):
            return a
        return r
    P.opaque_hooks["_griffe.mixins:GetMembersMixin.get_member"] = get_member
    P.opaque_hooks[MD + "Alias.resolve_target"] = resolve_hook(P, H, log, [a])
    old_target = P.getattr(a, "_target")
    old_pt = P.getattr(a, "_passed_through")
    P.witness["a_passed_through"] = old_pt
    r_old_target = None
    kind, res = outcome(P, lambda: call(P, MD + "Alias.resolve_target", a))
    now_pt = a.fields["_passed_through"]
    P.prove("flag_restored_on_every_exit", zbool(now_pt) == zbool(old_pt) if not isinstance(now_pt, bool) else z3.BoolVal(now_pt) == zbool(old_pt), outcome=kind)
    for e in [e for e in log if e[0] == "get_member"]:
        # the lookup of a dotted target path walks through members that may themselves be aliases and re-enter resolution
        P.prove("caller_is_marked_while_its_target_is_looked_up", e[2] is True, note="a lookup can re-enter alias resolution")
    recs = [e for e in log if e[0] == "resolve_target"]
    for e in recs:
        P.prove("caller_is_marked_before_recursing", e[2][id(a)] is True, note="variant of the mutual recursion")
        P.prove("never_recurses_on_itself", e[1] is not a)
    if kind == "raise":
        cname = P.resolve_cls(res)
        P.prove("raises_only_alias_errors", cname in ("AliasResolutionError", "CyclicAliasError"), exc=cname)
        P.prove("target_untouched_on_failure", a.fields["_target"] is old_target, exc=cname)
        P.cover("resolve_target.raise")
        return
    P.prove("not_passed_through_when_succeeding", z3.Not(zbool(old_pt)))
    t = a.fields["_target"]
    P.prove("target_set_on_success", t is r)
    if t is r:
        # all-or-nothing: the next link is resolved too when it is an alias
        if isinstance(r.cls, str) and r.cls == "Alias" or (not isinstance(r.cls, str)):
            is_alias = models._isinst1(P, r, "Alias")
            rt = P.getattr(r, "_target")
            resolved_next = z3.Not(zbool(P.identical(rt, None))) if not (rt is None) else z3.BoolVal(False)
            P.prove("chain_not_left_partially_resolved", z3.Implies(zbool(is_alias), resolved_next))
        als = P.getattr(r, "aliases")
        key = SStr(H.path_of(a))
        P.prove("registered_in_target_aliases", models.map_has(P, als, key))
    P.cover("resolve_target.ok")


@contract("C06", "target_getter", [MD + "Alias.target", MD + "Alias.resolved"], floor=2, replay="replay_alias_graphs")
def c_target_getter(P):
    H = Heap(P)
    a, coll = setup_alias(P, H)
    log = []
    P.opaque_hooks[MD + "Alias.resolve_target"] = resolve_hook(P, H, log, [a])
    a.fields["_passed_through"] = False
    old = P.getattr(a, "_target")
    was_resolved = z3.Not(zbool(P.identical(old, None)))
    kind, res = outcome(P, lambda: P.getattr(a, "target"))
    if kind == "raise":
        P.prove("raises_only_alias_errors", P.resolve_cls(res) in ("AliasResolutionError", "CyclicAliasError"))
        P.prove("only_unresolved_aliases_raise", z3.Not(was_resolved))
    else:
        P.prove("returns_a_target", z3.Not(zbool(P.identical(res, None))))
        P.prove("resolves_at_most_once", len(log) <= 1)
        P.prove("resolved_alias_is_not_resolved_again", z3.Implies(was_resolved, len(log) == 0))
    P.cover("target." + kind)


@contract("C06", "final_target", [MD + "Alias.final_target"], floor=4, replay="replay_alias_graphs")
def c_final_target(P):
    H = Heap(P)
    a = H.obj("a", ["Alias"])
    counter = [0]

    def target_prop(P_, o):
        # Alias.target by contract (proved above): the next link, or ARE / CAE
        oc = z3.Int(P_._fresh_name("target_outcome"))
        P_.assume(z3.And(oc >= 0, oc <= 2))
        if P_.branch(oc == 0):
            counter[0] += 1
            return H.obj(f"link{counter[0]}", ALL_KINDS)
        if P_.branch(oc == 1):
            raise PyExc(SObj("AliasResolutionError", {"args": (o,), "alias": o}))
        raise PyExc(SObj("CyclicAliasError", {"args": (["x"],), "chain": []}))
    P.attr_hooks[("Alias", "target")] = target_prop
    del P.attr_hooks[("Alias", "final_target")]
    q = MD + "Alias.final_target"

    def hint_target(P_, n):
        return H.obj("cur", ALL_KINDS)

    def hint_seen(P_, n):
        has = z3.Function("seen_has", StrS, BoolS)
        nk = P_.fresh_int("seen_size")
        P_.assume(nk.z >= 0)
        kf = z3.Function("seen_key", IntS, StrS)
        return SMap(lambda k: has(zstr(k)), lambda k: None, tag="paths_seen", keys_seq=SSeq(nk, lambda i: SStr(kf(zint(i))), tag="seen_keys"))

    def by_role(view_or_dict, pred):
        d = view_or_dict if isinstance(view_or_dict, dict) else view_or_dict.frame.locals
        return next((v for k, v in d.items() if not k.startswith("__") and k != "self" and pred(v)), None)

    def default_hint(P_, nm, cur):
        # roles, not names: the alias being followed, and the set of paths already seen
        if isinstance(cur, SObj):
            return hint_target(P_, nm)
        if isinstance(cur, (dict, SMap)):
            return hint_seen(P_, nm)
        return None

    def post_body(P_, before, after):
        cur = by_role(before, lambda v: isinstance(v, SObj))
        seen = by_role(after, lambda v: isinstance(v, SMap))
        P_.prove("iteration_inserts_exactly_one_key", len(seen.writes) == 1)
        if len(seen.writes) == 1:
            k, v = seen.writes[0]
            P_.prove("inserted_key_is_path_of_visited_alias", zstr(k) == H.path_of(cur))
            P_.prove("inserted_key_was_absent", z3.Not(zbool(seen.has0(k))))
        P_.prove("visited_object_was_an_alias", models._isinst1(P_, cur, "Alias"))
    P.loop_specs[(q, 0)] = dict(mode="inv", name="chain", hints={}, default_hint=default_hint, post_body=post_body)
    kind, res = outcome(P, lambda: P.call_closure(fn_closure(P, q), [a], {}))
    if kind == "raise":
        P.prove("raises_only_alias_errors", P.resolve_cls(res) in ("AliasResolutionError", "CyclicAliasError"), exc=P.resolve_cls(res))
    else:
        P.prove("returns_a_non_alias", z3.Not(zbool(models._isinst1(P, res, "Alias"))))
    P.cover("final_target." + kind)


@contract("C06", "alias.kind_never_raises", [MD + "Alias.kind", MD + "Alias.has_docstring", MD + "Alias.has_docstrings"], floor=3, replay="replay_alias_graphs")
def c_kind(P):
    H = Heap(P)
    a = H.obj("a", ["Alias"])
    for attr in ("kind", "has_docstring", "has_docstrings"):
        P.attr_hooks[("Object", "has_docstring")] = lambda P_, o: SBool(z3.Bool("hd"))
        P.attr_hooks[("Object", "has_docstrings")] = lambda P_, o: SBool(z3.Bool("hds"))
        kind, res = outcome(P, lambda: P.getattr(a, attr))
        P.prove(f"{attr}_never_raises", kind == "ok", exc=str(res))
    P.cover("kind")


# --------------------------------------------------------------------------- loader recursions (one generic member iteration)
def mk_loader(P, H):
    coll = H.collection("coll")
    ld = SObj("GriffeLoader", {"modules_collection": coll, "extensions": Opaque("lenient:extensions")}, ident=z3.Int("loader_id"))
    return ld, coll


@contract("C06", "resolve_module_aliases", [LD + "resolve_module_aliases"], floor=4, replay="replay_alias_graphs", shard_bits=2)
def c_resolve_module_aliases(P):
    H = Heap(P)
    ld, coll = mk_loader(P, H)
    obj = H.obj("obj", ["Module", "Class"])
    log = []
    i0 = z3.Int("member_index")
    q = LD + "resolve_module_aliases"
    P.loop_specs[(q, 0)] = dict(mode="generic", index=i0, may_write=("_target",))
    base_resolve = resolve_hook(P, H, log, [])
    just_resolved = []

    def resolve_and_mark(P_, args, kw):
        r = base_resolve(P_, args, kw)
        just_resolved.append(args[0])
        return r
    P.opaque_hooks[MD + "Alias.resolve_target"] = resolve_and_mark
    heap_final = P.attr_hooks[("Alias", "final_target")]

    def final_target(P_, al):
        # ASSUMPTION (listed): right after a successful resolve_target the chain is resolved and acyclic, so final_target returns
        if any(al is x for x in just_resolved):
            return H.obj(getattr(al, "tag", "al") + ".final_ok", OBJ_KINDS)
        return heap_final(P_, al)
    P.attr_hooks[("Alias", "final_target")] = final_target
    P.attr_hooks[("Object", "package")] = lambda P_, o: SObj("Module", {"path": P_.fresh_str("pkg_path"), "name": P_.fresh_str("pkg_name")}, frozen=True)
    P.attr_hooks[("Alias", "is_exported")] = lambda P_, o: SBool(z3.Bool("member_is_exported"))
    P.attr_hooks[("Object", "kind")] = lambda P_, o: P_.class_getattr(ClassRef(P_.resolve_cls(o)), "kind")

    def load(P_, a, k):
        log.append(("load",))
        may_raise(P_, "load", ["ImportError", "LoadingError", "ModuleNotFoundError"])
        return Opaque("lenient:module")
    P.opaque_hooks[LD + "load"] = load
    P.opaque_hooks["_griffe.collections:ModulesCollection.__contains__"] = lambda P_, a, k: SBool(z3.Bool("package_in_collection"))
    rec = []

    def recursion(P_, a, k):
        rec.append((a, k))
        return (set(), set())
    P.opaque_hooks[q] = recursion
    seen0 = opt(P, "seen", lambda: models.SymSet([]))
    implicit = SBool(z3.Bool("implicit"))
    external = SUnion([(z3.Bool("external_none"), None), (z3.Not(z3.Bool("external_none")), SBool(z3.Bool("external")))])
    kind, res = outcome(P, lambda: call(P, q, ld, obj, implicit=implicit, external=external, seen=seen0, load_failures=None))
    P.prove("no_exception_escapes", kind == "ok", exc=(P.resolve_cls(res) if kind == "raise" else ""))
    if kind != "ok":
        return
    gen = P.ghost.get("generic_iteration")
    for a, k in rec:
        seen_arg = k.get("seen")
        P.prove("recursion_passes_the_shared_seen_set", isinstance(seen_arg, models.SymSet))
        if isinstance(seen_arg, models.SymSet):
            # the object's own path was recorded before recursing, and the member's path was not yet seen
            P.prove("own_path_recorded_before_recursing", any(zstr(x).sexpr() == H.path_of(obj).sexpr() for x in seen_arg.items))
    if gen is not None:
        m = gen["element"]
        resolved_set, unresolved_set = res
        cname = P.resolve_cls(m)
        if cname == "Alias":
            attempts = [e for e in log if e[0] == "resolve_target" and e[1] is m]
            P.prove("resolution_attempted_at_most_once", len(attempts) <= 1)
    P.cover("resolve_module_aliases")


# --------------------------------------------------------------------------- bounded tier: generated import graphs on the real loader
def bounded_checks(tier, seed):
    import json, os, subprocess, time
    from pyvc.run import VERIF, VENV_PY, REPO_SRC
    t0 = time.time()
    n_random = 400 if tier == "quick" else 6000
    r = subprocess.run([VENV_PY, "-m", "replay.C06", "3", str(n_random), str(seed), "90" if tier == "quick" else "1500"], capture_output=True, text=True, cwd=str(VERIF),
                       env=dict(os.environ, PYTHONPATH=str(REPO_SRC)), timeout=600 if tier == "quick" else 3000)
    if r.returncode != 0:
        raise RuntimeError("bounded C06 sweep crashed: " + r.stderr[-1500:])
    d = json.loads(r.stdout.strip().splitlines()[-1])
    t1 = time.time()
    n_pk = 150 if tier == "quick" else 3000
    r2 = subprocess.run([VENV_PY, "-m", "replay.C06", "packages", str(n_pk), str(seed), "60" if tier == "quick" else "900"], capture_output=True, text=True, cwd=str(VERIF),
                        env=dict(os.environ, PYTHONPATH=str(REPO_SRC)), timeout=600 if tier == "quick" else 3000)
    if r2.returncode != 0:
        raise RuntimeError("bounded C06 package sweep crashed: " + r2.stderr[-1500:])
    d2 = json.loads(r2.stdout.strip().splitlines()[-1])
    pk = {"check": "package_sets", "tool": "directed + seeded random sets of top-level packages in one collection, real loader; loaded in several orders, the rest left to "
          "external alias resolution; resolve_aliases run twice, statement evaluated natively",
          "bound": f"4 single-module packages, 9 directed cross-package chains/cycles (4 of them through wildcard imports) x 5 load orders + {n_pk} random sets (1-3 statements per package over a 25-statement "
                   "alphabet without wildcards) x 1 load order; external in (True, False, None) x implicit in (True, False)",
          "cases": d2["cases"], "failing": len(d2["bad"]), "wall_s": round(time.time() - t1, 1), "class_match": True, "violations": d2["bad"]}
    return [pk, {"check": "import_graphs", "tool": "exhaustive + seeded random generation of import graphs, real loader, statement evaluated natively",
             "bound": f"3 modules; all 1-statement-per-module graphs over an 24-statement alphabet + {n_random} random graphs with 1-3 statements per module",
             "cases": d["graphs"], "failing": len(d["bad"]), "wall_s": round(t1 - t0, 1), "class_match": True, "violations": d["bad"]}]
