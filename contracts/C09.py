"""C09 — full JSON dumps conform to docs/schema.json: the published schema evaluated on the symbolic shapes produced by the real as_dict(full=True)."""
from __future__ import annotations

import json

import z3

from pyvc.api import *  # noqa: F403
from pyvc.values import *  # noqa: F403
from pyvc import models
from pyvc.source import REPO_SRC
from contracts.C08 import new, opt_int, opt_str, mk_docstring, codec, labelled, ident_name

MD = "_griffe.models:"

TRUSTED_BASE = [
    "docs/schema.json is re-read on every run and interpreted (type / enum / const / required / properties / additionalProperties / oneOf / allOf / if-then / items / $ref) "
    "over the codec image of the real as_dict(full=True); jsonschema Draft-7 semantics of these keywords; the same dumps are validated with jsonschema in the bounded tier",
    "objects are built by the real constructors under their type invariants (lineno: int|None, filepath: a path, str-or-None expressions); path-valued fields of a full dump "
    "(path, filepath, relative_filepath, relative_package_filepath) are taken by contract: strings",
]
ASSUMPTIONS = ["every expression class and dynamically loaded trees are covered by the bounded tier (jsonschema on generated modules), never counted as proved"]

SCHEMA = json.loads((REPO_SRC.parent / "docs" / "schema.json").read_text())


def resolve_ref(ref):
    node = SCHEMA
    for part in ref.lstrip("#/").split("/"):
        if part:
            node = node[part]
    return node


def jtype(P, v):
    """Set of JSON types a (possibly symbolic) codec value may have, as list of (guard, typename)."""
    if isinstance(v, SUnion):
        out = []
        for g, x in v.alts:
            out += [(z3.And(g, gg), t) for gg, t in jtype(P, x)]
        return out
    T = z3.BoolVal(True)
    if v is None:
        return [(T, "null")]
    if isinstance(v, (bool, SBool)):
        return [(T, "boolean")]
    if isinstance(v, (int, SInt)):
        return [(T, "integer")]
    if isinstance(v, (str, SStr)):
        return [(T, "string")]
    if isinstance(v, (list, tuple)):
        return [(T, "array")]
    if isinstance(v, dict):
        return [(T, "object")]
    raise Unsupported(f"json type of {type(v).__name__}")


def valid(P, v, schema, depth=0):
    """z3 Bool: the codec value v satisfies `schema`."""
    if schema is True:
        return z3.BoolVal(True)
    if schema is False:
        return z3.BoolVal(False)
    if "$ref" in schema:
        if schema["$ref"] == "#":
            schema = SCHEMA
        else:
            schema = resolve_ref(schema["$ref"])
    conds = []
    if "type" in schema:
        ts = schema["type"] if isinstance(schema["type"], list) else [schema["type"]]
        ts = set(ts) | ({"integer"} if "number" in ts else set())
        conds.append(z3.Or(*[g for g, t in jtype(P, v) if t in ts] or [z3.BoolVal(False)]))
    if "enum" in schema or "const" in schema:
        allowed = schema["enum"] if "enum" in schema else [schema["const"]]
        if isinstance(v, (str, SStr)):
            conds.append(z3.Or(*[zstr(v) == z3.StringVal(a) for a in allowed if isinstance(a, str)] or [z3.BoolVal(False)]))
        else:
            conds.append(z3.BoolVal(v in allowed))
    if isinstance(v, dict):
        for r in schema.get("required", []):
            conds.append(z3.BoolVal(r in v))
        props = schema.get("properties", {})
        for k, sub in props.items():
            if k in v:
                conds.append(valid(P, v[k], sub, depth + 1))
        if schema.get("additionalProperties") is False:
            extra = [k for k in v if k not in props]
            conds.append(z3.BoolVal(not extra))
        elif isinstance(schema.get("additionalProperties"), dict):
            for k, x in v.items():
                if k not in props:
                    conds.append(valid(P, x, schema["additionalProperties"], depth + 1))
    if isinstance(v, (list, tuple)) and "items" in schema:
        for x in v:
            conds.append(valid(P, x, schema["items"], depth + 1))
    for sub in schema.get("allOf", []):
        conds.append(valid(P, v, sub, depth + 1))
    if "if" in schema:
        c = valid(P, v, schema["if"], depth + 1)
        if "then" in schema:
            conds.append(z3.Implies(c, valid(P, v, schema["then"], depth + 1)))
        if "else" in schema:
            conds.append(z3.Implies(z3.Not(c), valid(P, v, schema["else"], depth + 1)))
    if "oneOf" in schema:
        alts = [valid(P, v, sub, depth + 1) for sub in schema["oneOf"]]
        conds.append(z3.PbEq([(a, 1) for a in alts], 1))
    if "anyOf" in schema:
        conds.append(z3.Or(*[valid(P, v, sub, depth + 1) for sub in schema["anyOf"]]))
    return z3.And(*conds) if conds else z3.BoolVal(True)


def install_paths(P):
    for attr in ("path", "filepath", "relative_filepath", "relative_package_filepath", "canonical_path"):
        for c in ("Object", "Alias", "Module"):
            P.attr_hooks[(c, attr)] = (lambda a: lambda P_, o: SStr(z3.Function("PATHLIKE_" + a, IntS, StrS)(o.ident)))(attr)


def check_valid(P, obj, label):
    # decorators only come from source code: the visitor always gives them line numbers (type invariant of Decorator in loaded trees)
    P.assume(z3.And(z3.Not(z3.Bool("deco_lineno_none")), z3.Not(z3.Bool("deco_endlineno_none"))))
    install_paths(P)
    P.attr_hooks[("pathlib.Path", "__str__")] = lambda P_, o: SStr(z3.Function("PATH_STR", IntS, StrS)(o.ident))
    # Docstring.parsed (full dumps): one text section; every section kind and style is covered by the bounded tier
    P.attr_hooks[("Docstring", "parsed")] = lambda P_, o: [new(P_, "DocstringSectionText", SStr(z3.String("section_text")))]
    kind, d = outcome(P, lambda: codec(P, obj, True))
    P.prove(f"{label}.full_dump_never_fails", kind == "ok", exc=(P.resolve_cls(d) if kind == "raise" else ""))
    if kind != "ok":
        return
    P.prove(f"{label}.validates_against_published_schema", valid(P, d, SCHEMA), keys=sorted(map(str, d)))
    P.cover(label)


@contract("C09", "schema.function", [MD + "Function.as_dict", MD + "Object.as_dict", MD + "Parameter.as_dict", MD + "Decorator.as_dict", MD + "Docstring.as_dict"],
          floor=2, replay="replay_schema", shard_bits=3)
def c_function(P):
    params = [new(P, "Parameter", SStr(z3.String("p0_name")), annotation=opt_str(P, "p0_annotation"), kind=P.fresh_enum("ParameterKind", "p0_kind"), default=opt_str(P, "p0_default"))]
    decos = [new(P, "Decorator", SStr(z3.String("deco_value")), lineno=opt_int(P, "deco_lineno"), endlineno=opt_int(P, "deco_endlineno"))] if P.branch(z3.Bool("decorated")) else []
    fn = new(P, "Function", SStr(z3.String("name")), parameters=new(P, "Parameters", *params), returns=opt_str(P, "returns"), decorators=decos,
             lineno=opt_int(P, "lineno"), endlineno=opt_int(P, "endlineno"), docstring=mk_docstring(P, "doc"))
    fn.fields["parent"] = None
    labelled(P, fn)
    check_valid(P, fn, "function")


@contract("C09", "schema.attribute", [MD + "Attribute.as_dict"], floor=2, replay="replay_schema", shard_bits=2)
def c_attribute(P):
    a = new(P, "Attribute", SStr(z3.String("name")), value=opt_str(P, "value"), annotation=opt_str(P, "annotation"),
            lineno=opt_int(P, "lineno"), endlineno=opt_int(P, "endlineno"), docstring=mk_docstring(P, "doc"))
    labelled(P, a)
    check_valid(P, a, "attribute")


@contract("C09", "schema.alias", [MD + "Alias.as_dict"], floor=2, replay="replay_schema")
def c_alias(P):
    a = new(P, "Alias", SStr(z3.String("name")), SStr(z3.String("target_path")), lineno=opt_int(P, "lineno"), endlineno=opt_int(P, "endlineno"))
    check_valid(P, a, "alias")


@contract("C09", "schema.class", [MD + "Class.as_dict"], floor=2, replay="replay_schema", shard_bits=3)
def c_class(P):
    decos = [new(P, "Decorator", SStr(z3.String("deco_value")), lineno=opt_int(P, "deco_lineno"), endlineno=opt_int(P, "deco_endlineno"))] if P.branch(z3.Bool("decorated")) else []
    bases = [SStr(z3.String("base0"))] if P.branch(z3.Bool("has_base")) else []
    c = new(P, "Class", SStr(z3.String("name")), bases=bases, decorators=decos, lineno=opt_int(P, "lineno"), endlineno=opt_int(P, "endlineno"), docstring=mk_docstring(P, "doc"))
    labelled(P, c)
    if P.branch(z3.Bool("has_member")):
        m = new(P, "Attribute", ident_name(P, "member_name"), value=opt_str(P, "member_value"), lineno=opt_int(P, "member_lineno"))
        P.call(P.getattr(c, "set_member"), [m.fields["name"], m], {})
    if P.branch(z3.Bool("has_alias_member")):
        al = new(P, "Alias", ident_name(P, "alias_name"), SStr(z3.String("alias_target")), lineno=opt_int(P, "alias_lineno"))
        P.call(P.getattr(c, "set_member"), [al.fields["name"], al], {})
    check_valid(P, c, "class")


@contract("C09", "schema.module", [MD + "Module.as_dict"], floor=2, replay="replay_schema", shard_bits=2)
def c_module(P):
    m = new(P, "Module", SStr(z3.String("name")), filepath=SObj("pathlib.Path", {}, ident=z3.Int("fp0"), frozen=True), docstring=mk_docstring(P, "doc"))
    labelled(P, m)
    if P.branch(z3.Bool("has_member")):
        f = new(P, "Function", ident_name(P, "member_name"), lineno=opt_int(P, "member_lineno"))
        P.call(P.getattr(m, "set_member"), [f.fields["name"], f], {})
    check_valid(P, m, "module")


def bounded_checks(tier, seed):
    import os, subprocess, time
    from pyvc.run import VERIF, VENV_PY
    t0 = time.time()
    budget = 90 if tier == "quick" else 600
    r = subprocess.run([VENV_PY, "-m", "replay.C08", str(budget), "schema"], capture_output=True, text=True, cwd=str(VERIF), env=dict(os.environ, PYTHONPATH=str(REPO_SRC)), timeout=budget + 300)
    if r.returncode != 0:
        raise RuntimeError("bounded C09 sweep crashed: " + r.stderr[-1500:])
    d = json.loads(r.stdout.strip().splitlines()[-1])
    return [{"check": "schema_modules", "tool": "jsonschema validation of the full dump of generated modules (39 expression shapes, every model field), loaded statically, with resolved "
             "aliases and by inspection; plus namespace package, parsed docstrings of every section kind in three styles, built-in module",
             "bound": "39 modules x 3 loading modes + 6 special trees", "cases": d["cases"], "failing": len(d["bad"]), "wall_s": round(time.time() - t0, 1), "class_match": True, "violations": d["bad"]}]
