"""C10 — no call-breaking signature change goes unreported: contracts on diff._function_incompatibilities."""
from __future__ import annotations

import z3

from pyvc.api import *  # noqa: F403
from pyvc.values import *  # noqa: F403
from pyvc import loops, models

FN = "_griffe.diff:_function_incompatibilities"
PK = "ParameterKind"
PO, POK, VP, KWO, VK = range(5)

TRUSTED_BASE = [
    "signature well-formedness of both sides (CPython compiles them): unique, non-empty names not starting with '*'; each parameter has a kind",
    "parameter defaults are str|None (Expr defaults compare by their own __eq__; not modelled)",
    "bind_ok (specs/cpython_bind.py) = inspect.Signature.bind, cross-validated exhaustively at the stated bound in the bounded tier",
]
ASSUMPTIONS = [
    "clause (a) 'every call that stops binding is reported' is decided bounded (<= 3 parameters per side, all call shapes) -- never counted as proved",
]


def mk_function(P, tag):
    namef = z3.Function(tag + "_name", IntS, StrS)
    kindf = z3.Function(tag + "_kind", IntS, IntS)
    dnone = z3.Function(tag + "_default_none", IntS, BoolS)
    dval = z3.Function(tag + "_default", IntS, StrS)
    idf = z3.Function(tag + "_id", IntS, IntS)

    def elem(i):
        P.assume(z3.And(kindf(i) >= 0, kindf(i) < 5))
        P.assume(z3.And(z3.Length(namef(i)) > 0, z3.Not(z3.PrefixOf(z3.StringVal("*"), namef(i)))))
        return SObj("Parameter", {"name": SStr(namef(i)), "kind": SEnum(PK, kindf(i)),
                                  "default": SUnion([(dnone(i), None), (z3.Not(dnone(i)), SStr(dval(i)))]),
                                  "annotation": None, "docstring": None, "function": None}, ident=idf(i), frozen=True)
    seq = sym_seq(P, tag + "_params", elem)
    n = zint(seq.len)
    a, b = z3.Ints(f"{tag}_u1 {tag}_u2")
    # unique names
    P.assume(z3.ForAll([a, b], z3.Implies(z3.And(a >= 0, a < n, b >= 0, b < n, namef(a) == namef(b)), a == b)))
    # legal signature: kinds in CPython order (PO < POK < *args < KWO < **kw), at most one of each variadic,
    # no required positional parameter after an optional one
    P.assume(z3.ForAll([a, b], z3.Implies(z3.And(a >= 0, a < b, b < n), z3.And(
        kindf(a) <= kindf(b),
        z3.Not(z3.And(kindf(a) == VP, kindf(b) == VP)), z3.Not(z3.And(kindf(a) == VK, kindf(b) == VK)),
        z3.Implies(z3.And(kindf(b) <= POK, dnone(b)), dnone(a))))))
    P.assume(z3.ForAll([a], z3.Implies(z3.And(a >= 0, a < n, z3.Or(kindf(a) == VP, kindf(a) == VK)), z3.Not(dnone(a)))))
    params = SObj("Parameters", {"_params": seq}, frozen=True)
    returns = opt(P, tag + "_returns", lambda: P.fresh_str(tag + "_returns_text"))
    fn = SObj("Function", {"parameters": params, "returns": returns, "name": "f"}, ident=z3.Int(tag + "_fn_id"), frozen=True)
    info = dict(name=namef, kind=kindf, dnone=dnone, dval=dval, n=n, seq=seq, returns=returns)
    P.witness[tag] = seq
    P.witness[tag + "_returns"] = returns
    return fn, info


def has_kind(info, k):
    q = z3.Int("q_hk")
    return z3.Exists([q], z3.And(q >= 0, q < info["n"], info["kind"](q) == k))


def classes(items):
    return [o.cls for o in items]


def run_fn(P, old, new):
    kind_, res = outcome(P, lambda: call(P, FN, old, new))
    if kind_ == "raise":
        P.prove("raises", False, exc=P.resolve_cls(res))
        raise PathEnd()
    if not isinstance(res, loops.SCat):
        raise Unsupported("expected a flat-map summary for _function_incompatibilities")
    flats = [p for p in res.parts if isinstance(p, tuple) and isinstance(p[0], loops.SFlat)]
    tail = [x for p in res.parts if isinstance(p, list) for x in p]
    if len(flats) != 2:
        raise Unsupported(f"expected two parameter loops, found {len(flats)}")
    return flats[0][0], flats[1][0], tail


def find_new(P, oi, ni, i):
    """Spec-side look-up of old[i].name among the new parameters."""
    filt = loops.SFilter(ni["seq"], lambda q: (ni["name"](zint(q)) == oi["name"](i), None))
    return models.first_match(P, filt)


@contract("C10", "per_old_parameter", [FN, "_griffe.models:Parameters.__contains__", "_griffe.models:Parameters.__getitem__",
                                      "_griffe.models:Parameter.required"], replay="replay_pair", floor=12, shard_bits=4)
def c_per_old(P):
    """Output of one iteration of the first loop == rule table A.7 (any lengths, Skolem index)."""
    old, oi = mk_function(P, "old")
    new, ni = mk_function(P, "new")
    f1, f2, tail = run_fn(P, old, new)
    i = z3.Int("i_old")
    P.witness["i_old"] = SInt(i)
    P.assume(z3.And(i >= 0, i < oi["n"]))
    oi["seq"].at(i)
    kind_, items = outcome(P, lambda: f1.items_at(P, i)["yield"])
    if kind_ == "raise":
        P.prove("iter.raises", False, exc=P.resolve_cls(items))
        return
    cl = classes(items)
    pres, j = find_new(P, oi, ni, i)
    ni["seq"].at(j)
    ok, nk = oi["kind"](i), ni["kind"](j)
    has_va, has_vk = has_kind(ni, VP), has_kind(ni, VK)
    swallowed = z3.Or(z3.And(ok == KWO, has_vk), z3.And(ok == PO, has_va), z3.And(ok == POK, has_va, has_vk))
    o_req, n_req = oi["dnone"](i), ni["dnone"](j)
    pos = lambda k: z3.Or(k == PO, k == POK)  # noqa: E731
    exp = {
        "ParameterRemovedBreakage": z3.And(z3.Not(pres), z3.Not(swallowed)),
        "ParameterChangedRequiredBreakage": z3.And(pres, n_req, z3.Not(o_req)),
        "ParameterMovedBreakage": z3.And(pres, pos(ok), pos(nk), j != i),
        "ParameterChangedKindBreakage": z3.And(pres, ok != nk, z3.Or(
            z3.And(ok == PO, nk == KWO), z3.And(ok == KWO, nk == PO),
            z3.And(ok == POK, z3.Or(nk == PO, nk == KWO)),
            z3.And(nk == VK, ok != KWO, z3.Not(has_va)),
            z3.And(nk == VP, ok != PO, z3.Not(has_vk)),
            z3.And(z3.Or(ok == VP, ok == VK), nk != VP, nk != VK))),
        "ParameterChangedDefaultBreakage": z3.And(pres, z3.Not(o_req), z3.Not(n_req), ok != VP, ok != VK, nk != VP, nk != VK,
                                                  oi["dval"](i) != ni["dval"](j)),
    }
    nonempty = len(items) > 0
    # ---- statement-level obligations (clauses of the property)
    P.prove("b1.moved_is_reported", z3.Implies(exp["ParameterMovedBreakage"], nonempty), items=cl)
    P.prove("b2.changed_default_is_reported", z3.Implies(exp["ParameterChangedDefaultBreakage"], nonempty), items=cl)
    P.prove("b3.became_required_is_reported", z3.Implies(exp["ParameterChangedRequiredBreakage"], nonempty), items=cl)
    P.prove("a.unswallowed_removal_is_reported", z3.Implies(exp["ParameterRemovedBreakage"], nonempty), items=cl)
    P.prove("a.call_breaking_kind_change_is_reported", z3.Implies(z3.And(pres, z3.Or(
        z3.And(ok == PO, nk == KWO), z3.And(ok == KWO, nk == PO), z3.And(ok == POK, z3.Or(nk == PO, nk == KWO)),
        z3.And(z3.Or(ok == VP, ok == VK), nk != VP, nk != VK))), nonempty), items=cl)
    changed = {
        "ParameterRemovedBreakage": z3.Not(pres),
        "ParameterChangedRequiredBreakage": z3.And(pres, o_req != n_req),
        "ParameterMovedBreakage": z3.And(pres, j != i),
        "ParameterChangedKindBreakage": z3.And(pres, ok != nk),
        "ParameterChangedDefaultBreakage": z3.And(pres, z3.Or(o_req != n_req, oi["dval"](i) != ni["dval"](j))),
    }
    for c_ in cl:
        P.prove("d.reported_parameter_really_changed", changed.get(c_, False), items=cl, which=c_)
    # ---- pinned-behaviour obligations (rule table A.7; stronger than the statement)
    for k, e in exp.items():
        P.prove(f"table.{k}", e == (k in cl), items=cl, level="pinned")
    P.prove("table.no_other", all(c in exp for c in cl), items=cl, level="pinned")
    P.prove("table.no_duplicates", len(set(cl)) == len(cl), items=cl, level="pinned")
    for o in items:
        P.prove("d.names_the_old_parameter", P.identical(o.fields["old_value"], oi["seq"].at(i)))
    P.cover("per_old")


@contract("C10", "per_new_parameter", [FN], replay="replay_pair", floor=2)
def c_per_new(P):
    old, oi = mk_function(P, "old")
    new, ni = mk_function(P, "new")
    f1, f2, tail = run_fn(P, old, new)
    j = z3.Int("j_new")
    P.witness["j_new"] = SInt(j)
    P.assume(z3.And(j >= 0, j < ni["n"]))
    kind_, items = outcome(P, lambda: f2.items_at(P, j)["yield"])
    if kind_ == "raise":
        P.prove("iter.raises", False, exc=P.resolve_cls(items))
        return
    q = z3.Int("q_pn")
    in_old = z3.Exists([q], z3.And(q >= 0, q < oi["n"], oi["name"](q) == ni["name"](j)))
    exp = z3.And(z3.Not(in_old), ni["dnone"](j))
    cl = classes(items)
    P.prove("a.added_required_is_reported", z3.Implies(exp, len(cl) > 0), items=cl)
    for c_ in cl:
        P.prove("d.reported_parameter_really_changed", z3.Not(in_old) if c_ == "ParameterAddedRequiredBreakage" else False, items=cl)
    P.prove("table.added_required", exp == (cl == ["ParameterAddedRequiredBreakage"]), items=cl, level="pinned")
    P.prove("table.nothing_else", cl in ([], ["ParameterAddedRequiredBreakage"]), items=cl, level="pinned")
    P.cover("per_new")


@contract("C10", "returns", [FN, "_griffe.diff:_returns_are_compatible"], replay="replay_pair", floor=1)
def c_returns(P):
    old, oi = mk_function(P, "old")
    new, ni = mk_function(P, "new")
    f1, f2, tail = run_fn(P, old, new)
    cl = classes(tail)
    exp = z3.And(z3.Not(oi["returns"].alts[0][0]), ni["returns"].alts[0][0])
    P.prove("table.return_removed", exp == (cl == ["ReturnChangedTypeBreakage"]), items=cl, level="pinned")
    P.prove("table.nothing_else", cl in ([], ["ReturnChangedTypeBreakage"]), items=cl, level="pinned")
    P.prove("c.same_returns_silent", z3.Implies(z3.And(oi["returns"].alts[0][0], ni["returns"].alts[0][0]), cl == []), items=cl)


@contract("C10", "identical_silent", [FN], replay="replay_pair", floor=3)
def c_identical(P):
    """(c) identical signatures produce no report: new is the same parameter sequence as old."""
    old, oi = mk_function(P, "old")
    new = SObj("Function", {"parameters": old.fields["parameters"], "returns": old.fields["returns"], "name": "f"}, ident=z3.Int("new_fn_id"), frozen=True)
    P.witness["new"] = oi["seq"]
    P.witness["new_returns"] = oi["returns"]
    f1, f2, tail = run_fn(P, old, new)
    i = z3.Int("i_old")
    P.witness["i_old"] = SInt(i)
    P.assume(z3.And(i >= 0, i < oi["n"]))
    k1, it1 = outcome(P, lambda: f1.items_at(P, i)["yield"])
    P.prove("loop1_silent", k1 == "ok" and it1 == [], items=str(it1))
    k2, it2 = outcome(P, lambda: f2.items_at(P, i)["yield"])
    P.prove("loop2_silent", k2 == "ok" and it2 == [], items=str(it2))
    P.prove("tail_silent", tail == [])


# --------------------------------------------------------------------------- bounded tier (never counted as proved)
def bounded_checks(tier, seed):
    """Clause (a): every call that CPython binds to old but not to new => at least one breakage.
    Exhaustive over all legal signature pairs with <= 2 parameters per side over 3 names, all call shapes
    (0..3 positionals x every keyword subset), real function calls as the binding oracle."""
    import json, os, subprocess, time
    from pyvc.run import VERIF, VENV_PY, REPO_SRC
    env = dict(os.environ, PYTHONPATH=str(REPO_SRC))
    out = []
    runs = [("binding.len2.exhaustive", ["2"], False)]
    if tier == "thorough":
        runs.append(("binding.len3.sampled_old", ["3", "40", str(seed)], True))
    for name, args, class_match in runs:
        t0 = time.time()
        r = subprocess.run([VENV_PY, "-m", "replay.C10"] + args, capture_output=True, text=True, cwd=str(VERIF), env=env, timeout=3000)
        if r.returncode != 0:
            raise RuntimeError("bounded C10 check crashed: " + r.stderr[-2000:])
        d = json.loads(r.stdout.strip().splitlines()[-1])
        out.append({"check": name, "tool": "exhaustive enumeration + real calls (CPython binder as oracle)", "bound": f"<= {args[0]} parameters per side, names x,y,z, all call shapes up to len+1 positionals"
                    + (f", {args[1]} sampled old signatures x all new" if len(args) > 1 else ""),
                    "cases": d["pairs"], "signatures": d["signatures"], "failing": len(d["bad"]), "wall_s": round(time.time() - t0, 1),
                    "class_match": class_match, "violations": d["bad"]})
    return out
